package c14

import (
	"fmt"
	"math"
	"os"
	"sort"
	"strconv"
	"strings"
	"testing"

	"pgregory.net/rapid"
	"verif/internal/cli"
	"verif/internal/gen"
	"verif/internal/pbt"
)

// ---- command line tier ------------------------------------------------------------------------------
//
// consensus, stats (summary, char, maxchar, gaps --unique, mutations --unique / --ref-sequence,
// mutations list, alleles, --per-sequences), compute entropy, compute pssm, diff --counts.
// The output tables are read with the small readers below; values printed with k decimals are compared
// with half a unit of the last printed decimal as tolerance. The alphabet is detected from the file (a
// protein file holds at least one L).

type cliCase struct {
	Ali gen.Ali `json:"ali"`
	// More: further alignments of the same input file (multi-alignment Phylip, read with -p); only
	// for the commands that loop over their input. Each printed block is judged against its own alignment
	More   []gen.Ali `json:"more,omitempty"`
	Phylip bool      `json:"phylip"`            // Phylip input (always with More)
	F      *formula  `json:"formula,omitempty"` // a tall or long first alignment, by formula
	// optional inputs, drawn independently so that every combination occurs
	HasRef  bool       `json:"ref_sequence"`            // stats --per-sequences: --ref-sequence given
	RefFile []string   `json:"ref_file,omitempty"`      // --ref-sequence names a FASTA file with these sequences: the first one is the reference
	GapMode string     `json:"gap_mode,omitempty"`      // stats gaps: "" (all gaps), from-start, from-end, openning
	OldFlag bool       `json:"exclude_gaps_flag"`       // consensus / maxchar: the older spelling --exclude-gaps instead of --ignore-gaps
	Profile []string   `json:"count_profile,omitempty"` // --count-profile: rows the profile file is counted from (per-sequences, gaps --unique, mutations --unique)
	Only    string     `json:"only,omitempty"`          // stats char --only
	Layout  cli.Layout `json:"layout"`                  // presentation of a FASTA input
	OutFile bool       `json:"out_file"`                // consensus / diff: -o <file> instead of standard output
	Stale   bool       `json:"stale"`                   // the output file exists before, with longer stale content
	Cmd     string     `json:"cmd"`
	IG      bool       `json:"ignore_gaps"`
	IN      bool       `json:"ignore_n"`
	Ref     int        `json:"ref"` // reference row for the mutation commands
	Pseudo  float64    `json:"pseudocount"`
	Log     bool       `json:"log"`
	Norm    int        `json:"normalization"`
	Avg     bool       `json:"average"`
	NoGaps  bool       `json:"no_gaps"`
}

var cliCmds = []string{"mutations-list", "entropy", "pssm", "diff-counts", "per-sequences", "mutations-ref", "consensus", "maxchar", "gaps-count", "stats",
	"char-per-sites", "gaps-unique", "mutations-unique", "char", "char-per-sequences", "alleles"}

// loops: the commands that process every alignment of their input
var loops = map[string]bool{"consensus": true, "stats": true, "char": true, "char-per-sequences": true, "char-per-sites": true,
	"entropy": true, "pssm": true, "diff-counts": true, "alleles": true, "per-sequences": true}

// detectable: the alignment written to a file must be detected with its alphabet again: proteins hold an
// L and none of J, U, O (which no alphabet of the detection knows or which are nucleotide-only)
func detectable(t *rapid.T, a *gen.Ali) {
	if a.Alphabet != "aa" {
		return
	}
	has := false
	for i := range a.Rows {
		b := []byte(a.Rows[i].Seq)
		for k, ch := range b {
			switch ch {
			case 'J', 'U', 'O':
				b[k] = 'B'
			case 'j', 'u', 'o':
				b[k] = 'b'
			case 'L', 'l':
				has = true
			}
		}
		a.Rows[i].Seq = string(b)
	}
	if !has {
		i := rapid.IntRange(0, len(a.Rows)-1).Draw(t, "Li")
		j := rapid.IntRange(0, a.Length()-1).Draw(t, "Lj")
		b := []byte(a.Rows[i].Seq)
		b[j] = 'L'
		a.Rows[i].Seq = string(b)
	}
}

func genCLI(t *rapid.T) cliCase {
	var c cliCase
	c.Cmd = rapid.SampledFrom(cliCmds).Draw(t, "cmd")
	mixedOK := c.Cmd == "consensus" || c.Cmd == "maxchar" || c.Cmd == "stats" || c.Cmd == "char" || c.Cmd == "char-per-sequences"
	special := false
	switch c.Cmd {
	case "mutations-list", "mutations-ref", "per-sequences", "mutations-unique", "gaps-unique", "diff-counts", "gaps-count":
		special = true
	}
	one := func(alpha string) gen.Ali {
		var a gen.Ali
		for {
			a, _ = genAli(t, mixedOK, 1)
			if alpha == "" || a.Alphabet == alpha {
				break
			}
		}
		if special {
			sprinkle(t, &a, nil)
		}
		// (after the special characters, so that the L making the file a protein file survives)
		detectable(t, &a)
		return a
	}
	if f := genMaybeLarge(t, mixedOK); f != nil {
		if f.Alphabet == "aa" {
			// the first column gets an L in every row: the file is detected as protein
			if f.Kind == "tall" {
				f.Cols[0].Runs = []frun{{"L", f.Rows}}
			} else {
				f.Cols[0].S = strings.Repeat("L", f.Rows)
			}
		}
		c.F = f
		c.Ali = gen.Ali{Alphabet: f.Alphabet}
	} else {
		c.Ali = one("")
		if loops[c.Cmd] && rapid.IntRange(0, 2).Draw(t, "multi") != 1 {
			// a Phylip file of 2-3 alignments of the same alphabet, of different sizes and contents
			c.Phylip = true
			k := rapid.IntRange(1, 2).Draw(t, "more")
			for i := 0; i < k; i++ {
				c.More = append(c.More, one(c.Ali.Alphabet))
			}
		} else {
			c.Phylip = rapid.IntRange(0, 3).Draw(t, "phylip1") == 2
		}
	}
	c.IG, c.IN = rapid.Bool().Draw(t, "ig"), rapid.Bool().Draw(t, "in")
	if !c.Phylip {
		c.Layout = cli.DrawLayout(t)
	}
	if c.Cmd == "consensus" || c.Cmd == "diff-counts" {
		c.OutFile = rapid.Bool().Draw(t, "outfile")
		c.Stale = c.OutFile && rapid.Bool().Draw(t, "stale")
	}
	c.HasRef = rapid.Bool().Draw(t, "hasref")
	c.GapMode = rapid.SampledFrom([]string{"", "from-start", "from-end", "openning"}).Draw(t, "gapmode")
	c.OldFlag = rapid.Bool().Draw(t, "oldflag")
	switch c.Cmd {
	case "per-sequences", "gaps-unique", "mutations-unique":
		if c.F == nil && rapid.Bool().Draw(t, "withprofile") {
			// one profile file serves one alignment length: a single alignment then
			c.More = nil
			chars := ntUpper
			if c.Ali.Alphabet == "aa" {
				chars = aaUpper
			}
			for i := rapid.IntRange(1, 4).Draw(t, "profrows"); i > 0; i-- {
				if rapid.Bool().Draw(t, "copy") {
					c.Profile = append(c.Profile, c.Ali.Rows[rapid.IntRange(0, len(c.Ali.Rows)-1).Draw(t, "which")].Seq)
				} else {
					c.Profile = append(c.Profile, gen.SeqN(t, chars, c.Ali.Length()))
				}
			}
		}
	case "char", "char-per-sequences", "char-per-sites":
		if c.F == nil && rapid.IntRange(0, 2).Draw(t, "withonly") == 1 {
			// an upper-case character (or the gap) of the first alignment, sometimes an absent one
			r := c.Ali.Rows[rapid.IntRange(0, len(c.Ali.Rows)-1).Draw(t, "onlyrow")].Seq
			ch := fold(r[rapid.IntRange(0, len(r)-1).Draw(t, "onlycol")])
			if rapid.IntRange(0, 3).Draw(t, "absent") == 0 {
				// a character that (most often) does not occur: 0 everywhere, in all three forms (for the
				// per-site form since fix 7377ee2); with several alignments in the file a character of
				// the first one is often absent from the others too
				ch = rapid.SampledFrom([]byte{'W', 'Q', 'Z', 'J'}).Draw(t, "absentchar")
			}
			if ch == '-' || (ch >= 'A' && ch <= 'Z') {
				c.Only = string(ch)
			}
		}
	}
	minRows := len(c.Ali.Rows)
	if c.F != nil {
		minRows = c.F.Rows
	}
	for _, m := range c.More {
		if len(m.Rows) < minRows {
			minRows = len(m.Rows)
		}
	}
	// the reference name exists in every alignment of the file; its residues differ between them
	c.Ref = rapid.IntRange(0, minRows-1).Draw(t, "ref")
	switch c.Cmd {
	case "mutations-ref", "mutations-list", "per-sequences":
		// the reference may also be given as a FASTA file whose first sequence is taken (stats.md)
		if c.F == nil && rapid.IntRange(0, 2).Draw(t, "reffile") == 1 {
			c.More = nil // one reference length
			chars := ntIUPAC
			if c.Ali.Alphabet == "aa" {
				chars = aaUpper
			}
			first := c.Ali.Rows[c.Ref].Seq
			if rapid.Bool().Draw(t, "extref") {
				b := []byte(first)
				for k := range b {
					if rapid.IntRange(0, 3).Draw(t, "refedit") == 0 {
						b[k] = chars[rapid.IntRange(0, len(chars)-1).Draw(t, "refchar")]
					}
				}
				first = string(b)
			}
			c.RefFile = []string{first}
			for k := rapid.IntRange(0, 2).Draw(t, "refmore"); k > 0; k-- {
				c.RefFile = append(c.RefFile, gen.SeqN(t, chars, rapid.IntRange(1, 12).Draw(t, "reflen")))
			}
		}
	}
	c.Pseudo = rapid.SampledFrom([]float64{0, 0.5, 1}).Draw(t, "pseudo")
	c.Log = rapid.Bool().Draw(t, "log")
	c.Norm = rapid.SampledFrom([]int{1, 3, 0, 2, 9}).Draw(t, "norm")
	c.Avg = rapid.Bool().Draw(t, "avg")
	c.NoGaps = rapid.Bool().Draw(t, "nogaps")
	return c
}

// phylip writes the alignments as a sequential multi-alignment Phylip file
func phylip(alis []gen.Ali) string {
	var sb strings.Builder
	for _, a := range alis {
		fmt.Fprintf(&sb, " %d %d\n", len(a.Rows), a.Length())
		for _, r := range a.Rows {
			sb.WriteString(r.Name + "  " + r.Seq + "\n")
		}
	}
	return sb.String()
}

// blockLines: number of output lines one alignment gives
func blockLines(c cliCase, a gen.Ali) int {
	n, l := len(a.Rows), a.Length()
	switch c.Cmd {
	case "stats":
		return 6 + len(foldedCounts(a))
	case "char":
		if c.Only != "" {
			return 2
		}
		return 1 + len(foldedCounts(a))
	case "char-per-sequences", "per-sequences":
		return 1 + n
	case "char-per-sites", "pssm", "maxchar":
		return 1 + l
	case "entropy":
		if c.Avg {
			return 1
		}
		return l
	case "diff-counts", "gaps-unique", "mutations-unique", "mutations-ref", "gaps-count":
		return n
	case "mutations-list":
		if c.RefFile != nil {
			return n
		}
		return n - 1
	case "alleles":
		return 1
	}
	return 0
}

// table splits a tab separated output into lines of fields
func table(out string) [][]string {
	var t [][]string
	lines := strings.Split(out, "\n")
	if len(lines) > 0 && lines[len(lines)-1] == "" {
		lines = lines[:len(lines)-1]
	}
	for _, line := range lines {
		t = append(t, strings.Split(line, "\t"))
	}
	return t
}

func parseF(s string) (float64, error) {
	switch s {
	case "NaN":
		return math.NaN(), nil
	case "-Inf":
		return math.Inf(-1), nil
	case "+Inf", "Inf":
		return math.Inf(1), nil
	}
	return strconv.ParseFloat(s, 64)
}

func closeTo(got, want, half float64) bool {
	if math.IsNaN(got) || math.IsNaN(want) {
		return math.IsNaN(got) && math.IsNaN(want)
	}
	if math.IsInf(got, 0) || math.IsInf(want, 0) {
		return got == want
	}
	return math.Abs(got-want) <= half+1e-9
}

func foldedCounts(a gen.Ali) map[uint8]int {
	var all []byte
	for _, r := range a.Rows {
		all = append(all, r.Seq...)
	}
	return naiveCounts(all)
}

func sortedKeys(m map[uint8]int) []string {
	var ks []string
	for k := range m {
		ks = append(ks, string(k))
	}
	sort.Strings(ks)
	return ks
}

func TestCLI(t *testing.T) {
	if cli.Binary() == "" {
		t.Skip("no goalign binary")
	}
	dir := cli.TempDir("c14cli")
	pbt.Run(t, genCLI, func(c cliCase) (o pbt.Outcome, err error) {
		alis := append([]gen.Ali{resolve(c.Ali, c.F)}, c.More...)
		sizeClass(&o, c.F)
		a := alis[0]
		var in string
		if c.Phylip {
			in = cli.TempFile(dir, ".phy", phylip(alis))
		} else {
			in = cli.TempFile(dir, ".fa", cli.FastaLayout(a.Rows, c.Layout))
			if !c.Layout.Plain() {
				o.Class("input-layout=not-plain")
			}
		}
		defer os.Remove(in)
		var args []string
		flags := func() {
			if c.IG && c.OldFlag {
				args = append(args, "--exclude-gaps") // kept "for backward compatibility" (flag help)
				o.Class("--exclude-gaps")
			} else if c.IG {
				args = append(args, "--ignore-gaps")
			}
			if c.IN {
				args = append(args, "--ignore-n")
			}
		}
		refName := a.Rows[c.Ref].Name
		if c.RefFile != nil {
			var rr []gen.Row
			for i, r := range c.RefFile {
				rr = append(rr, gen.Row{Name: fmt.Sprintf("ref%d", i), Seq: r})
			}
			refName = cli.TempFile(dir, ".ref.fa", cli.Fasta(rr))
			defer os.Remove(refName)
			o.Class("reference-given-as-file(%d sequences)", len(c.RefFile))
		}
		wantErr := false
		switch c.Cmd {
		case "consensus":
			args = []string{"consensus", "-i", in}
			flags()
		case "maxchar":
			args = []string{"stats", "maxchar", "-i", in}
			flags()
		case "stats":
			args = []string{"stats", "-i", in}
		case "char":
			args = []string{"stats", "char", "-i", in}
		case "char-per-sequences":
			args = []string{"stats", "char", "--per-sequences", "-i", in}
		case "char-per-sites":
			args = []string{"stats", "char", "--per-sites", "-i", in}
		case "gaps-count":
			args = []string{"stats", "gaps", "-i", in}
			if c.GapMode != "" {
				args = append(args, "--"+c.GapMode)
			}
		case "gaps-unique":
			args = []string{"stats", "gaps", "--unique", "-i", in}
		case "mutations-unique":
			args = []string{"stats", "mutations", "--unique", "-i", in}
		}
		if c.Only != "" {
			args = append(args, "--only="+c.Only)
		}
		if c.Profile != nil {
			pf := cli.TempFile(dir, ".profile", profileFile(c.Profile))
			defer os.Remove(pf)
			args = append(args, "--count-profile", pf)
		}
		switch c.Cmd {
		case "mutations-ref":
			args = []string{"stats", "mutations", "--ref-sequence", refName, "-i", in}
		case "mutations-list":
			args = []string{"stats", "mutations", "list", "--ref-sequence", refName, "-i", in}
		case "entropy":
			args = []string{"compute", "entropy", "-i", in}
			if c.IG {
				args = append(args, "--remove-gaps")
			}
			if c.Avg {
				args = append(args, "-a")
			}
		case "pssm":
			args = []string{"compute", "pssm", "-i", in, "-n", strconv.Itoa(c.Norm), "-c", strconv.FormatFloat(c.Pseudo, 'g', -1, 64)}
			if c.Log {
				args = append(args, "-l")
			}
			wantErr = c.Norm < 0 || c.Norm > 3
		case "diff-counts":
			args = []string{"diff", "--counts", "-i", in}
			if c.NoGaps {
				args = append(args, "--no-gaps")
			}
		case "alleles":
			args = []string{"stats", "alleles", "-i", in}
		case "per-sequences":
			args = append([]string{"stats", "--per-sequences", "-i", in}, args...)
			if c.HasRef {
				args = append(args, "--ref-sequence", refName)
			}
		}
		if c.Phylip {
			args = append(args, "-p")
			if c.Cmd == "consensus" {
				args = append(args, "--one-line", "--no-block")
			}
		}
		outPath := in + ".out"
		defer os.Remove(outPath)
		if c.OutFile {
			args = append(args, "-o", outPath)
			o.Class("output=file")
			if c.Stale {
				cli.StaleFile(outPath, 60) // an existing file must be replaced
				o.Class("stale-output-file")
			}
		}
		r := cli.Run("", args...)
		if c.OutFile && r.Exit == 0 {
			b, e := os.ReadFile(outPath)
			if e != nil {
				return o, fmt.Errorf("goalign %v: the output file was not written: %v", args, e)
			}
			if strings.TrimSpace(r.Stdout) != "" {
				return o, fmt.Errorf("goalign %v: output on stdout although -o was given: %q", args, r.Stdout)
			}
			r.Stdout = string(b)
		}
		o.Class("cmd=%s", c.Cmd)
		o.Class("alignments-in-file=%d", len(alis))
		if c.Phylip {
			o.Class("input=phylip")
		}
		o.Class("alphabet=%s", a.Alphabet)
		fail := func(format string, x ...interface{}) (pbt.Outcome, error) {
			return o, fmt.Errorf("goalign %v: %s\n input : %s\n stdout: %q\n stderr: %q", args[:len(args)], fmt.Sprintf(format, x...), trunc(gen.Show(allRows(alis))), trunc(r.Stdout), trunc(r.Stderr))
		}
		if wantErr {
			if r.Exit == 0 {
				return fail("exit 0 for the unknown normalisation %d", c.Norm)
			}
			o.Class("error-expected")
			return o, nil
		}
		// '?' has no nucleotide code: the reference comparisons report an error; that answer is accepted
		// and nothing else is judged then. (With several alignments in the file `stats --per-sequences`
		// logs the error, goes on with the next alignment and ends with status 0 and a truncated block:
		// FINDINGS.md, reported, not judged here because the input itself is outside what the documentation fixes.)
		if a.Alphabet == "nt" && (c.Cmd == "mutations-ref" || c.Cmd == "mutations-list" || c.Cmd == "per-sequences") &&
			(r.Exit != 0 || strings.Contains(r.Stderr, "[Error]")) {
			for _, row := range allRows(alis) {
				if strings.Contains(row.Seq, "?") {
					o.Ambiguous++
					o.Class("nucleotide-'?':error-accepted")
					if r.Exit == 0 {
						o.Class("nucleotide-'?':error-logged-but-status-0")
					}
					return o, nil
				}
			}
		}
		if c.Cmd == "pssm" && c.Norm == 2 {
			for _, x := range alis {
				if !allAlphabetCharsPresent(x) {
					// division by the frequency 0 of a character that does not occur: not judged
					o.Ambiguous++
					o.Class("pssm:norm=2:character-absent-not-judged")
					return o, nil
				}
			}
		}
		if r.Exit != 0 {
			return fail("exit %d on a valid request", r.Exit)
		}
		all := table(r.Stdout)
		var cons []string // consensus sequences, one per alignment
		if c.Cmd == "consensus" {
			if c.Phylip {
				// blocks " 1 L" / "consensus  SEQ"
				if len(all)%2 != 0 {
					return fail("odd number of lines in the Phylip output")
				}
				for k := 0; k+1 < len(all); k += 2 {
					f := strings.Fields(strings.Join(all[k+1], "\t"))
					if hd := strings.Fields(strings.Join(all[k], "\t")); len(hd) != 2 || hd[0] != "1" || len(f) != 2 {
						return fail("Phylip block %d unreadable", k/2)
					}
					cons = append(cons, f[1])
				}
			} else {
				rows, e := cli.ParseFasta(r.Stdout)
				if e != nil {
					return fail("unreadable FASTA")
				}
				for _, row := range rows {
					cons = append(cons, row.Seq)
				}
			}
			if len(cons) != len(alis) {
				return fail("%d consensus sequences for %d alignments", len(cons), len(alis))
			}
			all = nil
		}
		if c.Cmd == "entropy" {
			want := "Alignment Site Entropy"
			if c.Avg {
				want = "Alignment AvgEntropy"
			}
			if len(all) == 0 || strings.Join(all[0], " ") != want {
				return fail("header %q expected", want)
			}
			all = all[1:]
		}
		pos := 0
		for ai, a := range alis {
			n, l := len(a.Rows), a.Length()
			ref := a.Rows[c.Ref].Seq
			skipRef := c.Ref // `mutations list` does not list the row that is the reference
			if c.RefFile != nil {
				ref, skipRef = c.RefFile[0], -1
			}
			size := blockLines(c, a)
			if pos+size > len(all) {
				return fail("alignment %d of the file: %d lines expected from line %d on, the output has %d", ai, size, pos, len(all))
			}
			tb := all[pos : pos+size]
			pos += size
			switch c.Cmd {
			case "consensus":
				rows := []gen.Row{{Name: "consensus", Seq: cons[ai]}}
				if len(rows[0].Seq) != l {
					return fail("alignment %d: a consensus of length %d expected, got %q", ai, l, trunc(cons[ai]))
				}
				for j := 0; j < l; j++ {
					s := majoritySite(col(a, j), a.Alphabet, c.IG, c.IN)
					if !s.valid[fold(rows[0].Seq[j])] {
						return fail("site %d (%q): %q is not a most frequent character (admissible %s)", j, col(a, j), rows[0].Seq[j], keys(s.valid))
					}
					if s.tie {
						o.NonTrivial = true
					}
				}
			case "maxchar":
				if len(tb) != l+1 || strings.Join(tb[0], " ") != "site char nb" {
					return fail("header and %d lines expected", l)
				}
				for j := 0; j < l; j++ {
					f := tb[j+1]
					s := majoritySite(col(a, j), a.Alphabet, c.IG, c.IN)
					if len(f) != 3 || f[0] != strconv.Itoa(j) || len(f[1]) != 1 || !s.valid[fold(f[1][0])] {
						return fail("line %v: site %d (%q) admits %s", f, j, col(a, j), keys(s.valid))
					}
					if nb, _ := strconv.Atoi(f[2]); !s.open && !inInts(s.occur, nb) {
						return fail("line %v: site %d (%q) occurrence %v expected", f, j, col(a, j), s.occur)
					}
					if s.tie {
						o.NonTrivial = true
					}
				}
			case "stats", "char":
				want := foldedCounts(a)
				ks := sortedKeys(want)
				if c.Only != "" {
					ks = []string{c.Only} // only this line; 0 when the character does not occur
					o.Class("--only")
				}
				i := 0
				if c.Cmd == "stats" {
					if len(tb) < 5 || strings.Join(tb[0], "=") != "length="+strconv.Itoa(l) || strings.Join(tb[1], "=") != "nseqs="+strconv.Itoa(n) {
						return fail("length/nseqs lines wrong")
					}
					if len(tb[2]) != 2 || tb[2][0] != "avgalleles" || len(tb[3]) != 2 || tb[3][0] != "variable sites" {
						return fail("avgalleles / variable sites lines missing")
					}
					// upper-case input only: these two are case sensitive in the code
					if !isMixed(a) {
						lo, hi, rA, rB, rC := variableAndAlleles(a)
						if nv, _ := strconv.Atoi(tb[3][1]); nv < lo || nv > hi {
							return fail("variable sites %s, counted between %d and %d", tb[3][1], lo, hi)
						}
						av, _ := parseF(tb[2][1])
						if !closeTo(av, rA, 0.00005) && !closeTo(av, rB, 0.00005) && !closeTo(av, rC, 0.00005) {
							return fail("avgalleles %s, counted %v", tb[2][1], rA)
						}
					}
					i = 4
					last := tb[len(tb)-1]
					wantAlpha := "nucleotide"
					if a.Alphabet == "aa" {
						wantAlpha = "protein"
					}
					if len(last) != 2 || last[0] != "alphabet" || last[1] != wantAlpha {
						return fail("alphabet line %v, expected %s", last, wantAlpha)
					}
					tb = tb[:len(tb)-1]
				}
				if i >= len(tb) || strings.Join(tb[i], " ") != "char nb freq" || len(tb)-i-1 != len(ks) {
					return fail("character table: header and %d lines expected", len(ks))
				}
				for k, ch := range ks {
					f := tb[i+1+k]
					nb, _ := strconv.Atoi(f[1])
					fr, _ := parseF(f[2])
					if len(f) != 3 || f[0] != ch || nb != want[ch[0]] || !closeTo(fr, float64(want[ch[0]])/float64(n*l), 0.0000005) {
						return fail("character line %v: %s occurs %d times in %d cells", f, ch, want[ch[0]], n*l)
					}
				}
				o.NonTrivial = o.NonTrivial || len(ks) > 1
			case "char-per-sequences":
				want := foldedCounts(a)
				ks := sortedKeys(want)
				if c.Only != "" {
					ks = []string{c.Only}
					o.Class("--only")
				}
				if len(tb) != n+1 || strings.Join(tb[0], "\t") != "seq\t"+strings.Join(ks, "\t") {
					return fail("header seq + %v and %d lines expected", ks, n)
				}
				for i2, row := range a.Rows {
					f := tb[i2+1]
					wc := naiveCounts([]byte(row.Seq))
					if len(f) != len(ks)+1 || f[0] != row.Name {
						return fail("line %v", f)
					}
					for k, ch := range ks {
						if nb, _ := strconv.Atoi(f[k+1]); nb != wc[ch[0]] {
							return fail("line %v: %s occurs %d times in %q", f, ch, wc[ch[0]], row.Seq)
						}
					}
				}
				o.NonTrivial = o.NonTrivial || len(ks) > 1
			case "char-per-sites":
				if len(tb) != l+1 || tb[0][0] != "site" {
					return fail("header and %d lines expected", l)
				}
				hdr := tb[0][1:]
				want := foldedCounts(a)
				if c.Only != "" {
					o.Class("--only")
					if len(hdr) != 1 || hdr[0] != c.Only {
						return fail("header %v, --only %s", hdr, c.Only)
					}
				} else if len(hdr) != len(want) {
					return fail("header %v, the alignment holds %v", hdr, sortedKeys(want))
				}
				for j := 0; j < l; j++ {
					f := tb[j+1]
					wc := naiveCounts(col(a, j))
					if len(f) != len(hdr)+1 || f[0] != strconv.Itoa(j) {
						return fail("line %v", f)
					}
					for k, ch := range hdr {
						if nb, _ := strconv.Atoi(f[k+1]); len(ch) != 1 || nb != wc[ch[0]] {
							return fail("line %v: %s occurs %d times in column %q", f, ch, wc[ch[0]], col(a, j))
						}
					}
				}
				o.NonTrivial = o.NonTrivial || len(hdr) > 1
			case "gaps-count":
				// the number of '-' of each sequence (a character count), or its leading / trailing run, or
				// the number of runs
				if len(tb) != n {
					return fail("%d lines expected", n)
				}
				o.Class("stats gaps --%s", c.GapMode)
				for i2, row := range a.Rows {
					want := strings.Count(row.Seq, "-")
					switch c.GapMode {
					case "from-start":
						want = len(row.Seq) - len(strings.TrimLeft(row.Seq, "-"))
					case "from-end":
						want = len(row.Seq) - len(strings.TrimRight(row.Seq, "-"))
					case "openning":
						want = 0
						for k := 0; k < l; k++ {
							if row.Seq[k] == '-' && (k == 0 || row.Seq[k-1] != '-') {
								want++
							}
						}
					}
					if nb, e := strconv.Atoi(tb[i2][len(tb[i2])-1]); len(tb[i2]) != 2 || tb[i2][0] != row.Name || e != nil || nb != want {
						return fail("line %v: %d expected for %q", tb[i2], want, row.Seq)
					}
					if want > 0 {
						o.NonTrivial = true
					}
				}
			case "gaps-unique", "mutations-unique":
				u := uniqueCounts(a, c.Profile)
				want, opt := [3][]int{u.gu, u.gn, u.gb}, [3][]int{make([]int, n), make([]int, n), make([]int, n)}
				if c.Cmd == "mutations-unique" {
					want, opt = [3][]int{u.mu, u.mn, u.mb}, [3][]int{u.muO, u.mnO, u.mbO}
				}
				cells := 1 // unique; with a profile: unique, new, both
				if c.Profile != nil {
					cells = 3
					o.Class("--count-profile")
				}
				if len(tb) != n {
					return fail("%d lines expected", n)
				}
				for i2, row := range a.Rows {
					if len(tb[i2]) != 1+cells || tb[i2][0] != row.Name {
						return fail("line %v: name and %d cells expected for %s", tb[i2], cells, row.Name)
					}
					for k := 0; k < cells; k++ {
						if nb, _ := strconv.Atoi(tb[i2][1+k]); nb < want[k][i2] || nb > want[k][i2]+opt[k][i2] {
							return fail("line %v: cell %d (unique/new/both): %d expected for %s", tb[i2], k, want[k][i2], row.Name)
						}
						o.Ambiguous += opt[k][i2]
					}
					if want[0][i2] > 0 {
						o.NonTrivial = true
					}
				}
			case "mutations-ref":
				if len(tb) != n {
					return fail("%d lines expected", n)
				}
				for i2, row := range a.Rows {
					nb, _ := strconv.Atoi(tb[i2][len(tb[i2])-1])
					okN, n1 := numAdmissible(a.Alphabet, row.Seq, ref, nb)
					if len(tb[i2]) != 2 || tb[i2][0] != row.Name || !okN {
						return fail("line %v: %d mutations of %q against %q", tb[i2], n1, row.Seq, ref)
					}
					if n1 > 0 {
						o.NonTrivial = true
					}
				}
			case "mutations-list":
				if len(tb) != blockLines(c, a) {
					return fail("%d lines expected", blockLines(c, a))
				}
				k := 0
				for i2, row := range a.Rows {
					if i2 == skipRef {
						continue
					}
					_, _, l1 := naiveMutations(a.Alphabet, row.Seq, ref, false, nil)
					got := ""
					if len(tb[k]) > 1 {
						got = tb[k][1]
					}
					okL, _ := listAdmissibleBy(a.Alphabet, row.Seq, ref, func(l []mut) bool { return showMuts(l) == got })
					if tb[k][0] != row.Name || len(tb[k]) > 2 || !okL {
						return fail("line %v: %q against %q gives [%s]", tb[k], row.Seq, ref, showMuts(l1))
					}
					if len(l1) > 0 {
						o.NonTrivial = true
					}
					k++
				}
			case "entropy":
				sum, cnt := 0.0, 0
				for j := 0; j < l; j++ {
					h := naiveEntropy(col(a, j), c.IG)
					if !math.IsNaN(h) {
						sum += h
						cnt++
					}
					if h > 0 {
						o.NonTrivial = true
					}
					if c.Avg {
						continue
					}
					f := tb[j]
					got, e := parseF(f[len(f)-1])
					if len(f) != 3 || f[0] != strconv.Itoa(ai) || f[1] != strconv.Itoa(j) || e != nil || !closeTo(got, h, 0.0005) {
						return fail("alignment %d line %v: entropy of %q is %v", ai, f, col(a, j), h)
					}
				}
				if c.Avg {
					got, e := parseF(tb[0][len(tb[0])-1])
					if len(tb[0]) != 2 || tb[0][0] != strconv.Itoa(ai) || e != nil || !closeTo(got, sum/float64(cnt), 0.0005) {
						return fail("alignment %d: average entropy %v, computed %v", ai, tb[0], sum/float64(cnt))
					}
				}
			case "pssm":
				chars := alphabetChars(a.Alphabet)
				if len(tb) != l+1 || len(tb[0]) != len(chars)+1 {
					return fail("header with %d characters and %d lines expected", len(chars), l)
				}
				for k := 0; k < len(chars); k++ {
					if tb[0][k+1] != string(chars[k]) {
						return fail("header %v", tb[0])
					}
				}
				for j := 0; j < l; j++ {
					f := tb[j+1]
					if len(f) != len(chars)+1 || f[0] != strconv.Itoa(j+1) {
						return fail("line %v", f)
					}
					for k := 0; k < len(chars); k++ {
						cnt := 0
						for _, ch := range col(a, j) {
							if fold(ch) == chars[k] {
								cnt++
							}
						}
						want, alt := pssmWant(a, chars, chars[k], cnt, c.Pseudo, c.Norm, c.Log)
						got, e := parseF(f[k+1])
						if e != nil || (!closeTo(got, want, 0.0005+math.Abs(want)*1e-9) && !closeTo(got, alt, 0.0005+math.Abs(alt)*1e-9)) {
							return fail("line %v, %c: %v expected", f, chars[k], want)
						}
					}
				}
				o.NonTrivial = o.NonTrivial || n > 1
			case "diff-counts":
				if n == 1 {
					break
				}
				union := map[string]bool{}
				per := make([]map[string]int, n)
				for i2 := 1; i2 < n; i2++ {
					per[i2] = map[string]int{}
					for k := 0; k < l; k++ {
						x, y := a.Rows[0].Seq[k], a.Rows[i2].Seq[k]
						if x != y && !(c.NoGaps && (x == '-' || y == '-')) {
							key := string([]byte{x, y})
							per[i2][key]++
							union[key] = true
						}
					}
				}
				var ks []string
				for k := range union {
					ks = append(ks, k)
				}
				sort.Strings(ks)
				if len(tb) != n {
					return fail("header and %d lines expected", n-1)
				}
				hdr := tb[0]
				if len(hdr) > 0 && hdr[0] == "" {
					hdr = hdr[1:]
				}
				if strings.Join(hdr, " ") != strings.Join(ks, " ") {
					return fail("header %v, the differences are %v", hdr, ks)
				}
				for i2 := 1; i2 < n; i2++ {
					f := tb[i2]
					if len(f) != len(ks)+1 || f[0] != a.Rows[i2].Name {
						return fail("line %v", f)
					}
					for k, key := range ks {
						if nb, _ := strconv.Atoi(f[k+1]); nb != per[i2][key] {
							return fail("line %v: %s occurs %d times", f, key, per[i2][key])
						}
					}
				}
				o.NonTrivial = o.NonTrivial || len(ks) > 0
			case "alleles":
				_, _, rA, rB, rC := variableAndAlleles(a)
				got, e := parseF(strings.TrimSpace(strings.Join(tb[0], "\t")))
				if e != nil || (!eqF(got, rA, 1e-9) && !eqF(got, rB, 1e-9) && !eqF(got, rC, 1e-9)) {
					return fail("average number of alleles %v expected", rA)
				}
				o.NonTrivial = o.NonTrivial || rA > 1
			case "per-sequences":
				if len(tb) != n+1 {
					return fail("header and %d lines expected", n)
				}
				// the cells are read by the name of their column
				idx := map[string]int{}
				for k, h := range tb[0] {
					if _, dup := idx[h]; dup {
						return fail("column %s twice in %v", h, tb[0])
					}
					idx[h] = k
				}
				need := []string{"sequence", "gaps", "gapsstart", "gapsend", "gapsuniques", "gapsopenning", "mutuniques", "length"}
				if c.Profile != nil {
					need = append(need, "gapsnew", "gapsboth", "mutsnew", "mutsboth")
					o.Class("--count-profile")
				}
				if c.HasRef {
					need = append(need, "mutref")
					o.Class("--ref-sequence")
				}
				if ai == 0 {
					o.Class("per-sequences:ref-sequence=%v,count-profile=%v", c.HasRef, c.Profile != nil)
				}
				wantChars := foldedCounts(a)
				if len(tb[0]) != len(need)+len(wantChars) {
					return fail("header %v: the %d columns %v and one per character expected", tb[0], len(need), need)
				}
				for _, h := range need {
					if _, ok := idx[h]; !ok {
						return fail("column %s missing in %v", h, tb[0])
					}
				}
				u := uniqueCounts(a, c.Profile)
				for i2, row := range a.Rows {
					f := tb[i2+1]
					if len(f) != len(tb[0]) || f[idx["sequence"]] != row.Name {
						return fail("line %v", f)
					}
					geti := func(h string) int { v, _ := strconv.Atoi(f[idx[h]]); return v }
					gaps := strings.Count(row.Seq, "-")
					gstart := len(row.Seq) - len(strings.TrimLeft(row.Seq, "-"))
					gend := len(row.Seq) - len(strings.TrimRight(row.Seq, "-"))
					gopen := 0
					for k := 0; k < l; k++ {
						if row.Seq[k] == '-' && (k == 0 || row.Seq[k-1] != '-') {
							gopen++
						}
					}
					exact := map[string]int{"gaps": gaps, "gapsstart": gstart, "gapsend": gend, "gapsopenning": gopen, "gapsuniques": u.gu[i2], "length": l - gaps}
					ranged := map[string][2]int{"mutuniques": {u.mu[i2], u.muO[i2]}}
					if c.Profile != nil {
						exact["gapsnew"], exact["gapsboth"] = u.gn[i2], u.gb[i2]
						ranged["mutsnew"], ranged["mutsboth"] = [2]int{u.mn[i2], u.mnO[i2]}, [2]int{u.mb[i2], u.mbO[i2]}
					}
					for _, h := range need[1:] {
						if v, ok := exact[h]; ok && geti(h) != v {
							return fail("line %v: column %s = %d, %d expected (row %q)", f, h, geti(h), v, row.Seq)
						}
						if v, ok := ranged[h]; ok && (geti(h) < v[0] || geti(h) > v[0]+v[1]) {
							return fail("line %v: column %s = %d, %d expected (row %q)", f, h, geti(h), v[0], row.Seq)
						}
					}
					n1 := 0
					if c.HasRef {
						var okN bool
						if okN, n1 = numAdmissible(a.Alphabet, row.Seq, ref, geti("mutref")); !okN {
							return fail("line %v: column mutref = %d, %d mutations of %q against %q", f, geti("mutref"), n1, row.Seq, ref)
						}
					}
					wc := naiveCounts([]byte(row.Seq))
					for _, ch := range sortedKeys(wantChars) {
						if _, ok := idx[ch]; !ok || geti(ch) != wc[ch[0]] {
							return fail("line %v: column %s: %d expected", f, ch, wc[ch[0]])
						}
					}
					if u.mu[i2] > 0 || n1 > 0 {
						o.NonTrivial = true
					}
				}
			}
		}
		if pos != len(all) {
			return fail("%d lines of output are left after the %d alignments of the file", len(all)-pos, len(alis))
		}
		return o, nil
	})
}

func seqsOfAli(a gen.Ali) []string {
	out := make([]string, len(a.Rows))
	for i, r := range a.Rows {
		out[i] = r.Seq
	}
	return out
}

// profileFile: the table `goalign stats char --per-sites` prints: "site", one column per character that
// occurs in the rows, one line per site
func profileFile(rows []string) string {
	present := map[uint8]bool{}
	for _, r := range rows {
		for i := 0; i < len(r); i++ {
			present[r[i]] = true
		}
	}
	var hdr []int
	for k := range present {
		hdr = append(hdr, int(k))
	}
	sort.Ints(hdr)
	var sb strings.Builder
	sb.WriteString("site")
	for _, h := range hdr {
		sb.WriteString("\t" + string(rune(h)))
	}
	sb.WriteString("\n")
	for j := 0; j < len(rows[0]); j++ {
		sb.WriteString(strconv.Itoa(j))
		for _, h := range hdr {
			sb.WriteString("\t" + strconv.Itoa(profCount(rows, uint8(h), j)))
		}
		sb.WriteString("\n")
	}
	return sb.String()
}

// uniq: per row, the gaps / residues that are unique in their column, new against the profile, both;
// the O slices hold the optional part (special characters, see checkUnique)
type uniq struct{ gu, gn, gb, mu, mn, mb, muO, mnO, mbO []int }

func uniqueCounts(a gen.Ali, profile []string) uniq {
	n := len(a.Rows)
	mk := func() []int { return make([]int, n) }
	u := uniq{mk(), mk(), mk(), mk(), mk(), mk(), mk(), mk(), mk()}
	w := wildOf(a.Alphabet)
	for j := 0; j < a.Length(); j++ {
		cells := col(a, j)
		cnt := map[uint8]int{}
		for _, ch := range cells {
			cnt[ch]++
		}
		for i, ch := range cells {
			isNew := profile != nil && profCount(profile, ch, j) == 0
			one := cnt[ch] == 1
			add := func(un, nw, bo []int) {
				if one {
					un[i]++
				}
				if isNew {
					nw[i]++
				}
				if one && isNew {
					bo[i]++
				}
			}
			switch {
			case ch == '-':
				add(u.gu, u.gn, u.gb)
			case ch == w:
			case isSpecial(a.Alphabet, ch):
				add(u.muO, u.mnO, u.mbO)
			default:
				add(u.mu, u.mn, u.mb)
			}
		}
	}
	return u
}

func allRows(alis []gen.Ali) []gen.Row {
	var out []gen.Row
	for _, a := range alis {
		out = append(out, a.Rows...)
	}
	return out
}

func trunc(s string) string {
	if len(s) > 600 {
		return s[:600] + "..."
	}
	return s
}

// variableAndAlleles: bounds of the number of variable sites and the accepted readings of the average
// number of alleles (see checkSiteMeasures), upper-case input
func variableAndAlleles(a gen.Ali) (lo, hi int, rA, rB, rC float64) {
	w := wildOf(a.Alphabet)
	allelesA, sitesA, allelesB, sitesB, sitesC := 0, 0, 0, 0, 0
	for j := 0; j < a.Length(); j++ {
		distinct, distinctNoW := map[uint8]bool{}, map[uint8]bool{}
		for _, ch := range col(a, j) {
			if ch == '-' {
				continue
			}
			distinct[ch] = true
			if ch != w {
				distinctNoW[ch] = true
			}
		}
		vA, vB := len(distinct) > 1, len(distinctNoW) > 1
		if vA && vB {
			lo++
		}
		if vA || vB {
			hi++
		}
		allelesA += len(distinct)
		allelesB += len(distinctNoW)
		if len(distinct) > 0 {
			sitesA++
			sitesC++
		}
		if len(distinctNoW) > 0 {
			sitesB++
		}
	}
	return lo, hi, float64(allelesA) / float64(sitesA), float64(allelesB) / float64(sitesB), float64(allelesB) / float64(sitesC)
}
