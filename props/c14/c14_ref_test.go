package c14

import (
	"fmt"
	"reflect"
	"sort"
	"strings"
	"testing"

	"github.com/evolbioinfo/goalign/align"
	"pgregory.net/rapid"
	"verif/internal/gen"
	"verif/internal/pbt"
)

// ---- 4. residues and gaps that are unique in their column (upper-case input) ---------------------

type uniqueCase struct {
	Ali  gen.Ali   `json:"ali"`
	F    *formula  `json:"formula,omitempty"` // a tall or long alignment given by formula
	Plan *gen.Plan `json:"plan,omitempty"`
	PF   *formula  `json:"profile_formula,omitempty"` // its profile alignment, by formula
	// Profile: rows of a second alignment of the same length the profile is counted from; nil = no profile
	Profile []string `json:"profile"`
	// ByHand: build the profile with SetHeader/AppendCount from the harness's own counts instead of
	// NewCountProfileFromAlignment
	ByHand bool `json:"profile_by_hand"`
}

func buildProfile(rows []string, l int, alpha string, byHand bool) *align.CountProfile {
	if !byHand {
		pa := gen.Ali{Alphabet: alpha}
		for i, r := range rows {
			pa.Rows = append(pa.Rows, gen.Row{Name: fmt.Sprintf("p%d", i), Seq: r})
		}
		return align.NewCountProfileFromAlignment(gen.MustBuild(pa))
	}
	present := map[uint8]bool{}
	for _, r := range rows {
		for i := 0; i < len(r); i++ {
			present[r[i]] = true
		}
	}
	var header []uint8
	for k := range present {
		header = append(header, k)
	}
	sort.Slice(header, func(i, j int) bool { return header[i] < header[j] })
	p := align.NewCountProfile()
	p.SetHeader(header)
	for j := 0; j < l; j++ {
		for hi, h := range header {
			c := 0
			for _, r := range rows {
				if r[j] == h {
					c++
				}
			}
			p.AppendCount(hi, c)
		}
	}
	return p
}

func profCount(rows []string, ch byte, j int) int {
	c := 0
	for _, r := range rows {
		if r[j] == ch {
			c++
		}
	}
	return c
}

func checkUnique(c uniqueCase) (o pbt.Outcome, err error) {
	a := resolve(c.Ali, c.F)
	sizeClass(&o, c.F)
	if c.PF != nil {
		c.Profile = nil
		for _, r := range c.PF.expand().Rows {
			c.Profile = append(c.Profile, r.Seq)
		}
	}
	return uniqueOn(buildVia(a, c.Plan, &o), a, c, nil, o)
}

// uniqueOn: prof = a profile object built earlier from c.Profile (nil: built here)
func uniqueOn(al align.Alignment, a gen.Ali, c uniqueCase, prof *align.CountProfile, o pbt.Outcome) (pbt.Outcome, error) {
	n, l := len(a.Rows), a.Length()
	w := wildOf(a.Alphabet)
	if c.Profile != nil && prof == nil {
		prof = buildProfile(c.Profile, l, a.Alphabet, c.ByHand)
	}
	gu, gn, gb := make([]int, n), make([]int, n), make([]int, n)
	mu, mn, mb := make([]int, n), make([]int, n), make([]int, n)
	// '*', '.', '?' (and X/x in nucleotide rows) are no residues: the doc comment ("does not take into
	// account 'N' and '-' as unique mutations") is silent about them: counted or not, both accepted
	muO, mnO, mbO := make([]int, n), make([]int, n), make([]int, n)
	any, anySpecial := false, false
	for j := 0; j < l; j++ {
		cells := col(a, j)
		cnt := map[uint8]int{}
		for _, ch := range cells {
			cnt[ch]++
		}
		for i, ch := range cells {
			isNew := c.Profile != nil && profCount(c.Profile, ch, j) == 0
			if ch == '-' {
				if cnt[ch] == 1 {
					gu[i]++
					any = true
				}
				if isNew {
					gn[i]++
				}
				if cnt[ch] == 1 && isNew {
					gb[i]++
				}
				continue
			}
			if ch == w {
				continue
			}
			if isSpecial(a.Alphabet, ch) {
				anySpecial = true
				if cnt[ch] == 1 {
					muO[i]++
				}
				if isNew {
					mnO[i]++
				}
				if cnt[ch] == 1 && isNew {
					mbO[i]++
				}
				continue
			}
			if cnt[ch] == 1 {
				mu[i]++
				any = true
			}
			if isNew {
				mn[i]++
			}
			if cnt[ch] == 1 && isNew {
				mb[i]++
			}
		}
	}
	for rep := 0; rep < 2; rep++ {
		u, nw, b, e := al.NumGapsUniquePerSequence(prof)
		if e != nil {
			return o, fmt.Errorf("NumGapsUniquePerSequence: %v", e)
		}
		if !reflect.DeepEqual(u, gu) || !reflect.DeepEqual(nw, gn) || !reflect.DeepEqual(b, gb) {
			return o, fmt.Errorf("NumGapsUniquePerSequence = unique %v new %v both %v, counted unique %v new %v both %v", u, nw, b, gu, gn, gb)
		}
		u, nw, b, e = al.NumMutationsUniquePerSequence(prof)
		if e != nil {
			return o, fmt.Errorf("NumMutationsUniquePerSequence: %v", e)
		}
		if !within(u, mu, muO) || !within(nw, mn, mnO) || !within(b, mb, mbO) {
			return o, fmt.Errorf("NumMutationsUniquePerSequence = unique %v new %v both %v, counted unique %v new %v both %v (optional, special characters: %v %v %v)", u, nw, b, mu, mn, mb, muO, mnO, mbO)
		}
	}
	if !gen.SameRows(gen.Snapshot(al), a.Rows) {
		return o, fmt.Errorf("a unique-count modified the alignment")
	}
	o.NonTrivial = any && n >= 2
	o.Class("alphabet=%s", a.Alphabet)
	if anySpecial {
		o.Class("special-characters(*.?X)")
		for i := range muO {
			o.Ambiguous += muO[i] + mnO[i] + mbO[i]
		}
	}
	switch {
	case c.Profile == nil:
		o.Class("profile=none")
	case c.ByHand:
		o.Class("profile=SetHeader/AppendCount")
	default:
		o.Class("profile=NewCountProfileFromAlignment")
	}
	return o, nil
}

// within: sure[i] <= got[i] <= sure[i]+opt[i]
func within(got, sure, opt []int) bool {
	if len(got) != len(sure) {
		return false
	}
	for i := range got {
		if got[i] < sure[i] || got[i] > sure[i]+opt[i] {
			return false
		}
	}
	return true
}

// isSpecial: characters that are neither residues, gaps nor the wildcard of the alphabet
func isSpecial(alpha string, ch byte) bool {
	switch ch {
	case '*', '.', '?':
		return true
	}
	return alpha == "nt" && (ch == 'X' || ch == 'x')
}

// sprinkle puts special characters into some columns, at a low rate: either into every row of the
// column (identical cells in all rows and in the external reference) or into some rows only
func sprinkle(t *rapid.T, a *gen.Ali, ext *string) {
	if rapid.IntRange(0, 3).Draw(t, "specials") != 0 {
		return
	}
	pool := "*.X*.Xx?"
	if a.Alphabet == "aa" {
		pool = "*.*.?"
	}
	l := a.Length()
	rows := make([][]byte, len(a.Rows))
	for i := range rows {
		rows[i] = []byte(a.Rows[i].Seq)
	}
	var e []byte
	if ext != nil && len(*ext) == l {
		e = []byte(*ext)
	}
	for j := 0; j < l; j++ {
		if rapid.IntRange(0, 4).Draw(t, "spcol") != 0 {
			continue
		}
		sp := pool[rapid.IntRange(0, len(pool)-1).Draw(t, "sp")]
		whole := rapid.Bool().Draw(t, "spwhole")
		for i := range rows {
			if whole || rapid.IntRange(0, 2).Draw(t, "sprow") == 0 {
				rows[i][j] = sp
			}
		}
		if e != nil && (whole || rapid.Bool().Draw(t, "spext")) {
			e[j] = sp
		}
	}
	for i := range rows {
		a.Rows[i].Seq = string(rows[i])
	}
	if e != nil {
		*ext = string(e)
	}
}

func TestUnique(t *testing.T) {
	pbt.Run(t, func(t *rapid.T) uniqueCase {
		if f := genMaybeLarge(t, false); f != nil {
			c := uniqueCase{Ali: gen.Ali{Alphabet: f.Alphabet}, F: f}
			if rapid.Bool().Draw(t, "fprofile") {
				// a profile of the same length resembling the alignment: fewer rows (tall) or the
				// columns shifted by one (long)
				pf := *f
				if f.Kind == "tall" {
					pf.Rows = rapid.IntRange(1, 12).Draw(t, "pfrows")
				} else {
					pf.Cols = append(append([]fcol{}, f.Cols[1:]...), f.Cols[0])
				}
				c.PF = &pf
				c.ByHand = rapid.Bool().Draw(t, "byhand")
			}
			return c
		}
		a, _ := genAli(t, false, 1)
		sprinkle(t, &a, nil)
		c := uniqueCase{Ali: a, Plan: maybePlan(t, a)}
		if rapid.IntRange(0, 2).Draw(t, "withprofile") != 0 {
			np := rapid.IntRange(1, 5).Draw(t, "profrows")
			chars := ntUpper
			if a.Alphabet == "aa" {
				chars = aaUpper
			}
			// the profile resembles the alignment: some rows are copies
			for i := 0; i < np; i++ {
				if rapid.Bool().Draw(t, "copy") {
					c.Profile = append(c.Profile, a.Rows[rapid.IntRange(0, len(a.Rows)-1).Draw(t, "which")].Seq)
				} else {
					c.Profile = append(c.Profile, gen.SeqN(t, chars, a.Length()))
				}
			}
			c.ByHand = rapid.Bool().Draw(t, "byhand")
		}
		return c
	}, checkUnique)
}

// ---- 5. substitutions, insertions and deletions relative to a reference ----------------------------

var iupacSets = map[byte]string{
	'A': "A", 'C': "C", 'G': "G", 'T': "T",
	'R': "AG", 'Y': "CT", 'S': "CG", 'W': "AT", 'K': "GT", 'M': "AC",
	'B': "CGT", 'D': "AGT", 'H': "ACT", 'V': "ACG", 'N': "ACGT", '-': "",
}

// compatible: the two IUPAC codes share a nucleotide (a gap shares nothing, except with a gap)
func compatible(x, y byte) bool {
	if x == y {
		return true
	}
	return strings.ContainsAny(iupacSets[x], iupacSets[y]) && iupacSets[x] != "" && iupacSets[y] != ""
}

type refCase struct {
	Ali  gen.Ali   `json:"ali"`
	F    *formula  `json:"formula,omitempty"`
	Plan *gen.Plan `json:"plan,omitempty"`
	// Ref: index of the reference row, or -1: the external sequence Ext
	Ref int    `json:"ref"`
	Ext string `json:"ext"`
}

type mut struct {
	Ref byte
	Pos int
	Alt string
}

// naive model. strictX: in proteins a reference X is "unknown" and never gives a substitution
// (the statement says N/X never count; the doc comment only excludes N/X of the compared sequence):
// both readings are accepted.
//
// Special characters ('*', '.', '?', and X/x in nucleotide rows): a cell identical to the reference
// cell (byte-equal; equal after case folding in nucleotides, where the comparison folds case) is never
// a substitution, insertion or deletion. A non identical pair in which one side is a special character
// is OPEN: the documentation says nothing, so it may be counted/listed or not. open[k] decides the
// k-th open position of this pair of sequences for the list; the count is bounded by lo..hi.
func identicalCell(alpha string, s, r byte) bool {
	return s == r || (alpha == "nt" && fold(s) == fold(r))
}

func openPair(alpha string, s, r byte) bool {
	return !identicalCell(alpha, s, r) && (isSpecial(alpha, s) || isSpecial(alpha, r))
}

func countOpen(alpha, seq, ref string) int {
	k := 0
	for i := 0; i < len(seq); i++ {
		if openPair(alpha, seq[i], ref[i]) {
			k++
		}
	}
	return k
}

func naiveMutations(alpha, seq, ref string, strictX bool, open []bool) (lo, hi int, list []mut) {
	w := wildOf(alpha)
	differs := func(s, r byte) bool {
		if identicalCell(alpha, s, r) {
			return false
		}
		if alpha == "nt" {
			return !compatible(fold(s), fold(r))
		}
		if strictX && r == 'X' {
			return false
		}
		return s != r
	}
	ins := ""
	refi := 0
	k := 0
	for i := 0; i < len(seq); i++ {
		s, r := seq[i], ref[i]
		isOpen := openPair(alpha, s, r)
		take := false
		if isOpen {
			take = k < len(open) && open[k]
			k++
		}
		if s != '-' && s != w {
			if isOpen {
				hi++
			} else if differs(s, r) {
				lo++
				hi++
			}
		}
		if r == '-' {
			if s != '-' && (!isOpen || take) {
				ins += string(s)
			}
			continue
		}
		if ins != "" {
			list = append(list, mut{'-', refi, ins})
			ins = ""
		}
		if isOpen {
			if take && s != w {
				list = append(list, mut{r, refi, string(s)})
			}
		} else if s != w && differs(s, r) {
			list = append(list, mut{r, refi, string(s)})
		}
		refi++
	}
	if ins != "" {
		list = append(list, mut{'-', refi, ins})
	}
	return
}

// listAdmissible: the returned list equals the model's list for some decision of the open positions
// (and one of the two readings of a protein reference X)
func listAdmissible(alpha, seq, ref string, got []align.Mutation) (ok bool, judged bool) {
	return listAdmissibleBy(alpha, seq, ref, func(l []mut) bool { return sameList(got, l) })
}

func listAdmissibleBy(alpha, seq, ref string, same func([]mut) bool) (ok bool, judged bool) {
	k := countOpen(alpha, seq, ref)
	if k > 10 {
		return true, false
	}
	open := make([]bool, k)
	for m := 0; m < 1<<uint(k); m++ {
		for b := 0; b < k; b++ {
			open[b] = m&(1<<uint(b)) != 0
		}
		for _, strict := range []bool{false, true} {
			if _, _, l := naiveMutations(alpha, seq, ref, strict, open); same(l) {
				return true, true
			}
		}
	}
	return false, true
}

// numAdmissible: the count lies inside the bounds of one of the two readings
func numAdmissible(alpha, seq, ref string, got int) (ok bool, sure int) {
	lo1, hi1, _ := naiveMutations(alpha, seq, ref, false, nil)
	lo2, hi2, _ := naiveMutations(alpha, seq, ref, true, nil)
	return (got >= lo1 && got <= hi1) || (got >= lo2 && got <= hi2), lo1
}

func sameList(got []align.Mutation, want []mut) bool {
	if len(got) != len(want) {
		return false
	}
	for i := range got {
		if got[i].Ref != want[i].Ref || got[i].Pos != want[i].Pos || string(got[i].Alt) != want[i].Alt {
			return false
		}
	}
	return true
}

func showList(l []align.Mutation) string {
	var s []string
	for _, m := range l {
		s = append(s, fmt.Sprintf("%c%d%s", m.Ref, m.Pos, string(m.Alt)))
	}
	return strings.Join(s, ",")
}

func showMuts(l []mut) string {
	var s []string
	for _, m := range l {
		s = append(s, fmt.Sprintf("%c%d%s", m.Ref, m.Pos, m.Alt))
	}
	return strings.Join(s, ",")
}

func alphaCode(alpha string) int {
	if alpha == "aa" {
		return align.AMINOACIDS
	}
	return align.NUCLEOTIDS
}

func checkReference(c refCase) (o pbt.Outcome, err error) {
	a := resolve(c.Ali, c.F)
	sizeClass(&o, c.F)
	ref := c.Ext
	if c.Ref >= 0 {
		ref = a.Rows[c.Ref].Seq
	}
	return referenceOn(buildVia(a, c.Plan, &o), a, c, align.NewSequence("ref", []uint8(ref), ""), o)
}

// referenceOn judges the comparisons of the rows of al (content a) with the reference object refSeq
func referenceOn(al align.Alignment, a gen.Ali, c refCase, refSeq align.Sequence, o pbt.Outcome) (pbt.Outcome, error) {
	n, l := len(a.Rows), a.Length()
	ref := refSeq.Sequence()
	anyIndel, anySubst, anyCompat, anyIdentSpecial, refused := false, false, false, false, false
	for i, s := range al.Sequences() {
		for rep := 0; rep < 2; rep++ {
			num, e1 := s.NumMutationsComparedToReferenceSequence(alphaCode(a.Alphabet), refSeq)
			list, e2 := s.ListMutationsComparedToReferenceSequence(alphaCode(a.Alphabet), refSeq, false)
			if len(ref) != l {
				if e1 == nil || e2 == nil {
					return o, fmt.Errorf("reference of length %d against sequences of length %d: errors %v / %v", len(ref), l, e1, e2)
				}
				continue
			}
			// '?' has no nucleotide code: an error is an admissible answer (not a crash)
			if a.Alphabet == "nt" && (strings.Contains(ref, "?") || strings.Contains(a.Rows[i].Seq, "?")) && (e1 != nil || e2 != nil) {
				if rep == 0 {
					o.Ambiguous++
					refused = true
				}
				continue
			}
			if e1 != nil || e2 != nil {
				return o, fmt.Errorf("row %d (%q) against %q: %v / %v", i, a.Rows[i].Seq, ref, e1, e2)
			}
			seq := a.Rows[i].Seq
			lo1, hi1, l1 := naiveMutations(a.Alphabet, seq, ref, false, nil)
			lo2, hi2, _ := naiveMutations(a.Alphabet, seq, ref, true, nil)
			if !(num >= lo1 && num <= hi1) && !(num >= lo2 && num <= hi2) {
				return o, fmt.Errorf("NumMutationsComparedToReferenceSequence(%q vs reference %q) = %d, counted %d (at most %d with the open pairs of special characters)", seq, ref, num, lo1, hi1)
			}
			ok, judged := listAdmissible(a.Alphabet, seq, ref, list)
			if !ok {
				return o, fmt.Errorf("ListMutationsComparedToReferenceSequence(%q vs reference %q) = [%s], definition gives [%s] (%d open pairs of special characters tried both ways)", seq, ref, showList(list), showMuts(l1), countOpen(a.Alphabet, seq, ref))
			}
			if rep == 0 {
				if !judged || lo1 != hi1 || lo1 != lo2 {
					o.Ambiguous++
				}
				for _, m := range l1 {
					if m.Ref == '-' || m.Alt == "-" {
						anyIndel = true
					} else {
						anySubst = true
					}
				}
				for k := 0; k < l; k++ {
					x, y := seq[k], ref[k]
					if a.Alphabet == "nt" && x != y && x != '-' && y != '-' && x != 'N' && !isSpecial("nt", x) && !isSpecial("nt", y) && compatible(x, y) {
						anyCompat = true
					}
					if x == y && isSpecial(a.Alphabet, x) {
						anyIdentSpecial = true
					}
				}
			}
		}
	}
	// differences with the first sequence
	for rep := 0; rep < 2; rep++ {
		alld, diffs := al.CountDifferences()
		if len(diffs) != n-1 {
			return o, fmt.Errorf("CountDifferences returns %d maps for %d sequences", len(diffs), n)
		}
		union := map[string]bool{}
		for i := 1; i < n; i++ {
			want := map[string]int{}
			for k := 0; k < l; k++ {
				if a.Rows[0].Seq[k] != a.Rows[i].Seq[k] {
					key := string([]byte{a.Rows[0].Seq[k], a.Rows[i].Seq[k]})
					want[key]++
					union[key] = true
				}
			}
			if !reflect.DeepEqual(diffs[i-1], want) {
				return o, fmt.Errorf("CountDifferences row %d (%q vs first %q) = %v, counted %v", i, a.Rows[i].Seq, a.Rows[0].Seq, diffs[i-1], want)
			}
		}
		seen := map[string]bool{}
		for _, d := range alld {
			if seen[d] || !union[d] {
				return o, fmt.Errorf("CountDifferences lists %q twice or although it never occurs: %v", d, alld)
			}
			seen[d] = true
		}
		if len(seen) != len(union) {
			return o, fmt.Errorf("CountDifferences lists %v, the differences that occur are %d", alld, len(union))
		}
	}
	if !gen.SameRows(gen.Snapshot(al), a.Rows) {
		return o, fmt.Errorf("a reference comparison modified the alignment")
	}
	o.NonTrivial = anySubst && len(ref) == l
	o.Class("alphabet=%s", a.Alphabet)
	switch {
	case len(ref) != l:
		o.Class("reference=wrong-length")
	case c.Ref == 0:
		o.Class("reference=first")
	case c.Ref > 0:
		o.Class("reference=chosen-row")
	default:
		o.Class("reference=external")
	}
	if anyIndel {
		o.Class("insertion-or-deletion")
	}
	if anyCompat {
		o.Class("iupac-compatible-pair")
	}
	if anyIdentSpecial {
		o.Class("identical-special-character-facing-the-reference")
	}
	if refused {
		o.Class("nucleotide-'?':error-accepted")
	}
	return o, nil
}

func genRefCase(t *rapid.T) refCase {
	if f := genMaybeLarge(t, false); f != nil {
		c := refCase{Ali: gen.Ali{Alphabet: f.Alphabet}, F: f}
		if rapid.Bool().Draw(t, "freffirst") {
			c.Ref = 0
		} else {
			c.Ref = rapid.IntRange(0, f.Rows-1).Draw(t, "frefrow")
		}
		return c
	}
	a, _ := genAli(t, false, 1)
	c := refCase{Ali: a}
	chars := ntIUPAC
	if a.Alphabet == "aa" {
		chars = aaUpper
	}
	// rows resembling each other: rewrite the rows as mutated copies of row 0 half of the time
	if rapid.Bool().Draw(t, "related") {
		base := a.Rows[0].Seq
		for i := 1; i < len(a.Rows); i++ {
			b := []byte(base)
			for k := range b {
				switch rapid.IntRange(0, 5).Draw(t, "edit") {
				case 0:
					b[k] = chars[rapid.IntRange(0, len(chars)-1).Draw(t, "sub")]
				case 1:
					b[k] = '-'
				}
			}
			c.Ali.Rows[i].Seq = string(b)
		}
	}
	switch rapid.IntRange(0, 5).Draw(t, "refkind") {
	case 0, 1:
		c.Ref = 0
	case 2, 3:
		c.Ref = rapid.IntRange(0, len(a.Rows)-1).Draw(t, "refrow")
	case 4:
		c.Ref = -1
		c.Ext = gen.SeqN(t, chars, a.Length())
	default:
		c.Ref = -1
		c.Ext = gen.SeqN(t, chars, rapid.SampledFrom([]int{a.Length() - 1, a.Length() + 1, 0}).Draw(t, "badlen"))
		if len(c.Ext) == a.Length() {
			c.Ext += "A"
		}
	}
	sprinkle(t, &c.Ali, &c.Ext)
	c.Plan = maybePlan(t, c.Ali)
	return c
}

func TestReference(t *testing.T) { pbt.Run(t, genRefCase, checkReference) }
