package c14

import (
	"fmt"
	"reflect"
	"sort"
	"strings"
	"testing"

	"github.com/evolbioinfo/goalign/align"
	"pgregory.net/rapid"
	"verif/internal/gen"
	"verif/internal/pbt"
)

// ---- 4. residues and gaps that are unique in their column (upper-case input) ---------------------

type uniqueCase struct {
	Ali gen.Ali `json:"ali"`
	// Profile: rows of a second alignment of the same length the profile is counted from; nil = no profile
	Profile []string `json:"profile"`
	// ByHand: build the profile with SetHeader/AppendCount from the harness's own counts instead of
	// NewCountProfileFromAlignment
	ByHand bool `json:"profile_by_hand"`
}

func buildProfile(rows []string, l int, alpha string, byHand bool) *align.CountProfile {
	if !byHand {
		pa := gen.Ali{Alphabet: alpha}
		for i, r := range rows {
			pa.Rows = append(pa.Rows, gen.Row{Name: fmt.Sprintf("p%d", i), Seq: r})
		}
		return align.NewCountProfileFromAlignment(gen.MustBuild(pa))
	}
	present := map[uint8]bool{}
	for _, r := range rows {
		for i := 0; i < len(r); i++ {
			present[r[i]] = true
		}
	}
	var header []uint8
	for k := range present {
		header = append(header, k)
	}
	sort.Slice(header, func(i, j int) bool { return header[i] < header[j] })
	p := align.NewCountProfile()
	p.SetHeader(header)
	for j := 0; j < l; j++ {
		for hi, h := range header {
			c := 0
			for _, r := range rows {
				if r[j] == h {
					c++
				}
			}
			p.AppendCount(hi, c)
		}
	}
	return p
}

func profCount(rows []string, ch byte, j int) int {
	c := 0
	for _, r := range rows {
		if r[j] == ch {
			c++
		}
	}
	return c
}

func checkUnique(c uniqueCase) (o pbt.Outcome, err error) {
	a := c.Ali
	al := gen.MustBuild(a)
	n, l := len(a.Rows), a.Length()
	w := wildOf(a.Alphabet)
	var prof *align.CountProfile
	if c.Profile != nil {
		prof = buildProfile(c.Profile, l, a.Alphabet, c.ByHand)
	}
	gu, gn, gb := make([]int, n), make([]int, n), make([]int, n)
	mu, mn, mb := make([]int, n), make([]int, n), make([]int, n)
	any := false
	for j := 0; j < l; j++ {
		cells := col(a, j)
		cnt := map[uint8]int{}
		for _, ch := range cells {
			cnt[ch]++
		}
		for i, ch := range cells {
			isNew := c.Profile != nil && profCount(c.Profile, ch, j) == 0
			if ch == '-' {
				if cnt[ch] == 1 {
					gu[i]++
					any = true
				}
				if isNew {
					gn[i]++
				}
				if cnt[ch] == 1 && isNew {
					gb[i]++
				}
				continue
			}
			if ch == w {
				continue
			}
			if cnt[ch] == 1 {
				mu[i]++
				any = true
			}
			if isNew {
				mn[i]++
			}
			if cnt[ch] == 1 && isNew {
				mb[i]++
			}
		}
	}
	for rep := 0; rep < 2; rep++ {
		u, nw, b, e := al.NumGapsUniquePerSequence(prof)
		if e != nil {
			return o, fmt.Errorf("NumGapsUniquePerSequence: %v", e)
		}
		if !reflect.DeepEqual(u, gu) || !reflect.DeepEqual(nw, gn) || !reflect.DeepEqual(b, gb) {
			return o, fmt.Errorf("NumGapsUniquePerSequence = unique %v new %v both %v, counted unique %v new %v both %v", u, nw, b, gu, gn, gb)
		}
		u, nw, b, e = al.NumMutationsUniquePerSequence(prof)
		if e != nil {
			return o, fmt.Errorf("NumMutationsUniquePerSequence: %v", e)
		}
		if !reflect.DeepEqual(u, mu) || !reflect.DeepEqual(nw, mn) || !reflect.DeepEqual(b, mb) {
			return o, fmt.Errorf("NumMutationsUniquePerSequence = unique %v new %v both %v, counted unique %v new %v both %v", u, nw, b, mu, mn, mb)
		}
	}
	if !gen.SameRows(gen.Snapshot(al), a.Rows) {
		return o, fmt.Errorf("a unique-count modified the alignment")
	}
	o.NonTrivial = any && n >= 2
	o.Class("alphabet=%s", a.Alphabet)
	switch {
	case c.Profile == nil:
		o.Class("profile=none")
	case c.ByHand:
		o.Class("profile=SetHeader/AppendCount")
	default:
		o.Class("profile=NewCountProfileFromAlignment")
	}
	return o, nil
}

func TestUnique(t *testing.T) {
	pbt.Run(t, func(t *rapid.T) uniqueCase {
		a, _ := genAli(t, false, 1)
		c := uniqueCase{Ali: a}
		if rapid.IntRange(0, 2).Draw(t, "withprofile") != 0 {
			np := rapid.IntRange(1, 5).Draw(t, "profrows")
			chars := ntUpper
			if a.Alphabet == "aa" {
				chars = aaUpper
			}
			// the profile resembles the alignment: some rows are copies
			for i := 0; i < np; i++ {
				if rapid.Bool().Draw(t, "copy") {
					c.Profile = append(c.Profile, a.Rows[rapid.IntRange(0, len(a.Rows)-1).Draw(t, "which")].Seq)
				} else {
					c.Profile = append(c.Profile, gen.SeqN(t, chars, a.Length()))
				}
			}
			c.ByHand = rapid.Bool().Draw(t, "byhand")
		}
		return c
	}, checkUnique)
}

// ---- 5. substitutions, insertions and deletions relative to a reference ----------------------------

var iupacSets = map[byte]string{
	'A': "A", 'C': "C", 'G': "G", 'T': "T",
	'R': "AG", 'Y': "CT", 'S': "CG", 'W': "AT", 'K': "GT", 'M': "AC",
	'B': "CGT", 'D': "AGT", 'H': "ACT", 'V': "ACG", 'N': "ACGT", '-': "",
}

// compatible: the two IUPAC codes share a nucleotide (a gap shares nothing, except with a gap)
func compatible(x, y byte) bool {
	if x == y {
		return true
	}
	return strings.ContainsAny(iupacSets[x], iupacSets[y]) && iupacSets[x] != "" && iupacSets[y] != ""
}

type refCase struct {
	Ali gen.Ali `json:"ali"`
	// Ref: index of the reference row, or -1: the external sequence Ext
	Ref int    `json:"ref"`
	Ext string `json:"ext"`
}

type mut struct {
	Ref byte
	Pos int
	Alt string
}

// naive model. strictX: in proteins a reference X is "unknown" and never gives a substitution
// (the statement says N/X never count; the doc comment only excludes N/X of the compared sequence):
// both readings are accepted
func naiveMutations(alpha, seq, ref string, strictX bool) (num int, list []mut) {
	w := wildOf(alpha)
	differs := func(s, r byte) bool {
		if alpha == "nt" {
			return !compatible(s, r)
		}
		if strictX && r == 'X' {
			return false
		}
		return s != r
	}
	ins := ""
	refi := 0
	for i := 0; i < len(seq); i++ {
		s, r := seq[i], ref[i]
		if s != '-' && s != w && differs(s, r) {
			num++
		}
		if r == '-' {
			if s != '-' {
				ins += string(s)
			}
			continue
		}
		if ins != "" {
			list = append(list, mut{'-', refi, ins})
			ins = ""
		}
		if s != w && differs(s, r) {
			list = append(list, mut{r, refi, string(s)})
		}
		refi++
	}
	if ins != "" {
		list = append(list, mut{'-', refi, ins})
	}
	return
}

func sameList(got []align.Mutation, want []mut) bool {
	if len(got) != len(want) {
		return false
	}
	for i := range got {
		if got[i].Ref != want[i].Ref || got[i].Pos != want[i].Pos || string(got[i].Alt) != want[i].Alt {
			return false
		}
	}
	return true
}

func showList(l []align.Mutation) string {
	var s []string
	for _, m := range l {
		s = append(s, fmt.Sprintf("%c%d%s", m.Ref, m.Pos, string(m.Alt)))
	}
	return strings.Join(s, ",")
}

func showMuts(l []mut) string {
	var s []string
	for _, m := range l {
		s = append(s, fmt.Sprintf("%c%d%s", m.Ref, m.Pos, m.Alt))
	}
	return strings.Join(s, ",")
}

func alphaCode(alpha string) int {
	if alpha == "aa" {
		return align.AMINOACIDS
	}
	return align.NUCLEOTIDS
}

func checkReference(c refCase) (o pbt.Outcome, err error) {
	a := c.Ali
	al := gen.MustBuild(a)
	n, l := len(a.Rows), a.Length()
	ref := c.Ext
	if c.Ref >= 0 {
		ref = a.Rows[c.Ref].Seq
	}
	refSeq := align.NewSequence("ref", []uint8(ref), "")
	anyIndel, anySubst, anyCompat := false, false, false
	for i, s := range al.Sequences() {
		for rep := 0; rep < 2; rep++ {
			num, e1 := s.NumMutationsComparedToReferenceSequence(alphaCode(a.Alphabet), refSeq)
			list, e2 := s.ListMutationsComparedToReferenceSequence(alphaCode(a.Alphabet), refSeq, false)
			if len(ref) != l {
				if e1 == nil || e2 == nil {
					return o, fmt.Errorf("reference of length %d against sequences of length %d: errors %v / %v", len(ref), l, e1, e2)
				}
				continue
			}
			if e1 != nil || e2 != nil {
				return o, fmt.Errorf("row %d against %q: %v / %v", i, ref, e1, e2)
			}
			n1, l1 := naiveMutations(a.Alphabet, a.Rows[i].Seq, ref, false)
			n2, l2 := naiveMutations(a.Alphabet, a.Rows[i].Seq, ref, true)
			if num != n1 && num != n2 {
				return o, fmt.Errorf("NumMutationsComparedToReferenceSequence(%q vs reference %q) = %d, counted %d", a.Rows[i].Seq, ref, num, n1)
			}
			if !sameList(list, l1) && !sameList(list, l2) {
				return o, fmt.Errorf("ListMutationsComparedToReferenceSequence(%q vs reference %q) = [%s], definition gives [%s]", a.Rows[i].Seq, ref, showList(list), showMuts(l1))
			}
			if rep == 0 {
				if n1 != n2 || !reflect.DeepEqual(l1, l2) {
					o.Ambiguous++
				}
				for _, m := range l1 {
					if m.Ref == '-' || m.Alt == "-" {
						anyIndel = true
					} else {
						anySubst = true
					}
				}
				for k := 0; k < l; k++ {
					x, y := a.Rows[i].Seq[k], ref[k]
					if a.Alphabet == "nt" && x != y && x != '-' && y != '-' && x != 'N' && compatible(x, y) {
						anyCompat = true
					}
				}
			}
		}
	}
	// differences with the first sequence
	for rep := 0; rep < 2; rep++ {
		alld, diffs := al.CountDifferences()
		if len(diffs) != n-1 {
			return o, fmt.Errorf("CountDifferences returns %d maps for %d sequences", len(diffs), n)
		}
		union := map[string]bool{}
		for i := 1; i < n; i++ {
			want := map[string]int{}
			for k := 0; k < l; k++ {
				if a.Rows[0].Seq[k] != a.Rows[i].Seq[k] {
					key := string([]byte{a.Rows[0].Seq[k], a.Rows[i].Seq[k]})
					want[key]++
					union[key] = true
				}
			}
			if !reflect.DeepEqual(diffs[i-1], want) {
				return o, fmt.Errorf("CountDifferences row %d (%q vs first %q) = %v, counted %v", i, a.Rows[i].Seq, a.Rows[0].Seq, diffs[i-1], want)
			}
		}
		seen := map[string]bool{}
		for _, d := range alld {
			if seen[d] || !union[d] {
				return o, fmt.Errorf("CountDifferences lists %q twice or although it never occurs: %v", d, alld)
			}
			seen[d] = true
		}
		if len(seen) != len(union) {
			return o, fmt.Errorf("CountDifferences lists %v, the differences that occur are %d", alld, len(union))
		}
	}
	if !gen.SameRows(gen.Snapshot(al), a.Rows) {
		return o, fmt.Errorf("a reference comparison modified the alignment")
	}
	o.NonTrivial = anySubst && len(ref) == l
	o.Class("alphabet=%s", a.Alphabet)
	switch {
	case len(ref) != l:
		o.Class("reference=wrong-length")
	case c.Ref == 0:
		o.Class("reference=first")
	case c.Ref > 0:
		o.Class("reference=chosen-row")
	default:
		o.Class("reference=external")
	}
	if anyIndel {
		o.Class("insertion-or-deletion")
	}
	if anyCompat {
		o.Class("iupac-compatible-pair")
	}
	return o, nil
}

func genRefCase(t *rapid.T) refCase {
	a, _ := genAli(t, false, 1)
	c := refCase{Ali: a}
	chars := ntIUPAC
	if a.Alphabet == "aa" {
		chars = aaUpper
	}
	// rows resembling each other: rewrite the rows as mutated copies of row 0 half of the time
	if rapid.Bool().Draw(t, "related") {
		base := a.Rows[0].Seq
		for i := 1; i < len(a.Rows); i++ {
			b := []byte(base)
			for k := range b {
				switch rapid.IntRange(0, 5).Draw(t, "edit") {
				case 0:
					b[k] = chars[rapid.IntRange(0, len(chars)-1).Draw(t, "sub")]
				case 1:
					b[k] = '-'
				}
			}
			c.Ali.Rows[i].Seq = string(b)
		}
	}
	switch rapid.IntRange(0, 5).Draw(t, "refkind") {
	case 0, 1:
		c.Ref = 0
	case 2, 3:
		c.Ref = rapid.IntRange(0, len(a.Rows)-1).Draw(t, "refrow")
	case 4:
		c.Ref = -1
		c.Ext = gen.SeqN(t, chars, a.Length())
	default:
		c.Ref = -1
		c.Ext = gen.SeqN(t, chars, rapid.SampledFrom([]int{a.Length() - 1, a.Length() + 1, 0}).Draw(t, "badlen"))
		if len(c.Ext) == a.Length() {
			c.Ext += "A"
		}
	}
	return c
}

func TestReference(t *testing.T) { pbt.Run(t, genRefCase, checkReference) }
