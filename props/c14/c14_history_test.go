package c14

import (
	"fmt"
	"math/rand"
	"testing"

	"github.com/evolbioinfo/goalign/align"
	"pgregory.net/rapid"
	"verif/internal/gen"
	"verif/internal/pbt"
)

// ---- 6. histories: compute, edit in place keeping the dimensions, compute again ------------------
//
// The statement speaks of the statistics "of the same columns" and of calling "again on the same
// alignment": a statistic must describe the CURRENT content of the objects it is given. One alignment
// object, one reference Sequence object (a row of the alignment or an external sequence) and one count
// profile (taken at the start) are kept for the whole history; after every in-place edit that keeps
// the number of rows and columns (Replace, ReplaceChar, SetSequenceChar, Mask, MaskUnique,
// ReverseComplement, a write through SequenceChar() of the reference) every statistic of C14 is
// computed again on the same objects and compared with the naive definition evaluated on the content
// the objects hold now (read back with Snapshot / Sequence()). The edits themselves are not judged
// here (other properties do that).

type edit struct {
	Op   string `json:"op"`
	Old  string `json:"old,omitempty"`
	New  string `json:"new,omitempty"`
	Row  int    `json:"row,omitempty"`
	Site int    `json:"site,omitempty"`
	Len  int    `json:"len,omitempty"`
	Mode string `json:"mode,omitempty"`
}

type histCase struct {
	Ali   gen.Ali `json:"ali"`
	Ref   int     `json:"ref"` // row whose Sequence object is the reference; -1: the external sequence Ext
	Ext   string  `json:"ext,omitempty"`
	Edits []edit  `json:"edits"`
	Seed  int64   `json:"seed"`
}

func genHistory(t *rapid.T) histCase {
	a, _ := genAli(t, false, 2)
	if rapid.IntRange(0, 3).Draw(t, "columncase") == 0 {
		a = columnCase(t, a)
	}
	c := histCase{Ali: a, Seed: rapid.Int64Range(1, 1<<30).Draw(t, "seed")}
	chars := ntIUPAC
	if a.Alphabet == "aa" {
		chars = aaUpper
	}
	n, l := len(a.Rows), a.Length()
	if rapid.IntRange(0, 3).Draw(t, "extref") == 0 {
		c.Ref = -1
		c.Ext = gen.SeqN(t, chars, l)
	} else {
		c.Ref = rapid.IntRange(0, n-1).Draw(t, "refrow")
	}
	pick := func(label string) string { return string(chars[rapid.IntRange(0, len(chars)-1).Draw(t, label)]) }
	ops := []string{"replace", "replacechar", "setchar", "mask", "writethrough", "maskunique", "revcomp"}
	for k := rapid.IntRange(1, 3).Draw(t, "nedits"); k > 0; k-- {
		e := edit{Op: rapid.SampledFrom(ops).Draw(t, "op")}
		if e.Op == "revcomp" && a.Alphabet != "nt" {
			e.Op = "replace"
		}
		switch e.Op {
		case "replace":
			// a character that occurs (often one of the reference row) becomes another one
			r := a.Rows[rapid.IntRange(0, n-1).Draw(t, "fromrow")].Seq
			if c.Ref >= 0 && rapid.Bool().Draw(t, "fromref") {
				r = a.Rows[c.Ref].Seq
			}
			e.Old = string(r[rapid.IntRange(0, l-1).Draw(t, "fromsite")])
			e.New = pick("new")
		case "replacechar", "setchar":
			e.Row = rapid.IntRange(0, n-1).Draw(t, "row")
			if c.Ref >= 0 && rapid.Bool().Draw(t, "onref") {
				e.Row = c.Ref
			}
			e.Site = rapid.IntRange(0, l-1).Draw(t, "site")
			e.New = pick("new")
		case "writethrough":
			e.Site = rapid.IntRange(0, l-1).Draw(t, "site")
			e.New = pick("new")
		case "mask":
			e.Site = rapid.IntRange(0, l-1).Draw(t, "start")
			e.Len = rapid.IntRange(1, l-e.Site).Draw(t, "len")
			e.Mode = rapid.SampledFrom([]string{"AMBIG", "GAP", "MAJ"}).Draw(t, "mode")
		}
		c.Edits = append(c.Edits, e)
	}
	return c
}

func applyEdit(al align.Alignment, refObj align.Sequence, e edit) {
	switch e.Op {
	case "replace":
		al.Replace(e.Old, e.New, false)
	case "replacechar":
		name, _ := al.GetSequenceNameById(e.Row)
		al.ReplaceChar(name, e.Site, e.New[0])
	case "setchar":
		al.SetSequenceChar(e.Row, e.Site, e.New[0])
	case "writethrough":
		refObj.SequenceChar()[e.Site] = e.New[0]
	case "mask":
		al.Mask("", e.Site, e.Len, e.Mode, false, false)
	case "maskunique":
		al.MaskUnique("", "AMBIG")
	case "revcomp":
		al.ReverseComplement()
	}
}

func checkHistory(c histCase) (o pbt.Outcome, err error) {
	rand.Seed(c.Seed)
	al := gen.MustBuild(c.Ali)
	var refObj align.Sequence
	if c.Ref >= 0 {
		refObj = al.Sequences()[c.Ref]
	} else {
		refObj = align.NewSequence("ref", []uint8(c.Ext), "")
	}
	// the profile is taken once, at the start: it keeps describing the initial content
	var initial []string
	for _, r := range c.Ali.Rows {
		initial = append(initial, r.Seq)
	}
	prof := align.NewCountProfileFromAlignment(al)
	changed := false
	for stage := 0; stage <= len(c.Edits); stage++ {
		if stage > 0 {
			before := gen.Snapshot(al)
			refBefore := refObj.Sequence()
			applyEdit(al, refObj, c.Edits[stage-1])
			if !gen.SameRows(before, gen.Snapshot(al)) || refBefore != refObj.Sequence() {
				changed = true
				if refBefore != refObj.Sequence() {
					o.Class("reference-object-edited")
				}
			}
		}
		a := gen.Ali{Alphabet: c.Ali.Alphabet, Rows: gen.Snapshot(al)}
		if len(a.Rows) != len(c.Ali.Rows) || a.Length() != c.Ali.Length() || len(refObj.Sequence()) != a.Length() {
			// the edit did not keep the dimensions: outside this check
			o.Skip = true
			return o, nil
		}
		wrap := func(what string, e error) error {
			what = fmt.Sprintf("after %d in-place edit(s) %+v, %s", stage, c.Edits[:stage], what)
			return fmt.Errorf("%s: %v\n content now: %s reference object now: %q", what, e, gen.Show(a.Rows), refObj.Sequence())
		}
		var e error
		if o, e = countsOn(al, a, o); e != nil {
			return o, wrap("character counts", e)
		}
		if o, e = majorityOn(al, a, 3, o); e != nil {
			return o, wrap("majority", e)
		}
		if columnCaseOK(a) {
			if o, e = siteMeasuresOn(al, a, siteCase{Ali: a, Pseudo: 0.5, Norm: align.PSSM_NORM_FREQ}, o); e != nil {
				return o, wrap("site measures", e)
			}
		}
		if !isMixed(a) {
			if o, e = uniqueOn(al, a, uniqueCase{Ali: a, Profile: initial}, prof, o); e != nil {
				return o, wrap("unique counters (profile taken at the start)", e)
			}
			rc := refCase{Ali: a, Ref: c.Ref}
			if o, e = referenceOn(al, a, rc, refObj, o); e != nil {
				return o, wrap("comparison with the reference object", e)
			}
		}
	}
	o.NonTrivial = changed
	o.Classes = dedup(o.Classes)
	for _, e := range c.Edits {
		o.Class("edit=%s", e.Op)
	}
	return o, nil
}

func dedup(l []string) []string {
	seen := map[string]bool{}
	var out []string
	for _, x := range l {
		if !seen[x] {
			seen[x] = true
			out = append(out, x)
		}
	}
	return out
}

func TestHistory(t *testing.T) { pbt.Run(t, genHistory, checkHistory) }
