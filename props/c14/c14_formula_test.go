package c14

import (
	"fmt"
	"strings"
	"testing"

	"github.com/evolbioinfo/goalign/align"
	"pgregory.net/rapid"
	"verif/internal/gen"
	"verif/internal/pbt"
)

// ---- large alignments described by a formula (the stored case stays small) -----------------------
//
// TALL: 258-700 rows x 1-4 columns; a column is a sequence of runs of identical cells (run lengths
// around the byte boundaries 255..258, 512..514), rotated. Exercises per-site counters.
// LONG: 1-6 rows x 300-3000 columns: a short list of explicit columns repeated cyclically.

type frun struct {
	Ch string `json:"c"`
	N  int    `json:"n"`
}

type fcol struct {
	S    string `json:"s,omitempty"`    // explicit cells (long alignments)
	Runs []frun `json:"runs,omitempty"` // tall alignments: runs in order, the last one extended to the number of rows
	Rot  int    `json:"rot,omitempty"`  // the column is rotated by Rot cells
}

type formula struct {
	Alphabet string `json:"alphabet"`
	Rows     int    `json:"rows"`
	Cols     []fcol `json:"cols"`
	Repeat   int    `json:"repeat"` // the columns are repeated cyclically: L = len(Cols)*Repeat
	Kind     string `json:"kind"`   // "tall" | "long"
}

func (f formula) column(k int) string {
	c := f.Cols[k]
	if c.S != "" {
		return c.S
	}
	b := make([]byte, 0, f.Rows)
	for _, r := range c.Runs {
		for i := 0; i < r.N && len(b) < f.Rows; i++ {
			b = append(b, r.Ch[0])
		}
	}
	last := c.Runs[len(c.Runs)-1].Ch[0]
	for len(b) < f.Rows {
		b = append(b, last)
	}
	rot := c.Rot % f.Rows
	return string(b[rot:]) + string(b[:rot])
}

func (f formula) expand() gen.Ali {
	cols := make([]string, len(f.Cols))
	for k := range cols {
		cols[k] = f.column(k)
	}
	l := len(cols) * f.Repeat
	a := gen.Ali{Alphabet: f.Alphabet}
	for i := 0; i < f.Rows; i++ {
		b := make([]byte, l)
		for j := 0; j < l; j++ {
			b[j] = cols[j%len(cols)][i]
		}
		a.Rows = append(a.Rows, gen.Row{Name: fmt.Sprintf("s%d", i), Seq: string(b)})
	}
	return a
}

// resolve returns the alignment of a case: the explicit one, or the expansion of its formula
func resolve(a gen.Ali, f *formula) gen.Ali {
	if f != nil {
		return f.expand()
	}
	return a
}

func sizeClass(o *pbt.Outcome, f *formula) {
	if f != nil {
		o.Class("size=%s", f.Kind)
	}
}

// genFormula draws a tall or a long alignment
func genFormula(t *rapid.T, allowMixed bool) formula {
	f := formula{Alphabet: rapid.SampledFrom([]string{"nt", "aa"}).Draw(t, "falphabet"), Repeat: 1}
	mixed := allowMixed && rapid.Bool().Draw(t, "fmixed")
	chars := ntUpper
	switch {
	case f.Alphabet == "nt" && mixed:
		chars = ntMixed
	case f.Alphabet == "aa" && mixed:
		chars = aaMixed
	case f.Alphabet == "aa":
		chars = aaUpper
	}
	pick := func(label string) string { return string(chars[rapid.IntRange(0, len(chars)-1).Draw(t, label)]) }
	if rapid.Bool().Draw(t, "tall") {
		f.Kind = "tall"
		f.Rows = rapid.SampledFrom([]int{258, 259, 300, 512, 513, 514, 515, 700, 0}).Draw(t, "frows")
		if f.Rows == 0 {
			f.Rows = rapid.IntRange(258, 700).Draw(t, "frowsany")
		}
		nc := rapid.IntRange(1, 4).Draw(t, "fcols")
		for k := 0; k < nc; k++ {
			var c fcol
			nr := rapid.IntRange(1, 4).Draw(t, "nruns")
			for r := 0; r < nr; r++ {
				n := rapid.SampledFrom([]int{1, 2, 255, 256, 257, 258, 254, 3, f.Rows / 2, f.Rows - 1, f.Rows - 2, 0}).Draw(t, "runlen")
				if n <= 0 {
					n = rapid.IntRange(1, f.Rows).Draw(t, "runany")
				}
				c.Runs = append(c.Runs, frun{pick("runchar"), n})
			}
			c.Rot = rapid.IntRange(0, f.Rows-1).Draw(t, "rot")
			f.Cols = append(f.Cols, c)
		}
		return f
	}
	f.Kind = "long"
	f.Rows = rapid.IntRange(1, 6).Draw(t, "lrows")
	nc := rapid.IntRange(3, 12).Draw(t, "lcols")
	for k := 0; k < nc; k++ {
		f.Cols = append(f.Cols, fcol{S: genColumn(t, chars, f.Alphabet, f.Rows, mixed)})
	}
	lo, hi := (300+nc-1)/nc, 3000/nc
	f.Repeat = rapid.IntRange(lo, hi).Draw(t, "repeat")
	return f
}

// large: about one case in thirty is a tall or long alignment (an interior value of the range:
// rapid favours the bounds)
func genMaybeLarge(t *rapid.T, allowMixed bool) *formula {
	if rapid.IntRange(0, 29).Draw(t, "large") != 13 {
		return nil
	}
	f := genFormula(t, allowMixed)
	return &f
}

// ---- every letter folds: exhaustive over the 26 letters x both alphabets -------------------------------

type foldCase struct {
	Alphabet string `json:"alphabet"`
	Letter   string `json:"letter"`
}

func TestFoldEveryLetter(t *testing.T) {
	pbt.Enumerate(t, "case folding of each of the 26 letters (protein) and each IUPAC letter (nucleotide) in CharStats, CharStatsSeq, CharStatsSite, MaxCharStats, Consensus", func(yield func(foldCase) bool) {
		for _, alpha := range []string{"aa", "nt"} {
			letters := "ABCDEFGHIJKLMNOPQRSTUVWXYZ"
			if alpha == "nt" {
				letters = strings.TrimSuffix(ntIUPAC, "-")
			}
			for i := 0; i < len(letters); i++ {
				if !yield(foldCase{alpha, string(letters[i])}) {
					return
				}
			}
		}
	}, func(c foldCase) (o pbt.Outcome, err error) {
		up := c.Letter
		lo := strings.ToLower(up)
		other := "A"
		if up == "A" {
			other = "C"
		}
		// three columns: majority only after folding / tie broken only by folding / all lower case
		a := gen.Ali{Alphabet: c.Alphabet, Rows: []gen.Row{
			{Name: "s0", Seq: lo + other + lo},
			{Name: "s1", Seq: up + other + lo},
			{Name: "s2", Seq: lo + lo + lo},
			{Name: "s3", Seq: other + up + lo},
			{Name: "s4", Seq: other + lo + lo},
		}}
		if _, e := checkCounts(countCase{Ali: a}); e != nil {
			return o, e
		}
		if _, e := checkMajority(majCase{Ali: a}); e != nil {
			return o, e
		}
		o.NonTrivial = true
		o.Key = c.Alphabet + c.Letter
		o.Class("alphabet=%s", c.Alphabet)
		return o, nil
	})
}

// ---- provenance: the object a statistic is computed on was cloned, renamed, cut, cleaned, re-parsed ----

// maybePlan draws, for about a third of the cases, a chain of public operations ending on the content
func maybePlan(t *rapid.T, a gen.Ali) *gen.Plan {
	if rapid.IntRange(0, 2).Draw(t, "provenance") != 1 {
		return nil
	}
	junk := "ACGTN-"
	if a.Alphabet == "aa" {
		junk = "ARNDLKX-"
	}
	p := gen.DrawPlan(t, a, junk, 3)
	return &p
}

// buildVia builds the alignment of a case: freshly, or through its plan
func buildVia(a gen.Ali, p *gen.Plan, o *pbt.Outcome) align.Alignment {
	if p == nil || len(p.Steps) == 0 {
		return gen.MustBuild(a)
	}
	al, usable := gen.BuildVia(a, *p)
	if !usable {
		o.Class("provenance-unusable")
		return gen.MustBuild(a)
	}
	for _, k := range p.Kinds() {
		o.Class("provenance:%s", k)
	}
	return al
}
