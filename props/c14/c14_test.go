// C14 - Column statistics and consensus match definitions and are deterministic
package c14

import (
	"fmt"
	"io"
	"log"
	"math"
	"reflect"
	"sort"
	"strings"
	"testing"

	"github.com/evolbioinfo/goalign/align"
	"pgregory.net/rapid"
	"verif/internal/gen"
	"verif/internal/pbt"
)

func TestMain(m *testing.M) {
	log.SetOutput(io.Discard)
	pbt.Main(m, "C14")
}

// ---- generation: column-wise, with forced ties, all-gap and all-wildcard columns ----------------

const (
	ntUpper = "ACGTN-"
	ntIUPAC = "ACGTRYSWKMBDHVN-"
	ntMixed = "ACGTNacgtn-"
	aaUpper = "ARNDLKX-"
	aaMixed = "ARNDLKXarndlkx-"
	// complete letter sets: every one of the 26 letters (B, Z, J, U, O too) resp. every IUPAC code, in
	// both cases for the statistics that fold case
	aaFullUpper = "ABCDEFGHIJKLMNOPQRSTUVWXYZ-"
	aaFullMixed = "ABCDEFGHIJKLMNOPQRSTUVWXYZabcdefghijklmnopqrstuvwxyz-"
	ntFullMixed = "ACGTRYSWKMBDHVNacgtryswkmbdhvn-"
)

func wildOf(alpha string) byte {
	if alpha == "aa" {
		return 'X'
	}
	return 'N'
}

func fold(ch byte) byte {
	if ch >= 'a' && ch <= 'z' {
		return ch - 32
	}
	return ch
}

// genColumn draws one column of n cells
func genColumn(t *rapid.T, chars string, alpha string, n int, mixed bool) string {
	pick := func(label string) byte { return chars[rapid.IntRange(0, len(chars)-1).Draw(t, label)] }
	residues := strings.ReplaceAll(strings.ReplaceAll(strings.ReplaceAll(chars, "-", ""), string(wildOf(alpha)), ""), strings.ToLower(string(wildOf(alpha))), "")
	res := func(label string) byte { return residues[rapid.IntRange(0, len(residues)-1).Draw(t, label)] }
	b := make([]byte, n)
	w := wildOf(alpha)
	switch rapid.IntRange(0, 11).Draw(t, "colkind") {
	case 0: // constant
		c := pick("const")
		for i := range b {
			b[i] = c
		}
	case 1: // all gaps
		for i := range b {
			b[i] = '-'
		}
	case 2: // all wildcard
		for i := range b {
			b[i] = w
			if mixed && rapid.Bool().Draw(t, "wl") {
				b[i] = w + 32
			}
		}
	case 3: // only gaps and wildcards
		for i := range b {
			if rapid.Bool().Draw(t, "gw") {
				b[i] = '-'
			} else {
				b[i] = w
			}
		}
	case 4, 5: // k-way exact tie among residues (plus possibly excluded symbols), shuffled
		k := rapid.IntRange(2, 4).Draw(t, "kway")
		if k > n {
			k = n
		}
		if k < 1 {
			k = 1
		}
		var cs []byte
		for len(cs) < k {
			c := res("tiechar")
			dup := false
			for _, x := range cs {
				if fold(x) == fold(c) {
					dup = true
				}
			}
			if !dup || len(residues) < 2*k {
				cs = append(cs, c)
			}
		}
		per := n / k
		pos := 0
		for _, c := range cs {
			for j := 0; j < per; j++ {
				b[pos] = c
				if mixed && fold(c) >= 'A' && fold(c) <= 'Z' && rapid.Bool().Draw(t, "tl") {
					b[pos] = fold(c) + 32
				}
				pos++
			}
		}
		for ; pos < n; pos++ {
			if rapid.Bool().Draw(t, "fillgap") {
				b[pos] = '-'
			} else {
				b[pos] = w
			}
		}
		p := gen.Perm(t, n, "shuffle")
		c := make([]byte, n)
		for i, j := range p {
			c[i] = b[j]
		}
		b = c
	case 6: // two characters
		x, y := pick("two1"), pick("two2")
		for i := range b {
			if rapid.Bool().Draw(t, "xy") {
				b[i] = x
			} else {
				b[i] = y
			}
		}
	case 7: // one singleton among a constant background
		bg, s := pick("bg"), pick("single")
		for i := range b {
			b[i] = bg
		}
		b[rapid.IntRange(0, n-1).Draw(t, "where")] = s
	default:
		for i := range b {
			b[i] = pick("c")
		}
	}
	return string(b)
}

// genAli draws an alignment: alphabet, case mode, 1-8 rows, 1-12 columns
func genAli(t *rapid.T, allowMixed bool, minRows int) (a gen.Ali, mixed bool) {
	alpha := rapid.SampledFrom([]string{"nt", "aa"}).Draw(t, "alphabet")
	mixed = allowMixed && rapid.Bool().Draw(t, "mixed")
	full := rapid.IntRange(0, 2).Draw(t, "fullset") == 0
	chars := ntUpper
	switch {
	case alpha == "nt" && mixed && full:
		chars = ntFullMixed
	case alpha == "nt" && mixed:
		chars = ntMixed
	case alpha == "nt" && (full || rapid.IntRange(0, 3).Draw(t, "iupac") == 0):
		chars = ntIUPAC
	case alpha == "aa" && mixed && full:
		chars = aaFullMixed
	case alpha == "aa" && mixed:
		chars = aaMixed
	case alpha == "aa" && full:
		chars = aaFullUpper
	case alpha == "aa":
		chars = aaUpper
	}
	n := rapid.IntRange(minRows, 8).Draw(t, "rows")
	l := rapid.IntRange(1, 12).Draw(t, "L")
	cols := make([]string, l)
	for j := range cols {
		cols[j] = genColumn(t, chars, alpha, n, mixed)
	}
	a = gen.Ali{Alphabet: alpha}
	for i := 0; i < n; i++ {
		b := make([]byte, l)
		for j := range cols {
			b[j] = cols[j][i]
		}
		a.Rows = append(a.Rows, gen.Row{Name: fmt.Sprintf("s%d", i), Seq: string(b)})
	}
	return a, mixed
}

// columnCase returns the alignment a with, column by column, a drawn subset of the letters written in
// lower case: inside one column a letter occurs in ONE case only, across columns the case of a letter
// differs. On such input the case-folded and the byte-wise reading of every per-column statistic
// (entropy, variable and informative sites, alleles, PSSM counts) give the same answer, so the naive
// per-column definition judges them whatever the function's stand on case is. N and X (the wildcard
// of one alphabet, the open letter of the other) stay in upper case: the doc comments name them in
// upper case only.
func columnCase(t *rapid.T, a gen.Ali) gen.Ali {
	n, l := len(a.Rows), a.Length()
	rows := make([][]byte, n)
	for i := range rows {
		rows[i] = []byte(a.Rows[i].Seq)
	}
	for j := 0; j < l; j++ {
		lower := map[byte]bool{}
		switch rapid.IntRange(0, 3).Draw(t, "colcase") {
		case 0: // upper case column
			continue
		case 1: // lower case column
			for i := 0; i < n; i++ {
				lower[rows[i][j]] = true
			}
		default: // letter by letter, in order of first occurrence
			for i := 0; i < n; i++ {
				if _, seen := lower[rows[i][j]]; !seen {
					lower[rows[i][j]] = rapid.Bool().Draw(t, "lowerletter")
				}
			}
		}
		for i := 0; i < n; i++ {
			if ch := rows[i][j]; lower[ch] && ch >= 'A' && ch <= 'Z' && ch != 'N' && ch != 'X' {
				rows[i][j] = ch + 32
			}
		}
	}
	out := gen.Ali{Alphabet: a.Alphabet}
	for i, r := range a.Rows {
		out.Rows = append(out.Rows, gen.Row{Name: r.Name, Seq: string(rows[i])})
	}
	return out
}

// columnCaseOK: every letter occurs in one case only inside each column, and n / x do not occur: the
// domain on which the site measures are judged on input that is not all upper case
func columnCaseOK(a gen.Ali) bool {
	for j := 0; j < a.Length(); j++ {
		seen := map[byte]bool{}
		for _, ch := range col(a, j) {
			if ch == 'n' || ch == 'x' {
				return false
			}
			seen[ch] = true
		}
		for ch := range seen {
			if ch >= 'a' && ch <= 'z' && seen[ch-32] {
				return false
			}
		}
	}
	return true
}

func isMixed(a gen.Ali) bool {
	for _, r := range a.Rows {
		if strings.ToUpper(r.Seq) != r.Seq {
			return true
		}
	}
	return false
}

func col(a gen.Ali, j int) []byte {
	b := make([]byte, len(a.Rows))
	for i, r := range a.Rows {
		b[i] = r.Seq[j]
	}
	return b
}

func eqF(a, b, tol float64) bool {
	if math.IsNaN(a) || math.IsNaN(b) {
		return math.IsNaN(a) && math.IsNaN(b)
	}
	if math.IsInf(a, 0) || math.IsInf(b, 0) {
		return a == b
	}
	return math.Abs(a-b) <= tol*math.Max(1, math.Abs(b))
}

// ---- 1. character counts ------------------------------------------------------------------------

type countCase struct {
	Ali  gen.Ali   `json:"ali"`
	F    *formula  `json:"formula,omitempty"` // a tall or long alignment given by formula instead of Ali
	Plan *gen.Plan `json:"plan,omitempty"`    // the object is obtained through this chain of operations (gen.BuildVia)
}

func naiveCounts(cells []byte) map[uint8]int {
	m := map[uint8]int{}
	for _, c := range cells {
		m[fold(c)]++
	}
	return m
}

func checkCounts(c countCase) (o pbt.Outcome, err error) {
	a := resolve(c.Ali, c.F)
	sizeClass(&o, c.F)
	return countsOn(buildVia(a, c.Plan, &o), a, o)
}

// countsOn judges the character counts of the alignment object al, whose content is a
func countsOn(al align.Alignment, a gen.Ali, o pbt.Outcome) (pbt.Outcome, error) {
	n, l := len(a.Rows), a.Length()
	mixed := isMixed(a)
	// whole alignment
	var all []byte
	for _, r := range a.Rows {
		all = append(all, r.Seq...)
	}
	want := naiveCounts(all)
	for rep := 0; rep < 2; rep++ {
		got := al.CharStats()
		if len(got) != len(want) {
			return o, fmt.Errorf("CharStats has %d entries, the alignment holds %d distinct case-folded characters: %v", len(got), len(want), got)
		}
		for k, v := range want {
			if got[k] != int64(v) {
				return o, fmt.Errorf("CharStats[%q] = %d, counted %d", k, got[k], v)
			}
		}
	}
	// per sequence, indices -1..n
	for i := -1; i <= n; i++ {
		got, e := al.CharStatsSeq(i)
		if i < 0 || i >= n {
			if e == nil {
				return o, fmt.Errorf("CharStatsSeq(%d) on %d sequences returns no error", i, n)
			}
			continue
		}
		if e != nil {
			return o, fmt.Errorf("CharStatsSeq(%d): %v", i, e)
		}
		if w := naiveCounts([]byte(a.Rows[i].Seq)); !reflect.DeepEqual(got, w) {
			return o, fmt.Errorf("CharStatsSeq(%d) = %v, counted %v", i, got, w)
		}
		again, _ := al.CharStatsSeq(i)
		if !reflect.DeepEqual(got, again) {
			return o, fmt.Errorf("CharStatsSeq(%d) differs between two calls", i)
		}
	}
	// per site, indices -1..L
	multi := false
	for j := -1; j <= l; j++ {
		got, e := al.CharStatsSite(j)
		if j < 0 || j >= l {
			if e == nil {
				return o, fmt.Errorf("CharStatsSite(%d) on length %d returns no error", j, l)
			}
			continue
		}
		if e != nil {
			return o, fmt.Errorf("CharStatsSite(%d): %v", j, e)
		}
		w := naiveCounts(col(a, j))
		if !reflect.DeepEqual(got, w) {
			return o, fmt.Errorf("CharStatsSite(%d) = %v, counted %v", j, got, w)
		}
		again, _ := al.CharStatsSite(j)
		if !reflect.DeepEqual(got, again) {
			return o, fmt.Errorf("CharStatsSite(%d) differs between two calls", j)
		}
		if len(w) >= 2 {
			multi = true
		}
	}
	// variable sites on any case: the documentation ("does not take into account gaps and other
	// characters like '.'") is silent on case and on N/X: the number lies between the strictest reading
	// (case folded, wildcard not a character) and the widest one (distinct bytes, wildcard a character)
	{
		wl := wildOf(a.Alphabet)
		lo, hi := 0, 0
		for j := 0; j < l; j++ {
			bytesSeen, foldedNoW := map[uint8]bool{}, map[uint8]bool{}
			for _, ch := range col(a, j) {
				if ch == '-' || ch == '.' || ch == '*' {
					continue
				}
				bytesSeen[ch] = true
				if fold(ch) != wl {
					foldedNoW[fold(ch)] = true
				}
			}
			if len(foldedNoW) > 1 {
				lo++
			}
			if len(bytesSeen) > 1 {
				hi++
			}
		}
		if nv := al.NbVariableSites(); nv < lo || nv > hi || nv != al.NbVariableSites() {
			return o, fmt.Errorf("NbVariableSites = %d, between %d (case folded, N/X no character) and %d (distinct bytes) expected", nv, lo, hi)
		}
		if lo != hi {
			o.Ambiguous++
		}
	}
	// count profile: the code is case sensitive, the statement says case-folded: asserted on
	// upper-case input only, where both agree
	p := align.NewCountProfileFromAlignment(al)
	if !mixed {
		if p.NbCharacters() != len(want) {
			return o, fmt.Errorf("count profile holds %d characters, the alignment %d", p.NbCharacters(), len(want))
		}
		seen := map[uint8]bool{}
		for idx := 0; idx < p.NbCharacters(); idx++ {
			r, e := p.NameAt(idx)
			if e != nil {
				return o, fmt.Errorf("profile NameAt(%d): %v", idx, e)
			}
			if seen[r] || want[r] == 0 {
				return o, fmt.Errorf("profile header holds %q twice or although absent", r)
			}
			seen[r] = true
			if ni, ok := p.NameIndex(r); !ok || ni != idx {
				return o, fmt.Errorf("profile NameIndex(%q) = %d,%v, NameAt(%d) = %q", r, ni, ok, idx, r)
			}
		}
		for j := -1; j <= l; j++ {
			for k := range want {
				got, e := p.Count(k, j)
				if j < 0 || j >= l {
					if e == nil {
						return o, fmt.Errorf("profile Count(%q, %d) on length %d returns no error", k, j, l)
					}
					continue
				}
				if w := naiveCounts(col(a, j))[k]; e != nil || got != w {
					return o, fmt.Errorf("profile Count(%q, %d) = %d,%v, counted %d", k, j, got, e, w)
				}
				idx, _ := p.NameIndex(k)
				if g2, e2 := p.CountAt(idx, j); e2 != nil || g2 != got {
					return o, fmt.Errorf("profile CountAt(%d, %d) = %d,%v, Count = %d", idx, j, g2, e2, got)
				}
			}
		}
		if !p.CheckLength(l) || (p.NbCharacters() > 0 && p.CheckLength(l+1)) {
			return o, fmt.Errorf("profile CheckLength wrong for length %d", l)
		}
		o.Class("profile:asserted")
	} else {
		o.Class("profile:mixed-case-not-asserted")
	}
	o.NonTrivial = multi
	o.Class("alphabet=%s", a.Alphabet)
	o.Class("mixed-case=%v", mixed)
	return o, nil
}

func TestCounts(t *testing.T) {
	pbt.Run(t, func(t *rapid.T) countCase {
		if f := genMaybeLarge(t, true); f != nil {
			return countCase{Ali: gen.Ali{Alphabet: f.Alphabet}, F: f}
		}
		a, _ := genAli(t, true, 1)
		return countCase{Ali: a, Plan: maybePlan(t, a)}
	}, checkCounts)
}

// ---- 2. majority / consensus -----------------------------------------------------------------------

type majCase struct {
	Ali  gen.Ali   `json:"ali"`
	F    *formula  `json:"formula,omitempty"`
	Plan *gen.Plan `json:"plan,omitempty"` // the object is obtained through this chain of operations (gen.BuildVia)
}

// majoritySite: the reference decision for one column
type majSite struct {
	valid    map[uint8]bool // admissible answers (case folded)
	occur    []int          // admissible values of occur
	total    []int          // admissible values of total
	tie      bool
	fallback bool
	open     bool // fallback with two kinds present: nothing fixes occur
}

func majoritySite(cells []byte, alpha string, ignoreGaps, ignoreN bool) majSite {
	w := wildOf(alpha)
	counts := map[uint8]int{}
	present := map[uint8]int{}
	total := 0
	for _, c := range cells {
		f := fold(c)
		present[f]++
		if (ignoreGaps && f == '-') || (ignoreN && f == w) {
			continue
		}
		counts[f]++
		total++
	}
	s := majSite{valid: map[uint8]bool{}}
	if total > 0 {
		max := 0
		for _, v := range counts {
			if v > max {
				max = v
			}
		}
		for k, v := range counts {
			if v == max {
				s.valid[k] = true
			}
		}
		s.occur = []int{max}
		s.total = []int{total}
		s.tie = len(s.valid) > 1
		return s
	}
	// every cell excluded: "except if only gaps / only Ns": fall back to what is present
	s.fallback = true
	for k := range present {
		s.valid[k] = true
	}
	s.total = []int{0, len(cells)}
	if len(present) == 1 {
		s.occur = []int{len(cells)}
	} else {
		s.open = true
	}
	return s
}

func inInts(l []int, v int) bool {
	for _, x := range l {
		if x == v {
			return true
		}
	}
	return false
}

func checkMajority(c majCase) (o pbt.Outcome, err error) {
	a := resolve(c.Ali, c.F)
	sizeClass(&o, c.F)
	reps := 30 // further calls that must return the same; fewer on the tall and long alignments
	if c.F != nil {
		reps = 6
	}
	return majorityOn(buildVia(a, c.Plan, &o), a, reps, o)
}

func majorityOn(al align.Alignment, a gen.Ali, reps int, o pbt.Outcome) (pbt.Outcome, error) {
	l := a.Length()
	anyTie, anyFallback := false, false
	for m := 0; m < 4; m++ {
		ig, in := m&1 != 0, m&2 != 0
		out, occur, total := al.MaxCharStats(ig, in)
		if len(out) != l || len(occur) != l || len(total) != l {
			return o, fmt.Errorf("MaxCharStats(%v,%v) returns slices of length %d,%d,%d for %d sites", ig, in, len(out), len(occur), len(total), l)
		}
		for j := 0; j < l; j++ {
			s := majoritySite(col(a, j), a.Alphabet, ig, in)
			if !s.valid[fold(out[j])] {
				return o, fmt.Errorf("MaxCharStats(ignoreGaps=%v, ignoreNs=%v) site %d (%q): %q is not a most frequent character among those counted (admissible: %s)", ig, in, j, col(a, j), out[j], keys(s.valid))
			}
			if s.open {
				o.Ambiguous++
			} else {
				if !inInts(s.occur, occur[j]) {
					return o, fmt.Errorf("MaxCharStats(ignoreGaps=%v, ignoreNs=%v) site %d (%q): occur = %d, counted %v", ig, in, j, col(a, j), occur[j], s.occur)
				}
				if !inInts(s.total, total[j]) {
					return o, fmt.Errorf("MaxCharStats(ignoreGaps=%v, ignoreNs=%v) site %d (%q): total = %d, counted %v", ig, in, j, col(a, j), total[j], s.total)
				}
			}
			if s.fallback {
				anyFallback = true
				if len(s.total) > 1 {
					o.Ambiguous++
				}
			}
			if s.tie {
				anyTie = true
			}
		}
		// the same answer on 30 calls
		for rep := 0; rep < reps; rep++ {
			o2, c2, t2 := al.MaxCharStats(ig, in)
			if string(o2) != string(out) || !reflect.DeepEqual(c2, occur) || !reflect.DeepEqual(t2, total) {
				return o, fmt.Errorf("MaxCharStats(ignoreGaps=%v, ignoreNs=%v) call %d returns %q %v %v, the first call returned %q %v %v", ig, in, rep+2, o2, c2, t2, out, occur, total)
			}
		}
		// consensus
		cons := al.Consensus(ig, in)
		if cons.NbSequences() != 1 || cons.Length() != l {
			return o, fmt.Errorf("Consensus(%v,%v): %d sequences of length %d for an alignment of length %d", ig, in, cons.NbSequences(), cons.Length(), l)
		}
		cs, _ := cons.GetSequenceById(0)
		for j := 0; j < l; j++ {
			s := majoritySite(col(a, j), a.Alphabet, ig, in)
			if !s.valid[fold(cs[j])] {
				return o, fmt.Errorf("Consensus(excludeGaps=%v, excludeNs=%v) site %d (%q): %q is not a most frequent character (admissible: %s)", ig, in, j, col(a, j), cs[j], keys(s.valid))
			}
		}
		if cons.Alphabet() != al.Alphabet() {
			return o, fmt.Errorf("Consensus alphabet %d differs from the alignment's %d", cons.Alphabet(), al.Alphabet())
		}
		for rep := 0; rep < reps; rep++ {
			c2 := al.Consensus(ig, in)
			s2, _ := c2.GetSequenceById(0)
			if s2 != cs {
				return o, fmt.Errorf("Consensus(excludeGaps=%v, excludeNs=%v) call %d returns %q, the first call returned %q", ig, in, rep+2, s2, cs)
			}
		}
	}
	// the input is not modified
	if !gen.SameRows(gen.Snapshot(al), a.Rows) {
		return o, fmt.Errorf("MaxCharStats/Consensus modified the alignment")
	}
	o.NonTrivial = anyTie
	o.Class("alphabet=%s", a.Alphabet)
	o.Class("mixed-case=%v", isMixed(a))
	if anyTie {
		o.Class("tie-for-the-maximum")
	}
	if anyFallback {
		o.Class("excluded-only-column")
	}
	return o, nil
}

func keys(m map[uint8]bool) string {
	var l []string
	for k := range m {
		l = append(l, string(k))
	}
	sort.Strings(l)
	return strings.Join(l, ",")
}

func TestMajority(t *testing.T) {
	pbt.Run(t, func(t *rapid.T) majCase {
		if f := genMaybeLarge(t, true); f != nil {
			return majCase{Ali: gen.Ali{Alphabet: f.Alphabet}, F: f}
		}
		a, _ := genAli(t, true, 1)
		return majCase{Ali: a, Plan: maybePlan(t, a)}
	}, checkMajority)
}

// ---- 3. site measures (upper-case input, and input whose letters keep one case inside each column) ----

type siteCase struct {
	Ali    gen.Ali   `json:"ali"`
	F      *formula  `json:"formula,omitempty"`
	Plan   *gen.Plan `json:"plan,omitempty"`
	Pseudo float64   `json:"pseudocount"`
	Log    bool      `json:"log"`
	Norm   int       `json:"normalization"` // 0 none, 1 frequency, 2 by alignment frequency, 3 by uniform frequency, others: error expected
}

func naiveEntropy(cells []byte, removeGaps bool) float64 {
	counts := map[uint8]int{}
	total := 0
	for _, c := range cells {
		if removeGaps && c == '-' {
			continue
		}
		counts[c]++
		total++
	}
	if total == 0 {
		return math.NaN()
	}
	// summed in a fixed order
	var ks []int
	for k := range counts {
		ks = append(ks, int(k))
	}
	sort.Ints(ks)
	h := 0.0
	for _, k := range ks {
		p := float64(counts[uint8(k)]) / float64(total)
		h -= p * math.Log(p)
	}
	return h
}

func alphabetChars(alpha string) string {
	if alpha == "aa" {
		return "ARNDCQEGHILKMFPSTWYV"
	}
	return "ACGT"
}

func checkSiteMeasures(c siteCase) (o pbt.Outcome, err error) {
	a := resolve(c.Ali, c.F)
	sizeClass(&o, c.F)
	return siteMeasuresOn(buildVia(a, c.Plan, &o), a, c, o)
}

func siteMeasuresOn(al align.Alignment, a gen.Ali, c siteCase, o pbt.Outcome) (pbt.Outcome, error) {
	l := a.Length()
	w := wildOf(a.Alphabet)
	other := byte('X')
	if w == 'X' {
		other = 'N'
	}
	// entropy, sites -1..L
	multi, anyNaN := false, false
	for _, rg := range []bool{false, true} {
		for j := -1; j <= l; j++ {
			got, e := al.Entropy(j, rg)
			if j < 0 || j >= l {
				if e == nil {
					return o, fmt.Errorf("Entropy(%d, %v) on length %d returns no error", j, rg, l)
				}
				continue
			}
			if e != nil {
				return o, fmt.Errorf("Entropy(%d, %v): %v", j, rg, e)
			}
			want := naiveEntropy(col(a, j), rg)
			if !eqF(got, want, 1e-12) {
				return o, fmt.Errorf("Entropy(%d, removegaps=%v) of %q = %v, -sum p ln p = %v", j, rg, col(a, j), got, want)
			}
			// repeated calls: bit for bit the same answer (fix 5fabe28: fixed summation order)
			for rep := 0; rep < 5; rep++ {
				again, _ := al.Entropy(j, rg)
				if math.Float64bits(again) != math.Float64bits(got) && !(math.IsNaN(again) && math.IsNaN(got)) {
					return o, fmt.Errorf("Entropy(%d, %v) of %q differs between two calls: %v (%#x) then %v (%#x)", j, rg, col(a, j), got, math.Float64bits(got), again, math.Float64bits(again))
				}
			}
			if math.IsNaN(want) {
				anyNaN = true
			}
			if want > 0 {
				multi = true
			}
		}
	}
	// variable sites: >= 2 distinct characters among the non gaps. Whether the wildcard is a
	// character "like '.'" is left open by the doc comment: both accepted
	lo, hi := 0, 0
	// informative sites: at least two characters occurring at least twice, "X, N and GAPS are not
	// considered": the wildcard of the alphabet is excluded; the other letter (X in nucleotides, the
	// residue N in proteins) is open
	var infoSure, infoOpen []bool
	// alleles
	allelesA, sitesA := 0, 0 // every non gap character is an allele; sites with a non gap
	allelesB, sitesB := 0, 0 // the wildcard is treated like a gap
	sitesC := 0              // the wildcard is no allele but the site counts
	for j := 0; j < l; j++ {
		cells := col(a, j)
		distinct := map[uint8]bool{}
		distinctNoW := map[uint8]bool{}
		cnt := map[uint8]int{}
		for _, ch := range cells {
			if ch == '-' {
				continue
			}
			distinct[ch] = true
			if ch != w {
				distinctNoW[ch] = true
				cnt[ch]++
			}
		}
		vA, vB := len(distinct) > 1, len(distinctNoW) > 1
		if vA && vB {
			lo++
		}
		if vA || vB {
			hi++
		}
		twiceAll, twiceNoOther := 0, 0
		for k, v := range cnt {
			if v >= 2 {
				twiceAll++
				if k != other {
					twiceNoOther++
				}
			}
		}
		infoSure = append(infoSure, twiceAll >= 2 && twiceNoOther >= 2)
		infoOpen = append(infoOpen, (twiceAll >= 2) != (twiceNoOther >= 2))
		allelesA += len(distinct)
		if len(distinct) > 0 {
			sitesA++
			sitesC++
		}
		allelesB += len(distinctNoW)
		if len(distinctNoW) > 0 {
			sitesB++
		}
	}
	for rep := 0; rep < 2; rep++ {
		nv := al.NbVariableSites()
		if nv < lo || nv > hi {
			return o, fmt.Errorf("NbVariableSites = %d, counted between %d and %d", nv, lo, hi)
		}
	}
	if lo != hi {
		o.Ambiguous++
	}
	info := al.InformativeSites()
	if !reflect.DeepEqual(info, al.InformativeSites()) {
		return o, fmt.Errorf("InformativeSites differs between two calls")
	}
	inInfo := make([]bool, l)
	for k, s := range info {
		if s < 0 || s >= l || (k > 0 && info[k-1] >= s) {
			return o, fmt.Errorf("InformativeSites = %v: not ascending indices inside [0,%d)", info, l)
		}
		inInfo[s] = true
	}
	nInfo := 0
	for j := 0; j < l; j++ {
		if infoOpen[j] {
			o.Ambiguous++
			continue
		}
		if infoSure[j] != inInfo[j] {
			return o, fmt.Errorf("InformativeSites = %v: site %d (%q) informative by definition: %v", info, j, col(a, j), infoSure[j])
		}
		if infoSure[j] {
			nInfo++
		}
	}
	avg := al.AvgAllelesPerSite()
	if !eqF(avg, al.AvgAllelesPerSite(), 0) {
		return o, fmt.Errorf("AvgAllelesPerSite differs between two calls")
	}
	rA := float64(allelesA) / float64(sitesA)
	rB := float64(allelesB) / float64(sitesB)
	rC := float64(allelesB) / float64(sitesC)
	switch {
	case eqF(avg, rA, 1e-12):
	case eqF(avg, rB, 1e-12), eqF(avg, rC, 1e-12):
		o.Class("alleles:wildcard-not-an-allele")
	default:
		return o, fmt.Errorf("AvgAllelesPerSite = %v, counted %v (wildcard as gap: %v, wildcard no allele: %v)", avg, rA, rB, rC)
	}
	if !eqF(rA, rB, 1e-12) || !eqF(rA, rC, 1e-12) {
		o.Ambiguous++
	}
	// PSSM
	for rep := 0; rep < 2; rep++ {
		pssm, e := al.Pssm(c.Log, c.Pseudo, c.Norm)
		if c.Norm == align.PSSM_NORM_DATA && !allAlphabetCharsPresent(a) {
			// the frequency of a character that does not occur in the alignment is 0: the division is
			// undefined (the code reports an error): not judged
			o.Ambiguous++
			o.Class("pssm:norm=2:character-absent-not-judged")
			break
		}
		if c.Norm < align.PSSM_NORM_NONE || c.Norm > align.PSSM_NORM_UNIF {
			if e == nil {
				return o, fmt.Errorf("Pssm with the unknown normalisation %d returns no error", c.Norm)
			}
			o.Class("pssm:unknown-normalisation")
			break
		}
		if e != nil {
			return o, fmt.Errorf("Pssm(%v,%v,%d): %v", c.Log, c.Pseudo, c.Norm, e)
		}
		chars := alphabetChars(a.Alphabet)
		if len(pssm) != len(chars) {
			return o, fmt.Errorf("Pssm has %d rows, the alphabet %d characters", len(pssm), len(chars))
		}
		for k := 0; k < len(chars); k++ {
			v, ok := pssm[chars[k]]
			if !ok || len(v) != l {
				return o, fmt.Errorf("Pssm row %q: present %v, length %d for %d sites", chars[k], ok, len(v), l)
			}
			for j := 0; j < l; j++ {
				cnt := 0
				for _, ch := range col(a, j) {
					if fold(ch) == chars[k] {
						cnt++
					}
				}
				want, alt := pssmWant(a, chars, chars[k], cnt, c.Pseudo, c.Norm, c.Log)
				if !eqF(v[j], want, 1e-12) && !eqF(v[j], alt, 1e-12) {
					return o, fmt.Errorf("Pssm(log=%v, pseudo=%v, norm=%d)[%q][%d] = %v, definition gives %v (column %q)", c.Log, c.Pseudo, c.Norm, chars[k], j, v[j], want, col(a, j))
				}
			}
		}
		if rep == 0 {
			o.Class("pssm:norm=%d,log=%v,pseudo>0=%v", c.Norm, c.Log, c.Pseudo > 0)
		}
	}
	if !gen.SameRows(gen.Snapshot(al), a.Rows) {
		return o, fmt.Errorf("a site measure modified the alignment")
	}
	o.NonTrivial = multi
	o.Class("alphabet=%s", a.Alphabet)
	if isMixed(a) {
		o.Class("case-differs-between-columns")
	}
	if anyNaN {
		o.Class("entropy:NaN-nothing-counted")
	}
	if nInfo > 0 {
		o.Class("informative-site-present")
	}
	return o, nil
}

func TestSiteMeasures(t *testing.T) {
	pbt.Run(t, func(t *rapid.T) siteCase {
		var c siteCase
		if f := genMaybeLarge(t, false); f != nil {
			c = siteCase{Ali: gen.Ali{Alphabet: f.Alphabet}, F: f}
		} else {
			a, _ := genAli(t, false, 1)
			if rapid.IntRange(0, 2).Draw(t, "columncase") == 0 {
				a = columnCase(t, a)
			}
			c = siteCase{Ali: a, Plan: maybePlan(t, a)}
		}
		c.Pseudo = rapid.SampledFrom([]float64{0, 0, 0.5, 1, 2.25}).Draw(t, "pseudo")
		c.Log = rapid.Bool().Draw(t, "log")
		c.Norm = rapid.SampledFrom([]int{1, 3, 0, 2, 1, 7, -1}).Draw(t, "norm")
		return c
	}, checkSiteMeasures)
}

// pssmWant: the documented value of one PSSM cell (docs/commands/compute.md): raw count (0), column
// frequency (count+pseudo)/(n+K*pseudo) (1), the same divided by the frequency of the character in the
// whole alignment (2) or by the uniform frequency 1/K (3); log2 on request. For (2) the documentation
// does not say over what the alignment frequency is taken: over the cells holding a character of the
// alphabet (want) or over all cells (alt).
func pssmWant(a gen.Ali, chars string, ch byte, cnt int, pseudo float64, norm int, log bool) (want, alt float64) {
	n, k := float64(len(a.Rows)), float64(len(chars))
	want = float64(cnt) + pseudo
	if norm != align.PSSM_NORM_NONE {
		want /= n + k*pseudo
	}
	alt = want
	switch norm {
	case align.PSSM_NORM_UNIF:
		want *= k
		alt = want
	case align.PSSM_NORM_DATA:
		all := foldedCountsOf(a)
		inAlphabet := 0
		for i := 0; i < len(chars); i++ {
			inAlphabet += all[chars[i]]
		}
		want /= float64(all[ch]) / float64(inAlphabet)
		alt /= float64(all[ch]) / float64(len(a.Rows)*a.Length())
	}
	if log {
		want, alt = math.Log2(want), math.Log2(alt)
	}
	return
}

func foldedCountsOf(a gen.Ali) map[uint8]int {
	var all []byte
	for _, r := range a.Rows {
		all = append(all, r.Seq...)
	}
	return naiveCounts(all)
}

func allAlphabetCharsPresent(a gen.Ali) bool {
	all := foldedCountsOf(a)
	chars := alphabetChars(a.Alphabet)
	for i := 0; i < len(chars); i++ {
		if all[chars[i]] == 0 {
			return false
		}
	}
	return true
}
