// C20 - Random site weights and rate categories are correctly normalised
package c20

import (
	"fmt"
	"io"
	"log"
	"math"
	"math/rand"
	"os"
	"path/filepath"
	"strconv"
	"strings"
	"testing"
	"time"

	"github.com/evolbioinfo/goalign/align"
	"github.com/evolbioinfo/goalign/distance/dna"
	"github.com/evolbioinfo/goalign/models"
	"github.com/evolbioinfo/goalign/stats"
	"gonum.org/v1/gonum/mathext"
	"pgregory.net/rapid"
	"verif/internal/cli"
	"verif/internal/gen"
	"verif/internal/pbt"
)

func TestMain(m *testing.M) {
	log.SetOutput(io.Discard)
	pbt.Main(m, "C20")
}

// ---- tolerances (stated in the registration text too) --------------------------------------

const (
	tolSum      = 1e-9 // relative: sum of weights / of a Dirichlet sample
	tolRateAbs  = 1e-9 // rates >= -tolRateAbs and non-decreasing with this slack; mean 1 within it
	tolRateTrue = 1e-6 // category rate against the true category mean
	tolIG       = 1e-6 // incomplete gamma ratio against gonum's and against the series
	tolIGMono   = 1e-7 // monotonicity slack (the routine's own accuracy is 1e-8 on both branches)
	tolIGRange  = 1e-9 // values in [-tolIGRange, 1+tolIGRange]
)

// ---- generators ----------------------------------------------------------------------------

// shape parameters of the quantifier: [0.01, 100], log-uniform, with the values at which the
// sampler and the incomplete gamma routine change branch
var shapeSpecials = []float64{0.01, 0.051, 0.1, 0.25, 0.5, 0.9999999, 1, 1.0000001, 1.5, 2, 3, 10, 50, 99.5, 100}

func genShape(t *rapid.T, label string) float64 {
	switch rapid.IntRange(0, 5).Draw(t, label+"_kind") {
	case 0:
		return rapid.SampledFrom(shapeSpecials).Draw(t, label+"_special")
	case 1:
		// around 1 from both sides
		d := math.Exp(rapid.Float64Range(math.Log(1e-12), math.Log(0.5)).Draw(t, label+"_d"))
		if rapid.Bool().Draw(t, label+"_below") {
			return 1 - d
		}
		return 1 + d
	default:
		a := math.Exp(rapid.Float64Range(math.Log(0.01), math.Log(100)).Draw(t, label+"_log"))
		if a < 0.01 {
			a = 0.01
		}
		if a > 100 {
			a = 100
		}
		return a
	}
}

func samplerBranch(a float64) string {
	switch {
	case a < 1:
		return "sampler:alpha<1"
	case a == 1:
		return "sampler:alpha=1"
	}
	return "sampler:alpha>1"
}

func finite(x float64) bool { return !math.IsNaN(x) && !math.IsInf(x, 0) }

// ksum: compensated summation, so that the harness's own sum is not the source of an error
func ksum(v []float64) float64 {
	s, c := 0.0, 0.0
	for _, x := range v {
		y := x - c
		t := s + y
		c = (t - s) - y
		s = t
	}
	return s
}

// ---- weight vectors ------------------------------------------------------------------------

type weightCase struct {
	L     int    `json:"L"`
	Rows  int    `json:"rows"`
	Char  string `json:"char"`
	Kind  string `json:"kind"` // dirichlet | gamma
	Seed  int64  `json:"seed"`
	Draws int    `json:"draws"` // consecutive vectors drawn from the same stream
}

func genWeights(t *rapid.T) weightCase {
	var c weightCase
	maxL := pbt.Scale(400, 2000)
	switch rapid.IntRange(0, 5).Draw(t, "Lkind") {
	case 0:
		c.L = rapid.SampledFrom([]int{3, 4, 5, 6, 7, 8}).Draw(t, "Lsmall")
	case 1:
		c.L = rapid.IntRange(maxL-3, maxL).Draw(t, "Llarge")
	default:
		c.L = rapid.IntRange(3, maxL).Draw(t, "L")
	}
	c.Rows = rapid.IntRange(1, 3).Draw(t, "rows")
	c.Char = rapid.SampledFrom([]string{"A", "C", "-", "N", "t"}).Draw(t, "char")
	c.Kind = rapid.SampledFrom([]string{"dirichlet", "gamma"}).Draw(t, "kind")
	c.Seed = rapid.Int64().Draw(t, "seed")
	c.Draws = rapid.IntRange(1, 4).Draw(t, "draws")
	return c
}

func checkWeights(c weightCase) (o pbt.Outcome, err error) {
	al := align.NewAlign(align.NUCLEOTIDS)
	for i := 0; i < c.Rows; i++ {
		if e := al.AddSequence(fmt.Sprintf("s%d", i), strings.Repeat(c.Char, c.L), ""); e != nil {
			return o, fmt.Errorf("harness: cannot build the alignment: %v", e)
		}
	}
	if al.Length() != c.L {
		return o, fmt.Errorf("harness: alignment length %d, wanted %d", al.Length(), c.L)
	}
	rand.Seed(c.Seed)
	distinct := false
	// the samplers are rejection loops: one watchdog for the draws of the case (see checkIG)
	ws := make([][]float64, c.Draws)
	pbt.Guarded("TestWeights", c, pbt.WatchdogLimit(20*time.Second), func() {
		for d := range ws {
			if c.Kind == "gamma" {
				ws[d] = dna.BuildWeightsGamma(al)
			} else {
				ws[d] = dna.BuildWeightsDirichlet(al)
			}
		}
	})
	for d, w := range ws {
		if len(w) != c.L {
			return o, fmt.Errorf("%s weights, draw %d: %d weights for an alignment of %d sites", c.Kind, d, len(w), c.L)
		}
		for i, x := range w {
			if !finite(x) || !(x > 0) {
				return o, fmt.Errorf("%s weights, draw %d: weight %d = %v is not a strictly positive finite number", c.Kind, d, i, x)
			}
			if x != w[0] {
				distinct = true
			}
		}
		if s := ksum(w); math.Abs(s-float64(c.L)) > tolSum*float64(c.L) {
			return o, fmt.Errorf("%s weights, draw %d: sum %.12g, alignment length %d (difference %.3g)", c.Kind, d, s, c.L, s-float64(c.L))
		}
	}
	if al.Length() != c.L || al.NbSequences() != c.Rows {
		return o, fmt.Errorf("the alignment changed while drawing weights")
	}
	o.NonTrivial = distinct
	o.Class("weights=%s", c.Kind)
	switch {
	case c.L <= 8:
		o.Class("L<=8")
	case c.L <= 100:
		o.Class("L<=100")
	default:
		o.Class("L>100")
	}
	if c.Draws > 1 {
		o.Class("several-draws")
	}
	return o, nil
}

func TestWeights(t *testing.T) { pbt.Run(t, genWeights, checkWeights) }

// ---- Dirichlet samples ---------------------------------------------------------------------

type dirCase struct {
	Factor float64   `json:"factor"`
	Alpha  []float64 `json:"alpha"`
	N      int       `json:"n"`    // Dirichlet1: number of values
	Flat   bool      `json:"flat"` // use Dirichlet1(factor, n)
	Valid  bool      `json:"valid"`
	Why    string    `json:"why"` // what makes the parameters invalid
	Seed   int64     `json:"seed"`
	Draws  int       `json:"draws"`
}

func genFactor(t *rapid.T) float64 {
	switch rapid.IntRange(0, 3).Draw(t, "fkind") {
	case 0:
		return 1
	case 1:
		return float64(rapid.IntRange(3, 2000).Draw(t, "fint"))
	default:
		return math.Exp(rapid.Float64Range(math.Log(1e-3), math.Log(1e6)).Draw(t, "flog"))
	}
}

func genDirichlet(t *rapid.T) dirCase {
	var c dirCase
	c.Factor = genFactor(t)
	c.Seed = rapid.Int64().Draw(t, "seed")
	c.Draws = rapid.IntRange(1, 3).Draw(t, "draws")
	c.Flat = rapid.IntRange(0, 3).Draw(t, "flat") == 0
	c.Valid = rapid.IntRange(0, 3).Draw(t, "valid") != 0
	if c.Flat {
		if c.Valid {
			c.N = rapid.SampledFrom([]int{3, 4, 5, 10, 50, 400}).Draw(t, "n")
			if rapid.Bool().Draw(t, "nfree") {
				c.N = rapid.IntRange(3, 400).Draw(t, "nn")
			}
		} else {
			c.N = rapid.SampledFrom([]int{2, 1, 0, -1, -7}).Draw(t, "nbad")
			c.Why = "fewer than 3 values"
		}
		return c
	}
	n := rapid.IntRange(3, 50).Draw(t, "len")
	if rapid.IntRange(0, 3).Draw(t, "short") == 0 {
		n = rapid.IntRange(3, 5).Draw(t, "lenshort")
	}
	// composition of the vector: all below 1, all 1, all above 1, or mixed
	comp := rapid.IntRange(0, 5).Draw(t, "comp")
	for i := 0; i < n; i++ {
		var a float64
		switch comp {
		case 0:
			a = math.Exp(rapid.Float64Range(math.Log(0.01), math.Log(0.999)).Draw(t, "a<1"))
		case 1:
			a = 1
		case 2:
			a = math.Exp(rapid.Float64Range(math.Log(1.001), math.Log(100)).Draw(t, "a>1"))
		default:
			a = genShape(t, "a")
		}
		c.Alpha = append(c.Alpha, a)
	}
	if !c.Valid {
		switch rapid.IntRange(0, 3).Draw(t, "badkind") {
		case 0:
			c.Alpha[rapid.IntRange(0, n-1).Draw(t, "where")] = 0
			c.Why = "a zero parameter"
		case 1:
			c.Alpha[rapid.IntRange(0, n-1).Draw(t, "where")] = -math.Exp(rapid.Float64Range(math.Log(1e-6), math.Log(100)).Draw(t, "neg"))
			c.Why = "a negative parameter"
		case 2:
			// the invalid entry is the last one: every earlier entry is fine
			c.Alpha[n-1] = rapid.SampledFrom([]float64{0, -1, -0.004}).Draw(t, "lastbad")
			c.Why = "an invalid last parameter"
		default:
			c.Alpha = c.Alpha[:rapid.IntRange(0, 2).Draw(t, "tooshort")]
			c.Why = "fewer than 3 parameters"
		}
	}
	return c
}

func checkDirichlet(c dirCase) (o pbt.Outcome, err error) {
	rand.Seed(c.Seed)
	// the gamma samplers are rejection loops: same watchdog as for the incomplete gamma routine,
	// one for all the draws of the case
	ndraws := c.Draws
	if !c.Valid {
		ndraws = 1
	}
	samples := make([][]float64, ndraws)
	errs := make([]error, ndraws)
	pbt.Guarded("TestDirichlet", c, pbt.WatchdogLimit(20*time.Second), func() {
		for d := 0; d < ndraws; d++ {
			if c.Flat {
				samples[d], errs[d] = stats.Dirichlet1(c.Factor, c.N)
			} else {
				samples[d], errs[d] = stats.Dirichlet(c.Factor, c.Alpha...)
			}
		}
	})
	name := "Dirichlet"
	n := len(c.Alpha)
	if c.Flat {
		name = "Dirichlet1"
		n = c.N
	}
	if !c.Valid {
		if e := errs[0]; e == nil {
			return o, fmt.Errorf("%s accepted invalid parameters (%s) without an error: factor %v alpha %v n %d", name, c.Why, c.Factor, c.Alpha, c.N)
		}
		o.NonTrivial = true
		o.Class("invalid: %s", c.Why)
		return o, nil
	}
	varied := false
	for d := 0; d < c.Draws; d++ {
		s, e := samples[d], errs[d]
		if e != nil {
			return o, fmt.Errorf("%s refused valid parameters: %v (factor %v alpha %v n %d)", name, e, c.Factor, c.Alpha, c.N)
		}
		if len(s) != n {
			return o, fmt.Errorf("%s returned %d values for %d parameters", name, len(s), n)
		}
		for i, x := range s {
			if !finite(x) || x < 0 {
				return o, fmt.Errorf("%s draw %d: value %d = %v is not a finite non-negative number", name, d, i, x)
			}
			if x != s[0] {
				varied = true
			}
		}
		if sum := ksum(s); math.Abs(sum-c.Factor) > tolSum*c.Factor {
			return o, fmt.Errorf("%s draw %d: sum %.15g, requested total %.15g (relative difference %.3g)", name, d, sum, c.Factor, (sum-c.Factor)/c.Factor)
		}
	}
	below, at, above := false, false, false
	for _, a := range c.Alpha {
		switch {
		case a < 1:
			below = true
		case a == 1:
			at = true
		default:
			above = true
		}
	}
	if c.Flat {
		o.NonTrivial = varied
		o.Class("flat (Dirichlet1)")
		return o, nil
	}
	// alpha on both sides of 1 inside one vector
	o.NonTrivial = varied && below && above
	switch {
	case below && above:
		o.Class("vector: both sides of 1")
	case below && !at:
		o.Class("vector: all <1")
	case above && !at:
		o.Class("vector: all >1")
	case at && !below && !above:
		o.Class("vector: all =1")
	default:
		o.Class("vector: 1 and one side")
	}
	if below {
		o.Class("sampler:alpha<1")
	}
	if at {
		o.Class("sampler:alpha=1")
	}
	if above {
		o.Class("sampler:alpha>1")
	}
	return o, nil
}

func TestDirichlet(t *testing.T) { pbt.Run(t, genDirichlet, checkDirichlet) }

// ---- incomplete gamma ratio ----------------------------------------------------------------

// refSeries is the defining series of the regularised lower incomplete gamma function
//
//	P(a,x) = x^a e^-x / Gamma(a+1) * sum_{n>=0} x^n / ((a+1)(a+2)...(a+n))
//
// summed until the terms vanish at double precision (all terms are positive: no cancellation).
// ok=false when the sum would overflow (x too large for the series to be evaluated).
func refSeries(a, x float64) (p float64, ok bool) {
	if x == 0 {
		return 0, true
	}
	if x > 600 {
		return 0, false
	}
	lg, _ := math.Lgamma(a + 1)
	lnf := a*math.Log(x) - x - lg
	sum, term := 1.0, 1.0
	for n := 1; n < 100000; n++ {
		term *= x / (a + float64(n))
		sum += term
		if term < 1e-18*sum {
			break
		}
	}
	return math.Exp(lnf + math.Log(sum)), true
}

func igBranch(x, p float64) string {
	if x > 1 && x >= p {
		return "ig:continued-fraction"
	}
	return "ig:series"
}

type igCase struct {
	Alpha float64   `json:"alpha"`
	X     []float64 `json:"x"` // increasing
}

func genIG(t *rapid.T) igCase {
	var c igCase
	// DiscreteGamma calls the routine with alpha+1: shapes up to 101
	if rapid.IntRange(0, 3).Draw(t, "plus1") == 0 {
		c.Alpha = genShape(t, "alpha") + 1
	} else {
		c.Alpha = genShape(t, "alpha")
	}
	boundary := math.Max(1, c.Alpha)
	n := rapid.IntRange(2, 8).Draw(t, "nx")
	xs := map[float64]bool{}
	for len(xs) < n {
		var x float64
		switch rapid.IntRange(0, 9).Draw(t, "xkind") {
		case 0:
			x = 0
		case 1:
			// the branch boundary x = max(1, alpha), from both sides and exactly
			eps := rapid.SampledFrom([]float64{0, 1e-15, 1e-12, 1e-9, 1e-6, 1e-3, 0.1}).Draw(t, "eps")
			if rapid.Bool().Draw(t, "side") {
				x = boundary * (1 + eps)
			} else {
				x = boundary * (1 - eps)
			}
		case 2:
			// x = 1 and x = alpha themselves (only one of them is the boundary)
			x = rapid.SampledFrom([]float64{1, c.Alpha, math.Nextafter(1, 2), math.Nextafter(c.Alpha, 0)}).Draw(t, "xspecial")
		case 3:
			// large x
			x = math.Exp(rapid.Float64Range(math.Log(100), math.Log(1e5)).Draw(t, "xlarge"))
		case 4:
			// tiny x
			x = math.Exp(rapid.Float64Range(math.Log(1e-300), math.Log(1e-3)).Draw(t, "xtiny"))
		case 5, 6:
			// around the mode/mean of the distribution: where the function actually moves
			x = c.Alpha * math.Exp(rapid.Float64Range(-2, 2).Draw(t, "xrel"))
		default:
			x = math.Exp(rapid.Float64Range(math.Log(1e-3), math.Log(300)).Draw(t, "xlog"))
		}
		xs[x] = true
	}
	for x := range xs {
		c.X = append(c.X, x)
	}
	sortFloats(c.X)
	return c
}

func sortFloats(v []float64) {
	for i := 1; i < len(v); i++ {
		for j := i; j > 0 && v[j] < v[j-1]; j-- {
			v[j], v[j-1] = v[j-1], v[j]
		}
	}
}

func checkIG(c igCase) (o pbt.Outcome, err error) {
	lg, _ := math.Lgamma(c.Alpha)
	prev, prevX := 0.0, 0.0
	series, cf, moving := false, false, false
	below, above := false, false
	// the routine iterates until a convergence test holds: a call that never returns has no
	// value in [0,1]. Normal running time is below a microsecond; the watchdog (2e7 times that)
	// ends the process and the driver confirms on the single case in a fresh process.
	gots := make([]float64, len(c.X))
	pbt.Guarded("TestIncompleteGamma", c, pbt.WatchdogLimit(20*time.Second), func() {
		for i, x := range c.X {
			gots[i] = models.IncompleteGamma(x, c.Alpha, lg)
		}
	})
	for i, x := range c.X {
		got := gots[i]
		if !finite(got) || got < -tolIGRange || got > 1+tolIGRange {
			return o, fmt.Errorf("IncompleteGamma(x=%v, alpha=%v) = %v is outside [0,1]", x, c.Alpha, got)
		}
		want := mathext.GammaIncReg(c.Alpha, x)
		if math.Abs(got-want) > tolIG {
			return o, fmt.Errorf("IncompleteGamma(x=%v, alpha=%v) = %.12g, the regularised incomplete gamma function is %.12g (difference %.3g, branch %s)", x, c.Alpha, got, want, got-want, igBranch(x, c.Alpha))
		}
		if s, ok := refSeries(c.Alpha, x); ok {
			if math.Abs(got-s) > tolIG {
				return o, fmt.Errorf("IncompleteGamma(x=%v, alpha=%v) = %.12g, its defining series gives %.12g (difference %.3g, branch %s)", x, c.Alpha, got, s, got-s, igBranch(x, c.Alpha))
			}
			if math.Abs(s-want) > 1e-9 {
				return o, fmt.Errorf("harness: the two references disagree at x=%v alpha=%v: series %.15g gonum %.15g", x, c.Alpha, s, want)
			}
			o.Class("oracle: series+gonum")
		} else {
			o.Class("oracle: gonum only (x>600)")
		}
		if i > 0 && got < prev-tolIGMono {
			return o, fmt.Errorf("IncompleteGamma is not monotone in x for alpha=%v: I(%v)=%.12g > I(%v)=%.12g", c.Alpha, prevX, prev, x, got)
		}
		if i > 0 && got > prev+1e-3 {
			moving = true
		}
		prev, prevX = got, x
		if igBranch(x, c.Alpha) == "ig:series" {
			series = true
		} else {
			cf = true
		}
		if x > 0 && c.Alpha < x {
			below = true
		}
		if c.Alpha > x {
			above = true
		}
	}
	// non-trivial: the shape lies on both sides of the x values, both evaluation branches are
	// used and the function value actually moves between two of the points
	o.NonTrivial = below && above && series && cf && moving
	if series {
		o.Class("ig:series")
	}
	if cf {
		o.Class("ig:continued-fraction")
	}
	if series && cf {
		o.Class("ig:both branches in one case")
	}
	switch {
	case c.Alpha < 1:
		o.Class("shape<1")
	case c.Alpha == 1:
		o.Class("shape=1")
	default:
		o.Class("shape>1")
	}
	return o, nil
}

func TestIncompleteGamma(t *testing.T) { pbt.Run(t, genIG, checkIG) }

// ---- discrete gamma categories and GenerateRates -------------------------------------------

// refQuantile: x with P(alpha, x) = p, by bisection on log x against gonum's regularised
// incomplete gamma (the code under test uses distuv's inverse routine)
func refQuantile(alpha, p float64) float64 {
	lo, hi := math.Log(5e-324), math.Log(1e6)
	for i := 0; i < 90; i++ {
		mid := (lo + hi) / 2
		if mathext.GammaIncReg(alpha, math.Exp(mid)) < p {
			lo = mid
		} else {
			hi = mid
		}
	}
	return math.Exp((lo + hi) / 2)
}

// refCategoryMeans: mean of the Gamma(alpha, rate alpha) distribution (mean 1) inside each of
// the k equiprobable categories: k * [P(alpha+1, x_i) - P(alpha+1, x_{i-1})], x_i the
// i/k quantile of Gamma(alpha, 1)
func refCategoryMeans(alpha float64, k int) []float64 {
	cum := make([]float64, k+1)
	cum[k] = 1
	for i := 1; i < k; i++ {
		x := refQuantile(alpha, float64(i)/float64(k))
		cum[i] = mathext.GammaIncReg(alpha+1, x)
	}
	r := make([]float64, k)
	for i := 0; i < k; i++ {
		r[i] = float64(k) * (cum[i+1] - cum[i])
	}
	return r
}

type dgCase struct {
	Alpha    float64 `json:"alpha"`
	Ncat     int     `json:"ncat"`
	Nsites   int     `json:"nsites"`
	Seed     int64   `json:"seed"`
	Gamma    bool    `json:"gamma"`
	Discrete bool    `json:"discrete"`
}

func genDG(t *rapid.T) dgCase {
	var c dgCase
	c.Alpha = genShape(t, "alpha")
	switch rapid.IntRange(0, 3).Draw(t, "kkind") {
	case 0:
		c.Ncat = rapid.SampledFrom([]int{2, 3, 4, 8, 16, 18, 31, 32}).Draw(t, "kspecial")
	default:
		c.Ncat = rapid.IntRange(2, 32).Draw(t, "k")
	}
	c.Nsites = rapid.IntRange(0, 60).Draw(t, "nsites")
	c.Seed = rapid.Int64().Draw(t, "seed")
	c.Gamma = rapid.IntRange(0, 5).Draw(t, "gamma") != 0
	c.Discrete = rapid.IntRange(0, 7).Draw(t, "discrete") != 0
	return c
}

func checkDG(c dgCase) (o pbt.Outcome, err error) {
	var r, rates []float64
	var cats []int
	pbt.Guarded("TestDiscreteGamma", c, pbt.WatchdogLimit(20*time.Second), func() {
		r = models.DiscreteGamma(c.Alpha, c.Ncat)
		// GenerateRates on the same parameters
		rand.Seed(c.Seed)
		rates, cats = models.GenerateRates(c.Nsites, c.Gamma, c.Alpha, c.Ncat, c.Discrete)
	})
	if len(r) != c.Ncat {
		return o, fmt.Errorf("DiscreteGamma(%v, %d) returned %d rates", c.Alpha, c.Ncat, len(r))
	}
	want := refCategoryMeans(c.Alpha, c.Ncat)
	distinct := map[float64]bool{}
	worst := 0.0
	for i, x := range r {
		if !finite(x) || x < -tolRateAbs {
			return o, fmt.Errorf("DiscreteGamma(%v, %d): rate %d = %v is negative or not finite", c.Alpha, c.Ncat, i, x)
		}
		if i > 0 && x < r[i-1]-tolRateAbs {
			return o, fmt.Errorf("DiscreteGamma(%v, %d): rates decrease at category %d: %.12g then %.12g", c.Alpha, c.Ncat, i, r[i-1], x)
		}
		if d := math.Abs(x - want[i]); d > tolRateTrue {
			return o, fmt.Errorf("DiscreteGamma(%v, %d): rate of category %d = %.10g, the mean of the distribution inside the category is %.10g (difference %.3g)\n got : %v\n want: %v", c.Alpha, c.Ncat, i, x, want[i], x-want[i], r, want)
		} else if d > worst {
			worst = d
		}
		distinct[x] = true
	}
	if m := ksum(r) / float64(c.Ncat); math.Abs(m-1) > tolRateAbs {
		return o, fmt.Errorf("DiscreteGamma(%v, %d): mean rate %.15g, expected 1", c.Alpha, c.Ncat, m)
	}
	if len(rates) != c.Nsites || len(cats) != c.Nsites {
		return o, fmt.Errorf("GenerateRates(%d sites): %d rates, %d categories", c.Nsites, len(rates), len(cats))
	}
	used := map[int]bool{}
	switch {
	case c.Discrete && c.Gamma:
		for i := range rates {
			k := cats[i]
			if k < 0 || k >= c.Ncat {
				return o, fmt.Errorf("GenerateRates: site %d has category %d, outside 0..%d", i, k, c.Ncat-1)
			}
			if rates[i] != r[k] {
				return o, fmt.Errorf("GenerateRates: site %d has rate %v and category %d, whose rate is %v", i, rates[i], k, r[k])
			}
			if math.Abs(rates[i]-want[k]) > tolRateTrue {
				return o, fmt.Errorf("GenerateRates: site %d rate %v, the mean of category %d is %v", i, rates[i], k, want[k])
			}
			used[k] = true
		}
		o.Class("rates: discrete gamma")
	case c.Discrete && !c.Gamma:
		// no rate heterogeneity: the single category of rate 1
		for i := range rates {
			if rates[i] != 1 || cats[i] != 0 {
				return o, fmt.Errorf("GenerateRates without gamma: site %d has rate %v category %d, expected 1 and 0", i, rates[i], cats[i])
			}
		}
		o.Class("rates: homogeneous")
	default:
		// continuous rates: not the subject of the statement, nothing is asserted
		o.Class("rates: continuous (not judged)")
	}
	o.NonTrivial = len(distinct) >= 3
	o.Class(samplerBranch(c.Alpha))
	switch {
	case c.Ncat == 2:
		o.Class("ncat=2")
	case c.Ncat <= 8:
		o.Class("ncat 3-8")
	case c.Ncat < 32:
		o.Class("ncat 9-31")
	default:
		o.Class("ncat=32")
	}
	if len(used) >= 2 {
		o.Class("rates: >=2 categories drawn")
	}
	switch {
	case worst > 1e-7:
		o.Class("deviation from the true mean in (1e-7,1e-6]")
	case worst > 1e-8:
		o.Class("deviation from the true mean in (1e-8,1e-7]")
	default:
		o.Class("deviation from the true mean <=1e-8")
	}
	return o, nil
}

func TestDiscreteGamma(t *testing.T) { pbt.Run(t, genDG, checkDG) }

// ---- command line tier: goalign build weightboot ---------------------------------------------

type cliCase struct {
	L      int    `json:"L"`
	Rows   int    `json:"rows"`
	N      int    `json:"n"`
	Seed   int64  `json:"seed"`
	Format string `json:"format"` // fasta | phylip | phylip-multi | stdin
	L2     int    `json:"L2"`     // phylip-multi: length of the second alignment of the file
	ToFile bool   `json:"tofile"`
	// Stale: the -o file exists already, with a longer content of an earlier run
	Stale bool `json:"stale,omitempty"`
	// Layout: presentation of the FASTA input (wrapped lines, blank-separated blocks, CRLF ...)
	Layout cli.Layout `json:"layout"`
	Seqs   []string   `json:"seqs"`
}

func phylipText(rows []string) string {
	var sb strings.Builder
	fmt.Fprintf(&sb, "   %d   %d\n", len(rows), len(rows[0]))
	for i, s := range rows {
		fmt.Fprintf(&sb, "s%d  %s\n", i, s)
	}
	return sb.String()
}

func TestCLI(t *testing.T) {
	if cli.Binary() == "" {
		t.Skip("no goalign binary")
	}
	dir := cli.TempDir("c20cli")
	pbt.Run(t, func(t *rapid.T) cliCase {
		var c cliCase
		c.L = rapid.SampledFrom([]int{3, 4, 5, 10, 59, 60, 61, 200, 400}).Draw(t, "L")
		if rapid.Bool().Draw(t, "Lfree") {
			c.L = rapid.IntRange(3, pbt.Scale(400, 1500)).Draw(t, "LL")
		}
		c.Rows = rapid.IntRange(1, 4).Draw(t, "rows")
		c.N = rapid.SampledFrom([]int{1, 1, 2, 3, 10, 25}).Draw(t, "n")
		c.Seed = rapid.Int64Range(0, 1<<40).Draw(t, "seed")
		c.Format = rapid.SampledFrom([]string{"fasta", "fasta", "phylip", "phylip-multi", "stdin"}).Draw(t, "format")
		if c.Format == "phylip-multi" {
			c.L2 = rapid.SampledFrom([]int{3, 7, 450}).Draw(t, "L2")
			if c.L2 == c.L {
				c.L2++
			}
		}
		c.ToFile = rapid.IntRange(0, 3).Draw(t, "tofile") == 0
		c.Stale = c.ToFile && rapid.Bool().Draw(t, "stale")
		if c.Format == "fasta" || c.Format == "stdin" {
			c.Layout = cli.DrawLayout(t)
		}
		for i := 0; i < c.Rows; i++ {
			// nucleotides with at least one unambiguous letter first
			c.Seqs = append(c.Seqs, "A"+gen.SeqN(t, "ACGT-N", c.L-1))
		}
		return c
	}, func(c cliCase) (o pbt.Outcome, err error) {
		rows := make([]gen.Row, len(c.Seqs))
		for i, s := range c.Seqs {
			rows[i] = gen.Row{Name: fmt.Sprintf("s%d", i), Seq: s}
		}
		args := []string{"build", "weightboot", "-n", fmt.Sprint(c.N), "--seed", fmt.Sprint(c.Seed)}
		stdin := ""
		switch c.Format {
		case "fasta":
			args = append(args, "-i", cli.TempFile(dir, ".fa", cli.FastaLayout(rows, c.Layout)))
		case "stdin":
			stdin = cli.FastaLayout(rows, c.Layout)
		case "phylip":
			args = append(args, "-p", "-i", cli.TempFile(dir, ".phy", phylipText(c.Seqs)))
		case "phylip-multi":
			// "If the input alignment contains several alignments, will process the first one only"
			second := make([]string, len(c.Seqs))
			for i := range second {
				second[i] = strings.Repeat("C", c.L2)
			}
			args = append(args, "-p", "-i", cli.TempFile(dir, ".phy", phylipText(c.Seqs)+phylipText(second)))
		}
		outfile := ""
		if c.ToFile {
			outfile = filepath.Join(dir, fmt.Sprintf("w%d_%d_%d.txt", c.L, c.N, c.Seed))
			args = append(args, "-o", outfile)
			if c.Stale {
				// longer than anything the command writes (about 9 bytes per weight)
				cli.StaleFile(outfile, c.N*c.L/4+10)
			}
		}
		r := cli.Run(stdin, args...)
		if r.Exit != 0 {
			return o, fmt.Errorf("goalign %v: exit %d, stderr %q", args, r.Exit, r.Stderr)
		}
		text := r.Stdout
		if c.ToFile {
			b, e := os.ReadFile(outfile)
			os.Remove(outfile)
			if e != nil {
				return o, fmt.Errorf("goalign %v: no output file: %v", args, e)
			}
			if strings.TrimSpace(r.Stdout) != "" {
				return o, fmt.Errorf("goalign %v: weights written to stdout although -o was given: %q", args, r.Stdout)
			}
			text = string(b)
		}
		lines := strings.Split(strings.TrimRight(text, "\n"), "\n")
		if len(lines) != c.N {
			return o, fmt.Errorf("goalign %v: %d lines for -n %d", args, len(lines), c.N)
		}
		printedZero := false
		for li, line := range lines {
			fields := strings.Split(line, "\t")
			if len(fields) != c.L {
				return o, fmt.Errorf("goalign %v: line %d has %d weights, the alignment has %d sites", args, li, len(fields), c.L)
			}
			w := make([]float64, len(fields))
			for i, f := range fields {
				v, e := strconv.ParseFloat(f, 64)
				if e != nil || !finite(v) {
					return o, fmt.Errorf("goalign %v: line %d field %d %q is not a finite number", args, li, i, f)
				}
				// printed with 6 decimals: a positive weight below 5e-7 is printed 0.000000
				if v < 0 {
					return o, fmt.Errorf("goalign %v: line %d field %d: negative weight %q", args, li, i, f)
				}
				if v == 0 {
					printedZero = true
				}
				w[i] = v
			}
			// every printed value is within 5e-7 of the weight
			if s := ksum(w); math.Abs(s-float64(c.L)) > float64(c.L)*(5e-7+tolSum) {
				return o, fmt.Errorf("goalign %v: line %d sums to %.9g, the alignment has %d sites (difference %.3g, printing precision allows %.3g)", args, li, s, c.L, s-float64(c.L), float64(c.L)*5e-7)
			}
		}
		if printedZero {
			o.Class("a weight printed as 0.000000")
		}
		o.NonTrivial = true
		o.Class("input=%s", c.Format)
		o.Class("tofile=%v", c.ToFile)
		if c.Stale {
			o.Class("-o file existed (stale, longer)")
		}
		if !c.Layout.Plain() {
			o.Class("FASTA input in another layout")
		}
		if c.N > 1 {
			o.Class("n>1")
		}
		return o, nil
	})
}
