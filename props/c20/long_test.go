package c20

import (
	"fmt"
	"math"
	"math/rand"
	"testing"
	"time"

	"github.com/evolbioinfo/goalign/stats"
	"pgregory.net/rapid"
	"verif/internal/pbt"
)

// Size class "long vectors". The quantifier is "all alignment lengths >= 3"; the other runs draw
// lengths up to 400 (2 000 thorough). A resolution or accumulation problem of a sampler only shows
// when many variates share one vector (ties between sorted uniforms, a total that swamps a variate):
// a handful of flat weight vectors of 30 000 - 400 000 sites is drawn from every sampler that
// produces one: both weight builders, Dirichlet with all parameters 1 and Dirichlet1, the last two
// with total = number of values, i.e. used as the D(n; 1,...,1) site weights that the documentation of
// `build weightboot` describes. Oracle: the weight-vector clause: one finite weight > 0 per site,
// sum = number of sites (relative 1e-9).

type longCase struct {
	N      int    `json:"n"`
	Target string `json:"target"` // weights-dirichlet | weights-gamma | dirichlet-all-1 | dirichlet1
	Seed   int64  `json:"seed"`
}

func genLong(t *rapid.T) longCase {
	var c longCase
	if rapid.Bool().Draw(t, "verylong") {
		c.N = rapid.IntRange(200000, 400000).Draw(t, "n")
	} else {
		c.N = rapid.IntRange(30000, 200000).Draw(t, "n")
	}
	c.Target = rapid.SampledFrom([]string{"weights-dirichlet", "weights-gamma", "dirichlet-all-1", "dirichlet1", "dirichlet1"}).Draw(t, "target")
	c.Seed = rapid.Int64().Draw(t, "seed")
	return c
}

func checkLong(c longCase) (o pbt.Outcome, err error) {
	if c.N < 3 || c.N > 2000000 {
		o.Skip = true
		return o, nil
	}
	switch c.Target {
	case "weights-dirichlet":
		o, err = checkWeights(weightCase{L: c.N, Rows: 1, Char: "A", Kind: "dirichlet", Seed: c.Seed, Draws: 1})
	case "weights-gamma":
		o, err = checkWeights(weightCase{L: c.N, Rows: 1, Char: "A", Kind: "gamma", Seed: c.Seed, Draws: 1})
	case "dirichlet-all-1", "dirichlet1":
		var w []float64
		var e error
		pbt.Guarded("TestLongVectors", c, pbt.WatchdogLimit(60*time.Second), func() {
			rand.Seed(c.Seed)
			if c.Target == "dirichlet1" {
				w, e = stats.Dirichlet1(float64(c.N), c.N)
			} else {
				alpha := make([]float64, c.N)
				for i := range alpha {
					alpha[i] = 1
				}
				w, e = stats.Dirichlet(float64(c.N), alpha...)
			}
		})
		if e != nil {
			return o, fmt.Errorf("%s refused %d values: %v", c.Target, c.N, e)
		}
		if len(w) != c.N {
			return o, fmt.Errorf("%s: %d weights for %d sites", c.Target, len(w), c.N)
		}
		zeros := 0
		for i, x := range w {
			if !finite(x) || !(x > 0) {
				if x == 0 {
					zeros++
					if err == nil {
						err = fmt.Errorf("%s as site weights D(n;1,...,1), n = %d, seed %d: weight %d = %v is not a strictly positive finite number", c.Target, c.N, c.Seed, i, x)
					}
					continue
				}
				return o, fmt.Errorf("%s, n = %d, seed %d: weight %d = %v is not a strictly positive finite number", c.Target, c.N, c.Seed, i, x)
			}
		}
		if err != nil {
			return o, fmt.Errorf("%v (%d weights equal to 0 in the vector)", err, zeros)
		}
		if s := ksum(w); math.Abs(s-float64(c.N)) > tolSum*float64(c.N) {
			return o, fmt.Errorf("%s, n = %d: sum %.12g (difference %.3g)", c.Target, c.N, s, s-float64(c.N))
		}
		o.NonTrivial = true
	default:
		o.Skip = true
		return o, nil
	}
	if err != nil {
		return o, err
	}
	o.Classes = nil
	o.Class("long: %s", c.Target)
	if c.N >= 200000 {
		o.Class("n >= 200 000")
	} else {
		o.Class("n in 30 000 - 200 000")
	}
	return o, nil
}

func TestLongVectors(t *testing.T) { pbt.Run(t, genLong, checkLong) }
