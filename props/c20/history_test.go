package c20

import (
	"fmt"
	"math"
	"math/rand"
	"testing"
	"time"

	"github.com/evolbioinfo/goalign/align"
	"github.com/evolbioinfo/goalign/distance/dna"
	"pgregory.net/rapid"
	"verif/internal/gen"
	"verif/internal/pbt"
)

// Weights for alignments that are not freshly built. The statement quantifies over all alignments:
// the object handed to the weight builders was usually cloned, cut, cleaned, concatenated, sampled
// from another one ... before. Two things are drawn:
//   - a provenance plan (gen.DrawPlan / gen.BuildVia): a chain of public operations ending on exactly
//     the generated content;
//   - a two-object history: a second object is derived from the first (Sample, SubAlign, SelectSites,
//     Clone), a length-changing in-place operation is applied to ONE of them, weights are drawn for
//     the OTHER one (or, without a second object, the operation is applied to the object itself
//     before the weights are drawn).
// Oracle: one finite weight > 0 per site of the object the weights are drawn for, the sites being
// the rows read back by index (every row has as many residues as there are weights), summing to that
// number; for an object that no operation was applied to, that number is also the one its
// construction implies.

type histCase struct {
	Ali  gen.Ali  `json:"ali"`
	Plan gen.Plan `json:"plan"`
	// Derive: "" | sample | subalign | select-sites | clone
	Derive string `json:"derive"`
	DN     int    `json:"dn"`     // sample: number of sequences
	DStart int    `json:"dstart"` // subalign
	DLen   int    `json:"dlen"`
	DSites []int  `json:"dsites"` // select-sites
	// Op: "" | remove-gap-sites | remove-gap-ends | trim-start | trim-end | remove-maj-sites | remove-maj-ends | remove-char-sites
	Op     string  `json:"op"`
	OpN    int     `json:"opn"`
	OpCut  float64 `json:"opcut"`
	OpChar string  `json:"opchar"`
	// Target: the object the weights are drawn for: source | derived; the operation goes to the other
	Target string `json:"target"`
	Kind   string `json:"kind"` // dirichlet | gamma
	Seed   int64  `json:"seed"`
}

var histOps = []string{"remove-gap-sites", "remove-gap-ends", "trim-start", "trim-end", "remove-maj-sites", "remove-maj-ends", "remove-char-sites"}

func genHist(t *rapid.T) histCase {
	var c histCase
	c.Ali = gen.Columnwise(t, "ACGTN-", 2, 6, 3, pbt.Scale(40, 120), "nt")
	if rapid.IntRange(0, 2).Draw(t, "provenance") != 0 {
		c.Plan = gen.DrawPlan(t, c.Ali, "ACGT-", 3)
	}
	n, l := len(c.Ali.Rows), c.Ali.Length()
	c.Kind = rapid.SampledFrom([]string{"dirichlet", "gamma"}).Draw(t, "kind")
	c.Seed = rapid.Int64().Draw(t, "seed")
	c.Target = "source"
	if rapid.IntRange(0, 2).Draw(t, "history") == 0 {
		return c
	}
	c.Derive = rapid.SampledFrom([]string{"", "sample", "sample", "subalign", "select-sites", "clone"}).Draw(t, "derive")
	switch c.Derive {
	case "sample":
		c.DN = rapid.IntRange(1, n).Draw(t, "dn")
	case "subalign":
		c.DLen = rapid.IntRange(3, l).Draw(t, "dlen")
		c.DStart = rapid.IntRange(0, l-c.DLen).Draw(t, "dstart")
	case "select-sites":
		for j := 0; j < l; j++ {
			if rapid.IntRange(0, 3).Draw(t, "site") != 0 {
				c.DSites = append(c.DSites, j)
			}
		}
		for j := 0; len(c.DSites) < 3; j++ {
			c.DSites = []int{0, 1, 2}
		}
	}
	c.Op = rapid.SampledFrom(histOps).Draw(t, "op")
	c.OpN = rapid.IntRange(1, 3).Draw(t, "opn")
	c.OpCut = rapid.SampledFrom([]float64{0, 0.3, 0.5, 1}).Draw(t, "opcut")
	c.OpChar = rapid.SampledFrom([]string{"A", "N", "-", "C"}).Draw(t, "opchar")
	if c.Derive != "" {
		c.Target = rapid.SampledFrom([]string{"source", "derived"}).Draw(t, "target")
	}
	return c
}

// applyOp applies the length-changing in-place operation; ok=false when it reports an error
func applyOp(al align.Alignment, c histCase) bool {
	switch c.Op {
	case "remove-gap-sites":
		al.RemoveGapSites(c.OpCut, false)
	case "remove-gap-ends":
		al.RemoveGapSites(c.OpCut, true)
	case "trim-start":
		return al.TrimSequences(c.OpN, true) == nil
	case "trim-end":
		return al.TrimSequences(c.OpN, false) == nil
	case "remove-maj-sites":
		al.RemoveMajorityCharacterSites(c.OpCut, false, false, false)
	case "remove-maj-ends":
		al.RemoveMajorityCharacterSites(c.OpCut, true, false, false)
	case "remove-char-sites":
		al.RemoveCharacterSites([]uint8(c.OpChar), c.OpCut, false, false, false, false, false)
	}
	return true
}

func checkHist(c histCase) (o pbt.Outcome, err error) {
	if len(c.Ali.Rows) == 0 || c.Ali.Length() < 3 {
		o.Skip = true
		return o, nil
	}
	var w []float64
	var rows []gen.Row
	implied := -1 // number of sites the construction implies for an object no operation was applied to
	unusable, opFailed, deriveFailed, changed := false, false, false, false
	cached := 0
	pbt.Guarded("TestWeightsHistory", c, pbt.WatchdogLimit(20*time.Second), func() {
		src, usable := gen.BuildVia(c.Ali, c.Plan)
		if !usable {
			unusable = true
			src = gen.MustBuild(c.Ali)
		}
		rand.Seed(c.Seed)
		target := src
		var other align.Alignment
		if c.Derive != "" {
			var der align.Alignment
			var e error
			dl := c.Ali.Length()
			switch c.Derive {
			case "sample":
				der, e = src.Sample(c.DN)
			case "subalign":
				der, e = src.SubAlign(c.DStart, c.DLen)
				dl = c.DLen
			case "select-sites":
				der, e = src.SelectSites(c.DSites)
				dl = len(c.DSites)
			case "clone":
				der, e = src.Clone()
			}
			if e != nil || der == nil {
				deriveFailed = true
				return
			}
			if c.Target == "derived" {
				target, other, implied = der, src, dl
			} else {
				target, other, implied = src, der, c.Ali.Length()
			}
		} else if c.Op == "" {
			implied = c.Ali.Length()
		}
		if c.Op != "" {
			on := other
			if on == nil {
				on = target // single object: cleaned, then weighted
			}
			before := on.Length()
			if !applyOp(on, c) {
				opFailed = true
			}
			changed = on.Length() != before
		}
		rows = gen.Snapshot(target)
		cached = target.Length()
		if len(rows) == 0 || len(rows[0].Seq) < 3 || cached < 3 {
			// fewer than 3 sites: outside the quantifier (the gamma builder divides by zero there)
			return
		}
		if c.Kind == "gamma" {
			w = dna.BuildWeightsGamma(target)
		} else {
			w = dna.BuildWeightsDirichlet(target)
		}
	})
	if deriveFailed {
		// an error of Sample/SubAlign/SelectSites/Clone on valid arguments is not this property's subject
		o.Class("derivation reports an error (not judged)")
		return o, nil
	}
	what := fmt.Sprintf("%s weights for the %s object (provenance %s, derive %q, operation %q on the %s)", c.Kind, c.Target, c.Plan, c.Derive, c.Op,
		map[bool]string{true: "object itself", false: "other object"}[c.Derive == ""])
	if len(rows) == 0 {
		o.Class("no row left (outside the quantifier)")
		return o, nil
	}
	sites := len(rows[0].Seq)
	if sites < 3 {
		// the operation left fewer than 3 sites: outside the quantifier
		o.Class("fewer than 3 sites left (outside the quantifier)")
		return o, nil
	}
	if cached < 3 {
		return o, fmt.Errorf("%s: the object reports a length of %d (the weight builders size the vector with it) but its rows have %d sites\n rows: %s", what, cached, sites, gen.Show(rows))
	}
	for i, r := range rows {
		if len(r.Seq) != len(w) {
			return o, fmt.Errorf("%s: %d weights, but row %d of that alignment (%q) has %d sites\n rows: %s", what, len(w), i, r.Name, len(r.Seq), gen.Show(rows))
		}
	}
	if implied >= 0 && len(w) != implied {
		return o, fmt.Errorf("%s: %d weights, its construction implies %d sites", what, len(w), implied)
	}
	for i, x := range w {
		if !finite(x) || !(x > 0) {
			return o, fmt.Errorf("%s: weight %d = %v is not a strictly positive finite number", what, i, x)
		}
	}
	if s := ksum(w); math.Abs(s-float64(sites)) > tolSum*float64(sites) {
		return o, fmt.Errorf("%s: sum %.12g, the alignment has %d sites (difference %.3g)", what, s, sites, s-float64(sites))
	}
	o.NonTrivial = len(c.Plan.Steps) > 0 || (c.Op != "" && changed)
	if unusable {
		o.Class("provenance-unusable")
	}
	o.Class("provenance: %d steps", len(c.Plan.Steps))
	for _, k := range c.Plan.Kinds() {
		o.Class("step: %s", k)
	}
	switch {
	case c.Op == "":
		o.Class("history: none")
	case c.Derive == "":
		o.Class("history: %s, then weights for the same object", c.Op)
	default:
		o.Class("history: %s, operation on the other object, weights for the %s", c.Derive, c.Target)
		if changed {
			o.Class("the operation changed the other object's length")
		}
	}
	if opFailed {
		o.Class("operation reports an error")
	}
	return o, nil
}

func TestWeightsHistory(t *testing.T) { pbt.Run(t, genHist, checkHist) }
