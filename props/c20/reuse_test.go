package c20

import (
	"fmt"
	"math"
	"math/rand"
	"testing"
	"time"

	"github.com/evolbioinfo/goalign/align"
	"github.com/evolbioinfo/goalign/distance/dna"
	"pgregory.net/rapid"
	"verif/internal/gen"
	"verif/internal/pbt"
)

// Prior use: weights are drawn for ONE alignment object several times, and between two draws the
// object is edited in place by a drawn mutator that changes (or not) its number of sites. The
// statement holds for every draw: whatever was computed for the object before, the vector drawn now
// has one finite weight > 0 per site of the object as it is now, summing to that number. A second
// object (built from the same content, never edited) may receive a draw in between: its vector
// must fit ITS content.
// Oracle: the sites are the rows read back by index after the edit (never Length() alone); for
// the lengthening edit (Concat of a block of the initial content) the expected number of sites
// is also computed by the test (previous number + number of columns of the block).

type reuseStep struct {
	// Op: "" (no edit: a second draw on unchanged content) | one of histOps | concat | concat-part
	Op     string  `json:"op"`
	OpN    int     `json:"opn"`
	OpCut  float64 `json:"opcut"`
	OpChar string  `json:"opchar"`
	PStart int     `json:"pstart"` // concat-part: window of the initial content that is concatenated
	PLen   int     `json:"plen"`
	Kind   string  `json:"kind"`  // builder used after the edit: dirichlet | gamma
	Other  bool    `json:"other"` // a draw for the second, unedited object before this step's draw
}

type reuseCase struct {
	Ali   gen.Ali     `json:"ali"`
	Kind0 string      `json:"kind0"` // builder of the first draw
	Steps []reuseStep `json:"steps"`
	Seed  int64       `json:"seed"`
}

var reuseKinds = []string{"dirichlet", "dirichlet", "gamma"}

func genReuse(t *rapid.T) reuseCase {
	var c reuseCase
	c.Ali = gen.Columnwise(t, "ACGTN-", 2, 5, 3, pbt.Scale(30, 80), "nt")
	l := c.Ali.Length()
	c.Kind0 = rapid.SampledFrom(reuseKinds).Draw(t, "kind0")
	c.Seed = rapid.Int64().Draw(t, "seed")
	ops := append([]string{"", "concat", "concat-part"}, histOps...)
	ns := rapid.IntRange(1, 4).Draw(t, "nsteps")
	for i := 0; i < ns; i++ {
		var s reuseStep
		s.Op = rapid.SampledFrom(ops).Draw(t, "op")
		s.OpN = rapid.IntRange(1, 3).Draw(t, "opn")
		s.OpCut = rapid.SampledFrom([]float64{0, 0.3, 0.5, 1}).Draw(t, "opcut")
		s.OpChar = rapid.SampledFrom([]string{"A", "N", "-", "C"}).Draw(t, "opchar")
		if s.Op == "concat-part" {
			s.PLen = rapid.IntRange(1, l).Draw(t, "plen")
			s.PStart = rapid.IntRange(0, l-s.PLen).Draw(t, "pstart")
		}
		s.Kind = rapid.SampledFrom(reuseKinds).Draw(t, "kind")
		s.Other = rapid.IntRange(0, 4).Draw(t, "other") == 0
		c.Steps = append(c.Steps, s)
	}
	return c
}

func drawWeights(kind string, al align.Alignment) []float64 {
	if kind == "gamma" {
		return dna.BuildWeightsGamma(al)
	}
	return dna.BuildWeightsDirichlet(al)
}

// judgeWeights: the weight-vector clause for w against the rows read back from the object
func judgeWeights(what string, w []float64, rows []gen.Row, reported, implied int) error {
	sites := len(rows[0].Seq)
	if reported != sites {
		return fmt.Errorf("%s: the object reports a length of %d but its rows have %d sites\n rows: %s", what, reported, sites, gen.Show(rows))
	}
	for i, r := range rows {
		if len(r.Seq) != len(w) {
			return fmt.Errorf("%s: %d weights, but row %d of that alignment (%q) has %d sites now\n rows: %s", what, len(w), i, r.Name, len(r.Seq), gen.Show(rows))
		}
	}
	if implied >= 0 && len(w) != implied {
		return fmt.Errorf("%s: %d weights, the edits imply %d sites", what, len(w), implied)
	}
	for i, x := range w {
		if !finite(x) || !(x > 0) {
			return fmt.Errorf("%s: weight %d = %v is not a strictly positive finite number", what, i, x)
		}
	}
	if s := ksum(w); math.Abs(s-float64(sites)) > tolSum*float64(sites) {
		return fmt.Errorf("%s: sum %.12g, the alignment has %d sites (difference %.3g)", what, s, sites, s-float64(sites))
	}
	return nil
}

func checkReuse(c reuseCase) (o pbt.Outcome, err error) {
	if len(c.Ali.Rows) == 0 || c.Ali.Length() < 3 || len(c.Steps) == 0 {
		o.Skip = true
		return o, nil
	}
	var bad error
	changes, draws := 0, 1
	stopped := ""
	var classes []string
	pbt.Guarded("TestWeightsReuse", c, pbt.WatchdogLimit(20*time.Second), func() {
		rand.Seed(c.Seed)
		al := gen.MustBuild(c.Ali)
		other := gen.MustBuild(c.Ali)
		otherRows := gen.Snapshot(other)
		w := drawWeights(c.Kind0, al)
		if bad = judgeWeights(fmt.Sprintf("first %s weights of the object", c.Kind0), w, gen.Snapshot(al), al.Length(), c.Ali.Length()); bad != nil {
			return
		}
		prevKind := c.Kind0
		for i, s := range c.Steps {
			before := len(gen.Snapshot(al)[0].Seq)
			implied := -1
			hc := histCase{Op: s.Op, OpN: s.OpN, OpCut: s.OpCut, OpChar: s.OpChar}
			switch s.Op {
			case "":
				implied = before
			case "concat":
				if al.Concat(gen.MustBuild(c.Ali)) == nil {
					implied = before + c.Ali.Length()
				}
			case "concat-part":
				blk, e := gen.MustBuild(c.Ali).SubAlign(s.PStart, s.PLen)
				if e != nil || blk == nil {
					stopped = "SubAlign of the block reports an error (not judged)"
					return
				}
				if al.Concat(blk) == nil {
					implied = before + s.PLen
				}
			default:
				applyOp(al, hc)
			}
			rows := gen.Snapshot(al)
			if len(rows) == 0 || len(rows[0].Seq) < 3 {
				stopped = "fewer than 3 sites left (outside the quantifier from there on)"
				return
			}
			if len(rows[0].Seq) != before {
				changes++
				dir := "shorter"
				if len(rows[0].Seq) > before {
					dir = "longer"
				}
				classes = append(classes, fmt.Sprintf("draw %s, object made %s in place, draw %s", prevKind, dir, s.Kind))
			} else {
				classes = append(classes, "two draws without a change of length in between")
			}
			if s.Other {
				wo := drawWeights(s.Kind, other)
				draws++
				if bad = judgeWeights(fmt.Sprintf("%s weights of the second, unedited object before draw %d of the first", s.Kind, i+2), wo, otherRows, other.Length(), c.Ali.Length()); bad != nil {
					return
				}
				classes = append(classes, "a draw for a second object in between")
			}
			w = drawWeights(s.Kind, al)
			draws++
			what := fmt.Sprintf("%s weights drawn again (draw %d) for the same object after the in-place edit %q (it had %d sites at the previous %s draw)", s.Kind, i+2, s.Op, before, prevKind)
			if bad = judgeWeights(what, w, rows, al.Length(), implied); bad != nil {
				return
			}
			prevKind = s.Kind
		}
	})
	if bad != nil {
		return o, bad
	}
	o.NonTrivial = changes > 0
	for _, k := range classes {
		o.Class("%s", k)
	}
	if stopped != "" {
		o.Class("%s", stopped)
	}
	o.Class("length changes between draws on one object: %d", changes)
	_ = draws
	return o, nil
}

func TestWeightsReuse(t *testing.T) { pbt.Run(t, genReuse, checkReuse) }
