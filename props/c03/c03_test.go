// C03 - Parsers terminate on every input with an error or a well-formed result
package c03

import (
	"bufio"
	"bytes"
	"encoding/json"
	"fmt"
	"io"
	"log"
	"os"
	"path/filepath"
	"regexp"
	"sort"
	"strconv"
	"strings"
	"testing"
	"time"

	"github.com/evolbioinfo/goalign/align"
	"github.com/evolbioinfo/goalign/io/clustal"
	"github.com/evolbioinfo/goalign/io/fasta"
	"github.com/evolbioinfo/goalign/io/nexus"
	"github.com/evolbioinfo/goalign/io/partition"
	"github.com/evolbioinfo/goalign/io/phylip"
	"github.com/evolbioinfo/goalign/io/stockholm"
	"github.com/evolbioinfo/goalign/io/utils"
	"pgregory.net/rapid"
	"verif/internal/cli"
	"verif/internal/gen"
	"verif/internal/pbt"
)

func TestMain(m *testing.M) {
	log.SetOutput(io.Discard)
	// the nexus parser prints warnings about unsupported blocks on stderr: silence them, the
	// driver keeps the output of every process
	coordinator := os.Getenv("VERIF_FUZZ") != ""
	for _, a := range os.Args {
		if strings.HasPrefix(a, "-test.fuzzworker") {
			coordinator = false
		}
	}
	// (the fuzzing coordinator reports its progress on stderr: keep it there)
	if os.Getenv("VERIF_KEEP_STDERR") == "" && !coordinator {
		if devnull, err := os.OpenFile(os.DevNull, os.O_WRONLY, 0); err == nil {
			realStderr = os.Stderr
			os.Stderr = devnull
		}
	}
	pbt.Main(m, "C03")
}

var realStderr *os.File

// ---- the case ------------------------------------------------------------------------------

// pcase is one parser call. Data is stored as bytes (base64 in JSON); Text is a readable
// rendering kept for the human reader of a replay file and never used.
type pcase struct {
	Target   string   `json:"target"`
	Data     []byte   `json:"data"`
	Text     string   `json:"text"`
	Ignore   int      `json:"ignore"`   // align.IGNORE_NONE / IGNORE_NAME / IGNORE_SEQUENCE
	Alphabet int      `json:"alphabet"` // align.BOTH / NUCLEOTIDS / AMINOACIDS
	PartLen  int      `json:"partlen"`  // declared alignment length for the partition parser
	Muts     []string `json:"mutations"`
}

const (
	tFasta        = "fasta"
	tFastaUnalign = "fasta-unalign"
	tPhylip       = "phylip"
	tPhylipStrict = "phylip-strict"
	tPhylipMulti  = "phylip-multi"
	tPhylipMultiS = "phylip-multi-strict"
	tNexus        = "nexus"
	tClustal      = "clustal"
	tStockholm    = "stockholm"
	tPartition    = "partition"
	tAuto         = "auto"
	tAutoStrict   = "auto-strict"
)

// first-token messages: a parser that stops there did not look at the body (trivial case)
var firstTokenMsg = map[string][]string{
	tFasta:        {"fasta file should start with a >"},
	tFastaUnalign: {"fasta file should start with a >"},
	tPhylip:       {"Phylip file must begin with the number of sequences"},
	tPhylipStrict: {"Phylip file must begin with the number of sequences"},
	tPhylipMulti:  {"Phylip file must begin with the number of sequences"},
	tPhylipMultiS: {"Phylip file must begin with the number of sequences"},
	tNexus:        {"expected #NEXUS"},
	tClustal:      {"must start with 'CLUSTAL'"},
	tStockholm:    {"expected # STOCKHOLM 1.0"},
	tPartition:    {"Partition should start with a Model name"},
	tAuto:         {"fasta file should start with a >", "Phylip file must begin with the number of sequences", "expected #NEXUS", "must start with 'CLUSTAL'"},
	tAutoStrict:   {"fasta file should start with a >", "Phylip file must begin with the number of sequences", "expected #NEXUS", "must start with 'CLUSTAL'"},
}

// hasLoneCR: a carriage return that is not followed by a line feed. The Phylip and Clustal
// lexers answer it with io.ExitWithMessage (message on stderr, exit status 1): an explicit
// error report for a command-line user, which would end an in-process campaign. Those
// inputs are screened out for these two formats (counted as outside_domain_skipped); the
// command-line tier (TestCLI) keeps them.
func hasLoneCR(b []byte) bool {
	for i, c := range b {
		if c == '\r' && (i+1 >= len(b) || b[i+1] != '\n') {
			return true
		}
	}
	return false
}

func screened(c pcase) bool {
	switch c.Target {
	case tPhylip, tPhylipStrict, tPhylipMulti, tPhylipMultiS, tClustal:
		return hasLoneCR(c.Data)
	case tAuto, tAutoStrict:
		// sniffed by the first byte: everything but '>' and '#' goes to Clustal or Phylip
		if len(c.Data) > 0 && c.Data[0] != '>' && c.Data[0] != '#' {
			return hasLoneCR(c.Data)
		}
	}
	return false
}

// ---- the oracle: a validity predicate on the outcome -------------------------------------

type outcome struct {
	aligns   []align.Alignment // alignments returned (one, or the stream)
	bag      align.SeqBag      // ParseUnalign
	ps       *align.PartitionSet
	endOfStr bool // Phylip: (nil, nil)
	err      error
	panicked string
}

func ignoreOf(c pcase) int {
	switch c.Ignore {
	case align.IGNORE_NAME, align.IGNORE_SEQUENCE:
		return c.Ignore
	}
	return align.IGNORE_NONE
}

func alphabetOf(c pcase) int {
	switch c.Alphabet {
	case align.NUCLEOTIDS, align.AMINOACIDS:
		return c.Alphabet
	}
	return align.BOTH
}

// call runs the real parser. Everything that may never return is inside pbt.Guarded.
func call(c pcase) (out outcome) {
	r := bytes.NewReader(c.Data)
	ign, alp := ignoreOf(c), alphabetOf(c)
	switch c.Target {
	case tFasta:
		al, err := fasta.NewParser(r).IgnoreIdentical(ign).Alphabet(alp).Parse()
		out.err = err
		if err == nil {
			out.aligns = []align.Alignment{al}
		}
	case tFastaUnalign:
		sb, err := fasta.NewParser(r).IgnoreIdentical(ign).Alphabet(alp).ParseUnalign()
		out.err = err
		if err == nil {
			out.bag = sb
		}
	case tPhylip, tPhylipStrict:
		al, err := phylip.NewParser(r, c.Target == tPhylipStrict).IgnoreIdentical(ign).Alphabet(alp).Parse()
		out.err = err
		if err == nil {
			if al == nil {
				out.endOfStr = true
			} else {
				out.aligns = []align.Alignment{al}
			}
		}
	case tPhylipMulti, tPhylipMultiS:
		ch := &align.AlignChannel{Achan: make(chan align.Alignment, 4)}
		done := make(chan string, 1)
		go func() {
			defer func() {
				if rec := recover(); rec != nil {
					done <- fmt.Sprint(rec)
					// the parser closes the channel itself on a normal return only
					defer func() { recover() }()
					close(ch.Achan)
					return
				}
				done <- ""
			}()
			phylip.NewParser(r, c.Target == tPhylipMultiS).IgnoreIdentical(ign).Alphabet(alp).ParseMultiple(ch)
		}()
		for al := range ch.Achan {
			out.aligns = append(out.aligns, al)
			if len(out.aligns) > 100000 {
				out.panicked = "more than 100000 alignments from one stream"
				break
			}
		}
		if p := <-done; p != "" {
			out.panicked = p
		}
		out.err = ch.Err
		if out.err == nil && len(out.aligns) == 0 {
			out.endOfStr = true
		}
	case tNexus:
		al, err := nexus.NewParser(r).IgnoreIdentical(ign).Alphabet(alp).Parse()
		out.err = err
		if err == nil {
			out.aligns = []align.Alignment{al}
		}
	case tClustal:
		al, err := clustal.NewParser(r).IgnoreIdentical(ign).Alphabet(alp).Parse()
		out.err = err
		if err == nil {
			out.aligns = []align.Alignment{al}
		}
	case tStockholm:
		al, err := stockholm.NewParser(r).IgnoreIdentical(ign).Alphabet(alp).Parse()
		out.err = err
		if err == nil {
			out.aligns = []align.Alignment{al}
		}
	case tPartition:
		ps, err := partition.NewParser(r).Parse(c.PartLen)
		out.err = err
		if err == nil {
			out.ps = ps
		}
	case tAuto, tAutoStrict:
		al, _, err := utils.ParseAlignmentAuto(bufio.NewReader(r), c.Target == tAutoStrict)
		out.err = err
		if err == nil {
			if al == nil {
				out.endOfStr = true
			} else {
				out.aligns = []align.Alignment{al}
			}
		}
	default:
		panic("harness: unknown target " + c.Target)
	}
	return
}

// wellFormed: non-empty, rectangular, pairwise distinct names, consistent through the
// access paths
func wellFormed(al align.Alignment) error {
	if al == nil {
		return fmt.Errorf("success with a nil alignment")
	}
	n, l := al.NbSequences(), al.Length()
	if n < 1 {
		return fmt.Errorf("success with an alignment of %d sequences", n)
	}
	if l < 1 {
		return fmt.Errorf("success with an alignment of length %d (%d sequences)", l, n)
	}
	seen := map[string]bool{}
	for i := 0; i < n; i++ {
		name, ok1 := al.GetSequenceNameById(i)
		s, ok2 := al.GetSequenceById(i)
		if !ok1 || !ok2 {
			return fmt.Errorf("row %d of %d cannot be read", i, n)
		}
		if len(s) != l {
			return fmt.Errorf("ragged alignment: row %d (%q) has %d residues, Length() = %d", i, name, len(s), l)
		}
		if seen[name] {
			return fmt.Errorf("two rows are named %q", name)
		}
		seen[name] = true
	}
	return nil
}

var reInt = regexp.MustCompile(`^[+-]?[0-9]+$`)

// phylipHeader reads the counts declared by the first non-blank line, independently
func phylipHeader(data []byte) (n, l int64, ok bool) {
	for _, line := range strings.FieldsFunc(string(data), func(r rune) bool { return r == '\n' || r == '\r' }) {
		f := strings.FieldsFunc(line, func(r rune) bool { return r == ' ' || r == '\t' })
		if len(f) == 0 {
			continue
		}
		if len(f) < 2 || !reInt.MatchString(f[0]) || !reInt.MatchString(f[1]) {
			return 0, 0, false
		}
		a, e1 := strconv.ParseInt(f[0], 10, 64)
		b, e2 := strconv.ParseInt(f[1], 10, 64)
		if e1 != nil || e2 != nil {
			return 0, 0, false
		}
		return a, b, true
	}
	return 0, 0, false
}

var reBegin = regexp.MustCompile(`(?i)^begin\s+([a-z]+)$`)
var reDims = regexp.MustCompile(`(?i)^dimensions((?:\s+(?:ntax|nchar)\s*=\s*[0-9]+)+)$`)
var reDim = regexp.MustCompile(`(?i)(ntax|nchar)\s*=\s*([0-9]+)`)

// nexusDims reads NTAX / NCHAR with a small independent reader of the command structure,
// and only when the text states them unambiguously: no comment bracket anywhere (a comment
// may hide or fake a declaration), only TAXA / DATA / CHARACTERS blocks, exactly one
// DATA or CHARACTERS block, and DIMENSIONS commands of the plain form
// "DIMENSIONS [NTAX=n] [NCHAR=m]". Anything else is left unjudged (counted as ambiguous).
// nexusTaxLabels reads the names declared by the TAXLABELS command of a TAXA block, under
// the same restrictions as nexusDims (no comment bracket, known blocks only); ok is false
// when the text has no such command or more than one
// nexusPlain tells whether the independent Nexus readers below may judge the text: no comment
// bracket, no NUL and no other control character (vertical tab, form feed ...: a regular
// expression or a word splitter may take them for blanks where goalign's lexer takes them for
// letters, and "the declaration" is then not the same text for the two readers). Words are
// split on the four ASCII blanks only (asciiFields), so multi-byte characters - among them the
// Unicode spaces that strings.Fields would split on - stay inside their word, as for the lexer
func asciiFields(s string) []string {
	return strings.FieldsFunc(s, func(r rune) bool { return r == ' ' || r == '\t' || r == '\n' || r == '\r' })
}

func nexusPlain(s string) bool {
	for i := 0; i < len(s); i++ {
		c := s[i]
		if c == '[' || c == ']' || c == 0x7f || (c < 0x20 && c != '\t' && c != '\n' && c != '\r') {
			return false
		}
	}
	return true
}

func nexusTaxLabels(data []byte) (labels []string, ok bool) {
	s := string(data)
	if !nexusPlain(s) {
		return nil, false
	}
	block := ""
	n := 0
	for i, cmd := range strings.Split(s, ";") {
		cmd = strings.Join(asciiFields(cmd), " ")
		// the magic word heads the first command only; anywhere else it names an unknown command
		if i == 0 && len(cmd) >= 6 && strings.EqualFold(cmd[:6], "#NEXUS") {
			cmd = strings.TrimSpace(cmd[6:])
		}
		low := strings.ToLower(cmd)
		if m := reBegin.FindStringSubmatch(cmd); m != nil {
			block = strings.ToLower(m[1])
			switch block {
			case "data", "characters", "taxa":
			default:
				// an unknown block is skipped up to its END, with whatever it holds
				return nil, false
			}
			continue
		}
		if strings.HasPrefix(low, "begin") {
			return nil, false
		}
		if low == "end" || low == "endblock" {
			block = ""
			continue
		}
		if block == "taxa" && (low == "taxlabels" || strings.HasPrefix(low, "taxlabels ")) {
			n++
			labels = asciiFields(cmd)[1:]
		} else if strings.Contains(low, "taxlabels") {
			return nil, false
		}
	}
	return labels, n == 1
}

func nexusDims(data []byte) (ntax, nchar int64, okTax, okChar bool) {
	s := string(data)
	if !nexusPlain(s) {
		return
	}
	block := ""
	ndata := 0
	taxaNtax := int64(-1)
	dataNtax, dataNchar := int64(-1), int64(-1)
	for i, cmd := range strings.Split(s, ";") {
		cmd = strings.Join(asciiFields(cmd), " ")
		// the magic word is not followed by a semicolon: it heads the first command (and only
		// that one: anywhere else "#NEXUS ..." is an unknown command, skipped with its arguments)
		if i == 0 && len(cmd) >= 6 && strings.EqualFold(cmd[:6], "#NEXUS") {
			cmd = strings.TrimSpace(cmd[6:])
		}
		low := strings.ToLower(cmd)
		if m := reBegin.FindStringSubmatch(cmd); m != nil {
			block = strings.ToLower(m[1])
			switch block {
			case "data", "characters":
				ndata++
			case "taxa":
			default:
				return 0, 0, false, false
			}
			continue
		}
		if strings.HasPrefix(low, "begin") {
			return 0, 0, false, false
		}
		if low == "end" || low == "endblock" {
			block = ""
			continue
		}
		if strings.Contains(low, "dimensions") || strings.Contains(low, "ntax") || strings.Contains(low, "nchar") {
			m := reDims.FindStringSubmatch(cmd)
			if m == nil || block == "" {
				return 0, 0, false, false
			}
			for _, d := range reDim.FindAllStringSubmatch(m[1], -1) {
				v, err := strconv.ParseInt(d[2], 10, 64)
				if err != nil {
					return 0, 0, false, false
				}
				switch {
				case strings.EqualFold(d[1], "ntax") && block == "taxa":
					if taxaNtax >= 0 && taxaNtax != v {
						return 0, 0, false, false
					}
					taxaNtax = v
				case strings.EqualFold(d[1], "ntax"):
					if dataNtax >= 0 && dataNtax != v {
						return 0, 0, false, false
					}
					dataNtax = v
				case block != "taxa":
					if dataNchar >= 0 && dataNchar != v {
						return 0, 0, false, false
					}
					dataNchar = v
				default:
					return 0, 0, false, false
				}
			}
		}
	}
	if ndata != 1 {
		return 0, 0, false, false
	}
	if dataNchar >= 0 {
		nchar, okChar = dataNchar, true
	}
	switch {
	case dataNtax >= 0 && taxaNtax >= 0 && dataNtax != taxaNtax:
	case dataNtax >= 0:
		ntax, okTax = dataNtax, true
	case taxaNtax >= 0:
		ntax, okTax = taxaNtax, true
	}
	return
}

// blankStream: nothing but blanks before the end of the stream. The lexers of this code base
// use rune(0) as their end-of-file value, so a NUL byte ends the stream for them; the
// statement does not say otherwise, so the end-of-stream marker is accepted there (counted
// as ambiguous when a NUL is what ended the stream).
func blankStream(b []byte) (blank, byNUL bool) {
	if i := bytes.IndexByte(b, 0); i >= 0 {
		return len(bytes.TrimSpace(b[:i])) == 0, true
	}
	return len(bytes.TrimSpace(b)) == 0, false
}

func trivialError(c pcase, err error) bool {
	for _, m := range firstTokenMsg[c.Target] {
		if strings.Contains(err.Error(), m) {
			return true
		}
	}
	return false
}

func errClass(err error) string {
	s := err.Error()
	// keep the message family, drop the variable part
	if i := strings.IndexAny(s, ":(%\"0123456789"); i > 12 {
		s = s[:i]
	}
	if len(s) > 48 {
		s = s[:48]
	}
	return strings.TrimSpace(s)
}

func checkParse(c pcase) (o pbt.Outcome, err error) {
	if screened(c) {
		o.Skip = true
		return o, nil
	}
	var out outcome
	pbt.Guarded("Test"+testOf(c.Target), c, pbt.WatchdogLimit(10*time.Second), func() {
		out = call(c)
	})
	o.Class("target=%s", c.Target)
	for _, m := range c.Muts {
		o.Class("mut=%s", m)
	}
	if out.panicked != "" {
		return o, fmt.Errorf("%s parser panicked: %s", c.Target, out.panicked)
	}
	if out.err != nil {
		if strings.TrimSpace(out.err.Error()) == "" {
			return o, fmt.Errorf("%s parser failed with an empty error message", c.Target)
		}
		o.NonTrivial = !trivialError(c, out.err)
		o.Class("%s: error: %s", c.Target, errClass(out.err))
		// a stream may have delivered alignments before the error: they must be well formed too
		for i, al := range out.aligns {
			if e := wellFormed(al); e != nil {
				return o, fmt.Errorf("%s: alignment %d delivered before the error %q: %v", c.Target, i, out.err, e)
			}
		}
		return o, nil
	}
	// success
	o.NonTrivial = true
	switch {
	case out.endOfStr:
		switch c.Target {
		case tPhylip, tPhylipStrict, tPhylipMulti, tPhylipMultiS, tAuto, tAutoStrict:
			// the end-of-stream marker is only legitimate when the stream holds nothing
			blank, byNUL := blankStream(c.Data)
			if !blank {
				return o, fmt.Errorf("%s: end-of-stream marker (no alignment, no error) on a non-blank input", c.Target)
			}
			if byNUL {
				o.Ambiguous++
			}
			o.NonTrivial = false
			o.Class("%s: end of stream", c.Target)
			return o, nil
		}
		return o, fmt.Errorf("%s: success without a result", c.Target)
	case out.bag != nil:
		n := out.bag.NbSequences()
		if n < 1 {
			return o, fmt.Errorf("ParseUnalign: success with %d sequences", n)
		}
		seen := map[string]bool{}
		for i := 0; i < n; i++ {
			name, _ := out.bag.GetSequenceNameById(i)
			if seen[name] {
				return o, fmt.Errorf("ParseUnalign: two sequences are named %q", name)
			}
			seen[name] = true
			// a record without residues is refused by the reader (an entry with a name and no
			// sequence is an error): success never comes with an empty sequence
			if s, _ := out.bag.GetSequenceById(i); len(s) == 0 {
				return o, fmt.Errorf("ParseUnalign: success with an empty sequence %q", name)
			}
		}
		o.Class("%s: ok", c.Target)
		return o, nil
	case out.ps != nil:
		ps := out.ps
		if ps.AliLength() != c.PartLen {
			return o, fmt.Errorf("partition: AliLength() = %d, declared %d", ps.AliLength(), c.PartLen)
		}
		np := ps.NPartitions()
		used := make([]bool, np)
		for i := 0; i < c.PartLen; i++ {
			p := ps.Partition(i)
			if p < -1 || p >= np {
				return o, fmt.Errorf("partition: site %d is in partition %d, there are %d partitions", i, p, np)
			}
			if p >= 0 {
				used[p] = true
			}
		}
		for _, i := range []int{-1, c.PartLen, c.PartLen + 1} {
			if p := ps.Partition(i); p != -1 {
				return o, fmt.Errorf("partition: site %d outside the declared length %d is in partition %d", i, c.PartLen, p)
			}
		}
		for p := 0; p < np; p++ {
			if ps.PartitionName(p) == "" && ps.ModeleName(p) == "" {
				return o, fmt.Errorf("partition %d has neither a name nor a model", p)
			}
		}
		// the map is the one the text declares, whenever the text is of the plain form that the
		// small independent reader below understands (otherwise: not judged, counted)
		if want, ok := partitionModel(c.Data, c.PartLen); ok {
			for i := 0; i < c.PartLen; i++ {
				got := ""
				if p := ps.Partition(i); p >= 0 {
					got = ps.PartitionName(p)
				}
				if got != want[i] {
					return o, fmt.Errorf("partition: site %d (0-based) is in partition %q, the text puts it in %q", i, got, want[i])
				}
			}
			o.Class("%s: ok, map compared with the text", c.Target)
		} else {
			o.Ambiguous++
		}
		o.Class("%s: ok", c.Target)
		return o, nil
	}
	if len(out.aligns) == 0 {
		return o, fmt.Errorf("%s: success without a result", c.Target)
	}
	for i, al := range out.aligns {
		if e := wellFormed(al); e != nil {
			return o, fmt.Errorf("%s (alignment %d of %d): %v", c.Target, i, len(out.aligns), e)
		}
	}
	// counts declared by the header
	al := out.aligns[0]
	isPhylip := strings.HasPrefix(c.Target, "phylip") || ((c.Target == tAuto || c.Target == tAutoStrict) && len(c.Data) > 0 && c.Data[0] != '>' && c.Data[0] != '#' && c.Data[0] != 'C')
	isNexus := c.Target == tNexus || ((c.Target == tAuto || c.Target == tAutoStrict) && len(c.Data) > 0 && c.Data[0] == '#')
	if isPhylip {
		n, l, ok := phylipHeader(c.Data)
		if !ok && bytes.IndexByte(c.Data, 0) >= 0 {
			// a NUL byte is the lexers' end-of-file value: it ends or is dropped from the
			// token it falls in; what the header "declares" is then open - not judged
			o.Ambiguous++
			o.Class("%s: ok", c.Target)
			return o, nil
		}
		if !ok {
			return o, fmt.Errorf("%s: success although the first non-blank line does not declare two integer counts", c.Target)
		}
		if int64(al.Length()) != l {
			return o, fmt.Errorf("%s: header declares length %d, alignment has length %d", c.Target, l, al.Length())
		}
		if ignoreOf(c) == align.IGNORE_NONE {
			if int64(al.NbSequences()) != n {
				return o, fmt.Errorf("%s: header declares %d sequences, alignment has %d", c.Target, n, al.NbSequences())
			}
		} else if int64(al.NbSequences()) > n {
			return o, fmt.Errorf("%s: header declares %d sequences, alignment has %d", c.Target, n, al.NbSequences())
		}
	}
	if isNexus {
		ntax, nchar, okT, okC := nexusDims(c.Data)
		if okC && int64(al.Length()) != nchar {
			return o, fmt.Errorf("nexus: NCHAR=%d declared, alignment has length %d", nchar, al.Length())
		}
		if okT {
			if ignoreOf(c) == align.IGNORE_NONE && int64(al.NbSequences()) != ntax || int64(al.NbSequences()) > ntax {
				return o, fmt.Errorf("nexus: NTAX=%d declared, alignment has %d sequences", ntax, al.NbSequences())
			}
		}
		if !okC || !okT {
			o.Ambiguous++
		}
		// a TAXLABELS command declares the taxa: the rows must be exactly those (the
		// duplicate-dropping policies and renamed duplicates aside)
		if labels, ok := nexusTaxLabels(c.Data); ok && ignoreOf(c) == align.IGNORE_NONE {
			declared := map[string]bool{}
			dup := false
			for _, l := range labels {
				if declared[l] {
					dup = true
				}
				declared[l] = true
			}
			if !dup {
				have := map[string]bool{}
				for i := 0; i < al.NbSequences(); i++ {
					name, _ := al.GetSequenceNameById(i)
					have[name] = true
					if !declared[name] {
						return o, fmt.Errorf("nexus: row %q is not among the declared TAXLABELS %v", name, labels)
					}
				}
				for l := range declared {
					if !have[l] {
						return o, fmt.Errorf("nexus: declared taxon %q has no row (TAXLABELS %v, %d rows)", l, labels, al.NbSequences())
					}
				}
			}
		}
	}
	o.Class("%s: ok", c.Target)
	if len(out.aligns) > 1 {
		o.Class("%s: ok, several alignments", c.Target)
	}
	return o, nil
}

var rePartLine = regexp.MustCompile(`^([A-Za-z][A-Za-z0-9_]*),([A-Za-z][A-Za-z0-9_]*)=([0-9,/-]+)$`)
var rePartRange = regexp.MustCompile(`^([0-9]{1,9})(?:-([0-9]{1,9}))?(?:/([0-9]{1,9}))?$`)

// partitionModel reads a partition text of the plain form "MODEL,name=a-b/k,c,d-e" (one
// definition per line, 1-based inclusive ranges with an optional stride, names distinct from
// line to line) and returns the name of the partition of every site ("" = none). ok is false for
// anything else: other characters, a range outside 1..length or backwards, a site given twice,
// a name defined on two lines - what the parser should do there is the business of the error
// clauses, not of this comparison.
func partitionModel(data []byte, length int) (sites []string, ok bool) {
	if length < 1 || length > 100000 {
		return nil, false
	}
	sites = make([]string, length)
	names := map[string]bool{}
	text := strings.TrimRight(string(data), "\n")
	if text == "" {
		return nil, false
	}
	for _, line := range strings.Split(text, "\n") {
		m := rePartLine.FindStringSubmatch(line)
		if m == nil || names[m[2]] {
			return nil, false
		}
		names[m[2]] = true
		for _, r := range strings.Split(m[3], ",") {
			q := rePartRange.FindStringSubmatch(r)
			if q == nil {
				return nil, false
			}
			a, _ := strconv.Atoi(q[1])
			b, k := a, 1
			if q[2] != "" {
				b, _ = strconv.Atoi(q[2])
			}
			if q[3] != "" {
				k, _ = strconv.Atoi(q[3])
			}
			if a < 1 || b > length || a > b || k < 1 {
				return nil, false
			}
			for i := a; i <= b; i += k {
				if sites[i-1] != "" {
					return nil, false
				}
				sites[i-1] = m[2]
			}
		}
	}
	return sites, true
}

// testOf maps a target to the test function that replays its cases
func testOf(target string) string {
	switch target {
	case tFasta, tFastaUnalign:
		return "Fasta"
	case tPhylip, tPhylipStrict, tPhylipMulti, tPhylipMultiS:
		return "Phylip"
	case tNexus:
		return "Nexus"
	case tClustal:
		return "Clustal"
	case tStockholm:
		return "Stockholm"
	case tPartition:
		return "Partition"
	}
	return "Auto"
}

// ---- generator: valid files from independent emitters, then structure-aware mutation ------

func render(b []byte) string {
	s := strconv.Quote(string(b))
	if len(s) > 1200 {
		s = s[:1200] + "…"
	}
	return s
}

func genAli(t *rapid.T) gen.Ali {
	chars := "ACGT-"
	alpha := "nt"
	switch rapid.IntRange(0, 5).Draw(t, "alpha") {
	case 0:
		chars = gen.AA20 + "-X*"
		alpha = "aa"
	case 1:
		chars = gen.BothCases(gen.IUPAC) + "-?."
	}
	n := rapid.IntRange(1, 5).Draw(t, "rows")
	l := rapid.SampledFrom([]int{1, 2, 3, 5, 9, 10, 11, 20, 49, 50, 51, 59, 60, 61, 79, 80, 81, 120}).Draw(t, "L")
	a := gen.Ali{Alphabet: alpha}
	for i := 0; i < n; i++ {
		a.Rows = append(a.Rows, gen.Row{Name: genName(t, i), Seq: gen.SeqN(t, chars, l)})
	}
	// rare but legal text: valid multi-byte characters inside the residues, at the same
	// columns of every row so that the rows keep one byte length and the file reaches the
	// alphabet detection (short rows only: no line wrap can cut a character)
	if rapid.IntRange(0, 7).Draw(t, "multibyte") == 0 {
		lr := rapid.IntRange(1, 4).Draw(t, "Lrunes")
		ncol := rapid.IntRange(1, lr).Draw(t, "mbcols")
		cols := map[int]bool{}
		for k := 0; k < ncol; k++ {
			cols[rapid.IntRange(0, lr-1).Draw(t, "mbcol")] = true
		}
		for i := range a.Rows {
			var sb strings.Builder
			for j := 0; j < lr; j++ {
				if cols[j] {
					sb.WriteRune(twoByteRune(t))
				} else {
					sb.WriteByte(chars[rapid.IntRange(0, len(chars)-1).Draw(t, "c")])
				}
			}
			a.Rows[i].Seq = sb.String()
		}
	}
	return a
}

// twoByteRune draws a character encoded on two bytes: the Latin-1 supplement (whose second
// byte covers 0xA1..0xBF and, after 0xC3, 0x80..0xBF), Latin Extended-A and Greek
func twoByteRune(t *rapid.T) rune {
	switch rapid.IntRange(0, 3).Draw(t, "mbrange") {
	case 0:
		return rune(rapid.IntRange(0xA1, 0xFF).Draw(t, "latin1"))
	case 1:
		return rune(rapid.IntRange(0x100, 0x17F).Draw(t, "latinA"))
	case 2:
		return rune(rapid.IntRange(0x370, 0x3FF).Draw(t, "greek"))
	}
	return rune(rapid.SampledFrom([]int{0xB5, 0xF5, 0x135, 0x175, 0xB7, 0xFF, 0xDF}).Draw(t, "mbspecial"))
}

var nameDict = []string{"7", "0001", "x_0001", "end", "END", "matrix", "data", "gap", "clustal", "CLUSTAL", "stockholm", "taxa", "begin", "a.b|c", "tenletters", "elevenchars", "'", "'q'", "\"", "(x)", "{", "a:b", "q'"}

// collisionPool: names that meet the suffix the duplicate-name policy appends (x, x_0001, ...)
var collisionPool = []string{"a", "a_0001", "a_0002", "a", "b", "b_0001"}

func genName(t *rapid.T, i int) string {
	switch rapid.IntRange(0, 6).Draw(t, "namekind") {
	case 6:
		return collisionPool[rapid.IntRange(0, len(collisionPool)-1).Draw(t, "pool")]
	case 0:
		return nameDict[rapid.IntRange(0, len(nameDict)-1).Draw(t, "dict")] + fmt.Sprint(i)
	case 1:
		return nameDict[rapid.IntRange(0, len(nameDict)-1).Draw(t, "dict")]
	}
	return fmt.Sprintf("s%d", i)
}

func emitFasta(a gen.Ali, width int) string {
	var sb strings.Builder
	for _, r := range a.Rows {
		sb.WriteString(">" + r.Name + "\n")
		for i := 0; i < len(r.Seq); i += width {
			e := i + width
			if e > len(r.Seq) {
				e = len(r.Seq)
			}
			sb.WriteString(r.Seq[i:e] + "\n")
		}
	}
	return sb.String()
}

func padName(n string, strict bool) string {
	if strict {
		if len(n) > 10 {
			n = n[:10]
		}
		return n + strings.Repeat(" ", 10-len(n))
	}
	return n + "  "
}

func emitPhylip(a gen.Ali, strict, interleaved bool, width int) string {
	var sb strings.Builder
	l := a.Length()
	fmt.Fprintf(&sb, "   %d   %d\n", len(a.Rows), l)
	if !interleaved {
		width = l
	}
	for start := 0; start < l; start += width {
		e := start + width
		if e > l {
			e = l
		}
		for _, r := range a.Rows {
			if start == 0 {
				sb.WriteString(padName(r.Name, strict))
			}
			chunk := r.Seq[start:e]
			// blocks of ten
			for i := 0; i < len(chunk); i += 10 {
				f := i + 10
				if f > len(chunk) {
					f = len(chunk)
				}
				if i > 0 {
					sb.WriteString(" ")
				}
				sb.WriteString(chunk[i:f])
			}
			sb.WriteString("\n")
		}
		if e < l {
			sb.WriteString("\n")
		}
	}
	return sb.String()
}

func emitNexus(t *rapid.T, a gen.Ali) string {
	var sb strings.Builder
	sb.WriteString("#NEXUS\n")
	if rapid.Bool().Draw(t, "comment") {
		sb.WriteString("[a comment; with = tokens]\n")
	}
	if rapid.Bool().Draw(t, "taxa") {
		fmt.Fprintf(&sb, "BEGIN TAXA;\n DIMENSIONS NTAX=%d;\n TAXLABELS", len(a.Rows))
		for _, r := range a.Rows {
			sb.WriteString(" " + r.Name)
		}
		sb.WriteString(";\nEND;\n")
	}
	block := "DATA"
	if rapid.Bool().Draw(t, "characters") {
		block = "CHARACTERS"
	}
	dt := "dna"
	if a.Alphabet == "aa" {
		dt = "protein"
	}
	// the symbols of the FORMAT command: usually the common ones, sometimes other single
	// characters, sometimes a character of several bytes (which the rows then contain; NCHAR
	// is the length of the rows as written, in bytes)
	gapsym, missym := "-", "?"
	switch rapid.IntRange(0, 7).Draw(t, "symbols") {
	case 0:
		gapsym, missym = "~", "!"
	case 1:
		gapsym = rapid.SampledFrom([]string{"·", "µ", "—", "é"}).Draw(t, "gapsym")
	case 2:
		missym = rapid.SampledFrom([]string{"·", "µ", "¿"}).Draw(t, "missym")
	}
	if gapsym != "-" || missym != "?" {
		b := gen.Ali{Alphabet: a.Alphabet}
		// half of the time the symbols sit in whole columns, so that every row holds them
		// equally often and the rows keep one length even when a symbol takes several bytes
		columnwise := rapid.Bool().Draw(t, "symbolcolumns")
		col1 := rapid.IntRange(0, a.Length()-1).Draw(t, "gapcolumn")
		col2 := rapid.IntRange(0, a.Length()-1).Draw(t, "missingcolumn")
		for _, r := range a.Rows {
			seq := r.Seq
			if columnwise {
				raw := []byte(strings.NewReplacer("-", "A", "?", "A").Replace(seq))
				raw[col1] = '-'
				if col2 != col1 {
					raw[col2] = '?'
				}
				seq = string(raw)
			}
			b.Rows = append(b.Rows, gen.Row{Name: r.Name, Seq: strings.NewReplacer("-", gapsym, "?", missym).Replace(seq)})
		}
		// rows keep one length only if every row holds the symbols equally often: when they do
		// not, the file is simply one more malformed input
		a = b
	}
	fmt.Fprintf(&sb, "BEGIN %s;\nDIMENSIONS NTAX=%d NCHAR=%d;\nFORMAT DATATYPE=%s GAP=%s MISSING=%s;\nMATRIX\n", block, len(a.Rows), a.Length(), dt, gapsym, missym)
	if rapid.Bool().Draw(t, "interleave") && a.Length() > 4 {
		// (rows may differ in byte length after a symbol replacement: cut each at its own half)
		for _, r := range a.Rows {
			sb.WriteString(r.Name + " " + r.Seq[:len(r.Seq)/2] + "\n")
		}
		sb.WriteString("\n")
		for _, r := range a.Rows {
			sb.WriteString(r.Name + " " + r.Seq[len(r.Seq)/2:] + "\n")
		}
	} else {
		for _, r := range a.Rows {
			sb.WriteString(r.Name + " " + r.Seq + "\n")
		}
	}
	sb.WriteString(";\nEND;\n")
	if rapid.Bool().Draw(t, "trees") {
		sb.WriteString("BEGIN TREES;\n TREE t = (a,b);\nEND;\n")
	}
	return sb.String()
}

func emitClustal(t *rapid.T, a gen.Ali) string {
	var sb strings.Builder
	sb.WriteString("CLUSTAL W (1.83) multiple sequence alignment\n\n")
	l := a.Length()
	counts := rapid.Bool().Draw(t, "counts")
	for start := 0; start < l; start += 50 {
		e := start + 50
		if e > l {
			e = l
		}
		for _, r := range a.Rows {
			fmt.Fprintf(&sb, "%-16s%s", r.Name, r.Seq[start:e])
			if counts {
				fmt.Fprintf(&sb, " %d", e)
			}
			sb.WriteString("\n")
		}
		sb.WriteString(strings.Repeat(" ", 16) + strings.Repeat("*", e-start) + "\n\n")
	}
	return sb.String()
}

func emitStockholm(t *rapid.T, a gen.Ali) string {
	var sb strings.Builder
	sb.WriteString("# STOCKHOLM 1.0\n")
	if rapid.Bool().Draw(t, "gf") {
		sb.WriteString("#=GF ID   Piwi\n#=GF AU   Bateman A;0000-0002-6982-4660\n")
	}
	for _, r := range a.Rows {
		if rapid.IntRange(0, 3).Draw(t, "gs") == 0 {
			sb.WriteString("#=GS " + r.Name + " AC P12345\n")
		}
		sb.WriteString(r.Name + "   " + strings.ReplaceAll(r.Seq, "-", ".") + "\n")
	}
	if rapid.Bool().Draw(t, "gc") {
		sb.WriteString("#=GC SS_cons " + strings.Repeat("x", a.Length()) + "\n")
	}
	sb.WriteString("//\n")
	return sb.String()
}

func emitPartition(t *rapid.T, l int) string {
	var sb strings.Builder
	np := rapid.IntRange(1, 4).Draw(t, "nparts")
	switch rapid.IntRange(0, 2).Draw(t, "pkind") {
	case 0: // contiguous blocks
		start := 1
		for p := 0; p < np && start <= l; p++ {
			end := l
			if p < np-1 {
				end = rapid.IntRange(start, l).Draw(t, "end")
			}
			fmt.Fprintf(&sb, "M%d,p%d=%d-%d\n", p, p, start, end)
			start = end + 1
		}
	case 1: // codon positions
		for p := 0; p < 3 && p < l; p++ {
			fmt.Fprintf(&sb, "GTR,codon%d=%d-%d/3\n", p+1, p+1, l)
		}
	default: // several intervals per partition
		fmt.Fprintf(&sb, "JC,a=1-%d,%d\nK2P,b=%d-%d\n", max1(l/3), max1(l/3)+1, max1(l/3)+2, l)
	}
	// a backwards range (it addresses no site) under an existing name, with any stride, starting
	// inside or just past the declared length
	if rapid.IntRange(0, 4).Draw(t, "backwards") == 0 {
		text := strings.TrimRight(sb.String(), "\n")
		from := rapid.IntRange(1, l+2).Draw(t, "bfrom")
		to := rapid.IntRange(0, from).Draw(t, "bto")
		stride := rapid.SampledFrom([]string{"", "/1", "/2", "/3", "/7", "/9223372036854775807"}).Draw(t, "bstride")
		return fmt.Sprintf("%s,%d-%d%s\n", text, from, to, stride)
	}
	return sb.String()
}

func max1(x int) int {
	if x < 1 {
		return 1
	}
	return x
}

// static seeds in the style of the repository's tests (richer syntax than the emitters)
var staticSeeds = map[string][]string{
	"nexus": {
		"#NEXUS\nBEGIN TAXA;\n      TaxLabels fish frog snake mouse;\nEND;\n\nBEGIN CHARACTERS;\n      Dimensions NChar=20;\n      Format DataType=DNA;\n      Matrix\n        fish   ACATA GAGGG\n        fish   TACCT CTAAG\n\n        frog   ACATA GAGGG\n        frog   TACCT CTAAG\n\n        snake  ACATA GAGGG\n        snake  TACCT CTAAG\n\n        mouse  ACATA GAGGG\n        mouse  TACCT CTAAG\n;\nEND;\n",
		"#NEXUS\n[comment]\nbegin data;\ndimensions ntax=2 nchar=6;\nformat datatype=protein missing=? gap=- matchchar=.;\nmatrix\na ARND-?\nb .C..QE\n;\nend;\n",
		"#NEXUS\nBEGIN UNKNOWNBLOCK;\n something x=1 [c] y;\nEND;\nBEGIN DATA;\nDIMENSIONS NTAX=1 NCHAR=3;\nFORMAT DATATYPE=DNA INTERLEAVE=yes;\nMATRIX\nx ACG\n;\nEND;\n",
	},
	"stockholm": {
		"# STOCKHOLM 1.0\n#=GF ID   Piwi\n#=GF RN   [1]\n#=GF DR   INTERPRO; IPR003165;\nO16720_CAEEL/566-867   FYRDG.VSE\nQ21691_CAEEL/606-924   MFRDGaVND\n#=GC seq_cons          hhRDGhspt\n//\n",
	},
	"clustal": {
		"CLUSTAL W (1.83) multiple sequence alignment\n\n1cms            --GEVASVPL\n4pep            ----IGDEPL\n                      . **\n\n1cms            TNYLDSQYFG\n4pep            ENYLDTEYFG\n                .****::***\n",
		"CLUSTAL O(1.2.4) multiple sequence alignment\n\n\nseq1      ACGT-ACGT 8\nseq2      ACGTTACGT 9\n          **** ****\n",
	},
	"phylip": {
		" 2 12\nseq1  ACGTACGTAC GT\nseq2  ACGTACGTAC GA\n",
		"2 6\na  ACG\nb  ACG\n\nTTT\nTTA\n",
		"1 3\nx AAA\n 1 2\ny CC\n",
	},
	"fasta": {
		">a desc\nACGT\nAC\n>b\nACGTAC\n",
		">a\nAC GT\n\n>b\nACGT\n",
	},
	"partition": {
		"GTR,p1=1-10\nJC,p2=11-20/2,12-20/2\n",
		"M,codon1=1-30/3\nM,codon2=2-30/3\nM,codon3=3-30/3\n",
	},
}

func familyOf(target string) string {
	switch target {
	case tFasta, tFastaUnalign:
		return "fasta"
	case tPhylip, tPhylipStrict, tPhylipMulti, tPhylipMultiS:
		return "phylip"
	case tNexus:
		return "nexus"
	case tClustal:
		return "clustal"
	case tStockholm:
		return "stockholm"
	case tPartition:
		return "partition"
	}
	return ""
}

var corpusCache = map[string][][]byte{}

// corpusFiles returns the committed corpus of a family (regressions and hostile inputs)
func corpusFiles(family string) [][]byte {
	if v, ok := corpusCache[family]; ok {
		return v
	}
	dir := os.Getenv("VERIF_DIR")
	if dir == "" {
		dir = "/verif"
	}
	files, _ := filepath.Glob(filepath.Join(dir, "corpus", family, "*"))
	sort.Strings(files)
	var out [][]byte
	for _, f := range files {
		if b, err := os.ReadFile(f); err == nil {
			out = append(out, b)
		}
	}
	corpusCache[family] = out
	return out
}

// validFile draws a valid file of the family (emitters, static seeds, corpus)
func validFile(t *rapid.T, family string, strict bool) (data []byte, declaredLen int) {
	k := rapid.IntRange(0, 9).Draw(t, "seedkind")
	if k == 0 && len(staticSeeds[family]) > 0 {
		s := staticSeeds[family]
		return []byte(s[rapid.IntRange(0, len(s)-1).Draw(t, "static")]), 30
	}
	if k == 1 {
		if cf := corpusFiles(family); len(cf) > 0 {
			return append([]byte{}, cf[rapid.IntRange(0, len(cf)-1).Draw(t, "corpus")]...), 30
		}
	}
	a := genAli(t)
	switch family {
	case "fasta":
		// names that differ from an earlier one by blanks at the end only (a FASTA header keeps
		// them: "a" and "a " are two names)
		if len(a.Rows) > 1 && rapid.IntRange(0, 5).Draw(t, "blankvariant") == 0 {
			j := rapid.IntRange(1, len(a.Rows)-1).Draw(t, "variantrow")
			a.Rows[j].Name = a.Rows[rapid.IntRange(0, j-1).Draw(t, "variantof")].Name + rapid.SampledFrom([]string{" ", "  "}).Draw(t, "blanksuffix")
		}
		return []byte(emitFasta(a, rapid.SampledFrom([]int{80, 60, 10, 1000}).Draw(t, "width"))), a.Length()
	case "phylip":
		s := emitPhylip(a, strict, rapid.Bool().Draw(t, "interleaved"), rapid.SampledFrom([]int{60, 50, 10}).Draw(t, "width"))
		if rapid.IntRange(0, 3).Draw(t, "multi") == 0 {
			b := genAli(t)
			s += emitPhylip(b, strict, rapid.Bool().Draw(t, "interleaved2"), 60)
		}
		return []byte(s), a.Length()
	case "nexus":
		return []byte(emitNexus(t, a)), a.Length()
	case "clustal":
		return []byte(emitClustal(t, a)), a.Length()
	case "stockholm":
		return []byte(emitStockholm(t, a)), a.Length()
	case "partition":
		l := rapid.IntRange(1, 40).Draw(t, "plen")
		return []byte(emitPartition(t, l)), l
	}
	panic("harness: unknown family " + family)
}

var hostile = []string{
	"[", "]", ";", "=", "#", "//", ">", ",", "-", "/", ".", "*", "?",
	// the rest of the punctuation of the Nexus standard, alone and as quoting of a word
	"'", "\"", "''", "'q'", "'q r'", "\"q\"", "(", ")", "{", "}", ":", "\\", "<", "+", "~", "`", "|", "&", "_",
	"\r\n", "\r", "\t", " ", "\n", "\n\n", "\x00",
	"0", "-1", "007", "+3", "1", "2", "9223372036854775807", "9223372036854775808", "18446744073709551616", "99999999999999999999", "1000000000000",
	"é", "日本", "\xff", "\xc3", "elevenchars", "tenletters",
	"#NEXUS", "BEGIN", "begin", "END;", "end;", "END", "MATRIX", "matrix", "DATA", "TAXA", "TAXLABELS", "DIMENSIONS", "NTAX=", "NCHAR=", "ntax=3", "nchar=5", "FORMAT", "DATATYPE=", "GAP=", "MISSING=", "MATCHCHAR=", "INTERLEAVE", "TREES", "CHARACTERS", "SYMBOLS=", "EQUATE=",
	"CLUSTAL", "clustal", "# STOCKHOLM 1.0", "STOCKHOLM", "#=GF", "#=GC", "#=GS x", "1.0",
	"GTR,p=", "/3", "/0", "/9223372036854775807", "1-5", "5-1",
}

// mutate applies one mutation; returns the new data and the kind
func mutate(t *rapid.T, d []byte, other []byte) ([]byte, string) {
	kind := rapid.SampledFrom([]string{"empty-command", "dup-terminator", "blank-line", "blank-lines", "truncate", "truncate", "del-line", "dup-line", "swap-lines", "flip-byte", "ins-byte", "del-byte", "token", "token", "token", "splice", "header-count", "del-range", "crlf", "strip-final-newline"}).Draw(t, "mutation")
	n := len(d)
	pos := func(label string) int {
		if n == 0 {
			return 0
		}
		return rapid.IntRange(0, n).Draw(t, label)
	}
	lines := func() []string { return strings.SplitAfter(string(d), "\n") }
	switch kind {
	case "truncate":
		return append([]byte{}, d[:pos("at")]...), kind
	case "del-line":
		ls := lines()
		i := rapid.IntRange(0, len(ls)-1).Draw(t, "line")
		return []byte(strings.Join(append(append([]string{}, ls[:i]...), ls[i+1:]...), "")), kind
	case "dup-line":
		ls := lines()
		i := rapid.IntRange(0, len(ls)-1).Draw(t, "line")
		out := append(append([]string{}, ls[:i+1]...), ls[i:]...)
		return []byte(strings.Join(out, "")), kind
	case "swap-lines":
		ls := append([]string{}, lines()...)
		i := rapid.IntRange(0, len(ls)-1).Draw(t, "line")
		j := rapid.IntRange(0, len(ls)-1).Draw(t, "line2")
		ls[i], ls[j] = ls[j], ls[i]
		return []byte(strings.Join(ls, "")), kind
	case "flip-byte":
		if n == 0 {
			return d, kind
		}
		out := append([]byte{}, d...)
		out[rapid.IntRange(0, n-1).Draw(t, "at")] = byte(rapid.IntRange(0, 255).Draw(t, "byte"))
		return out, kind
	case "ins-byte":
		p := pos("at")
		out := append(append(append([]byte{}, d[:p]...), byte(rapid.IntRange(0, 255).Draw(t, "byte"))), d[p:]...)
		return out, kind
	case "del-byte":
		if n == 0 {
			return d, kind
		}
		p := rapid.IntRange(0, n-1).Draw(t, "at")
		return append(append([]byte{}, d[:p]...), d[p+1:]...), kind
	case "del-range":
		p := pos("at")
		q := pos("to")
		if p > q {
			p, q = q, p
		}
		return append(append([]byte{}, d[:p]...), d[q:]...), kind
	case "token":
		p := pos("at")
		// prefer token boundaries half of the time: after a blank or newline
		if rapid.Bool().Draw(t, "boundary") {
			for p < n && d[p] != ' ' && d[p] != '\n' {
				p++
			}
		}
		tok := hostile[rapid.IntRange(0, len(hostile)-1).Draw(t, "tok")]
		replace := rapid.Bool().Draw(t, "replace")
		q := p
		if replace {
			for q < n && d[q] != ' ' && d[q] != '\n' && d[q] != ';' && d[q] != '=' {
				q++
			}
		}
		return append(append(append([]byte{}, d[:p]...), []byte(tok)...), d[q:]...), kind
	case "splice":
		p := pos("at")
		q := 0
		if len(other) > 0 {
			q = rapid.IntRange(0, len(other)).Draw(t, "otherat")
		}
		return append(append([]byte{}, d[:p]...), other[q:]...), kind
	case "header-count":
		// change the first integer (or the second) of the text by +-1
		re := regexp.MustCompile(`[0-9]+`)
		locs := re.FindAllIndex(d, 4)
		if len(locs) == 0 {
			return d, kind
		}
		loc := locs[rapid.IntRange(0, len(locs)-1).Draw(t, "which")]
		v, err := strconv.ParseInt(string(d[loc[0]:loc[1]]), 10, 64)
		if err != nil {
			return d, kind
		}
		v += int64(rapid.SampledFrom([]int{-1, 1, 2, -2}).Draw(t, "delta"))
		return append(append(append([]byte{}, d[:loc[0]]...), []byte(strconv.FormatInt(v, 10))...), d[loc[1]:]...), kind
	case "empty-command":
		// "KEYWORD args ;" -> "KEYWORD;" for one command of the text (Nexus), or the content of
		// one line after its first word (other formats)
		locs := reCommand.FindAllSubmatchIndex(d, -1)
		if len(locs) == 0 {
			return d, kind
		}
		loc := locs[rapid.IntRange(0, len(locs)-1).Draw(t, "command")]
		return append(append(append([]byte{}, d[:loc[3]]...), ';'), d[loc[1]:]...), kind
	case "dup-terminator":
		// one terminator of the text written twice: ";" (an empty Nexus command), "//", "," or "="
		locs := reTerminator.FindAllIndex(d, -1)
		if len(locs) == 0 {
			return d, kind
		}
		loc := locs[rapid.IntRange(0, len(locs)-1).Draw(t, "terminator")]
		return append(append(append([]byte{}, d[:loc[1]]...), d[loc[0]:loc[1]]...), d[loc[1]:]...), kind
	case "blank-line", "blank-lines":
		// the content of one line - or of every line that does not start a record or a command
		// ('>', '#', a digit header is kept) - replaced by blanks: residues that are there and empty
		ls := lines()
		blank := func(l string) string {
			nl := ""
			if strings.HasSuffix(l, "\n") {
				nl = "\n"
			}
			return rapid.SampledFrom([]string{" ", "  ", "\t", " \t "}).Draw(t, "blanks") + nl
		}
		if kind == "blank-line" {
			i := rapid.IntRange(0, len(ls)-1).Draw(t, "line")
			ls[i] = blank(ls[i])
		} else {
			for i, l := range ls {
				if i > 0 && l != "" && !strings.HasPrefix(l, ">") && !strings.HasPrefix(l, "#") {
					ls[i] = blank(l)
				}
			}
		}
		return []byte(strings.Join(ls, "")), kind
	case "crlf":
		return bytes.ReplaceAll(d, []byte("\n"), []byte("\r\n")), kind
	case "strip-final-newline":
		return bytes.TrimRight(d, "\n"), kind
	}
	return d, kind
}

var reTerminator = regexp.MustCompile(`;|//|,|=`)

var reCommand = regexp.MustCompile(`(?i)\b(taxlabels|dimensions|format|matrix|begin [a-z]+)\b[^;]*;`)

var families = []string{"fasta", "phylip", "nexus", "clustal", "stockholm", "partition"}

func genCase(targets []string) func(t *rapid.T) pcase {
	return func(t *rapid.T) pcase {
		var c pcase
		c.Target = rapid.SampledFrom(targets).Draw(t, "target")
		fam := familyOf(c.Target)
		if fam == "" { // auto detection: any of the four sniffed formats
			fam = rapid.SampledFrom([]string{"fasta", "phylip", "nexus", "clustal"}).Draw(t, "autofamily")
		}
		strict := c.Target == tPhylipStrict || c.Target == tPhylipMultiS || c.Target == tAutoStrict
		data, dl := validFile(t, fam, strict)
		c.PartLen = dl
		if c.Target == tPartition {
			// the declared length is an argument of its own: usually the true one, sometimes not
			switch rapid.IntRange(0, 5).Draw(t, "plenkind") {
			case 0:
				c.PartLen = rapid.IntRange(0, 45).Draw(t, "partlen")
			case 1:
				c.PartLen = dl - 1
				if c.PartLen < 0 {
					c.PartLen = 0
				}
			}
		}
		nm := rapid.SampledFrom([]int{0, 1, 1, 1, 2, 2, 3, 4, 6}).Draw(t, "nmut")
		for i := 0; i < nm; i++ {
			var other []byte
			of := families[rapid.IntRange(0, len(families)-1).Draw(t, "otherfam")]
			if s := staticSeeds[of]; len(s) > 0 {
				other = []byte(s[rapid.IntRange(0, len(s)-1).Draw(t, "otherseed")])
			}
			var k string
			data, k = mutate(t, data, other)
			c.Muts = append(c.Muts, k)
		}
		if nm == 0 {
			c.Muts = []string{"none"}
		}
		if len(data) > 65536 {
			data = data[:65536]
		}
		c.Data = data
		c.Text = render(data)
		c.Ignore = rapid.SampledFrom([]int{align.IGNORE_NONE, align.IGNORE_NONE, align.IGNORE_NAME, align.IGNORE_SEQUENCE}).Draw(t, "ignore")
		c.Alphabet = rapid.SampledFrom([]int{align.BOTH, align.BOTH, align.NUCLEOTIDS, align.AMINOACIDS}).Draw(t, "alphabet")
		return c
	}
}

func TestFasta(t *testing.T) {
	pbt.Run(t, genCase([]string{tFasta, tFastaUnalign}), checkParse)
}
func TestPhylip(t *testing.T) {
	pbt.Run(t, genCase([]string{tPhylip, tPhylipStrict, tPhylipMulti, tPhylipMultiS}), checkParse)
}
func TestNexus(t *testing.T)     { pbt.Run(t, genCase([]string{tNexus}), checkParse) }
func TestClustal(t *testing.T)   { pbt.Run(t, genCase([]string{tClustal}), checkParse) }
func TestStockholm(t *testing.T) { pbt.Run(t, genCase([]string{tStockholm}), checkParse) }
func TestPartition(t *testing.T) { pbt.Run(t, genCase([]string{tPartition}), checkParse) }
func TestAuto(t *testing.T)      { pbt.Run(t, genCase([]string{tAuto, tAutoStrict}), checkParse) }

// ---- the committed corpus: every file through every target of its family and through
// auto-detection, with every option (seconds-long replay tier) ----------------------------------

func TestCorpus(t *testing.T) {
	if pbt.ReplayOnly() {
		// a failure of this test is replayed here, without rapid
		var f struct {
			Test string `json:"test"`
			Case pcase  `json:"case"`
		}
		b, _ := os.ReadFile(os.Getenv("VERIF_REPLAY"))
		if json.Unmarshal(b, &f) != nil || f.Test != "TestCorpus" {
			t.Skip("replay of another test")
		}
		if _, err := pbt.Eval(f.Case, checkParse); err != nil {
			pbt.Fail(t, f.Case, "%v", err)
		}
		return
	}
	n := 0
	for _, fam := range families {
		var files [][]byte
		files = append(files, corpusFiles(fam)...)
		for _, s := range staticSeeds[fam] {
			files = append(files, []byte(s))
		}
		var targets []string
		for _, tg := range []string{tFasta, tFastaUnalign, tPhylip, tPhylipStrict, tPhylipMulti, tPhylipMultiS, tNexus, tClustal, tStockholm, tPartition} {
			if familyOf(tg) == fam {
				targets = append(targets, tg)
			}
		}
		if fam != "partition" && fam != "stockholm" {
			targets = append(targets, tAuto, tAutoStrict)
		}
		for _, data := range files {
			for _, tg := range targets {
				for _, ign := range []int{align.IGNORE_NONE, align.IGNORE_NAME, align.IGNORE_SEQUENCE} {
					for _, alp := range []int{align.BOTH, align.NUCLEOTIDS, align.AMINOACIDS} {
						for _, pl := range []int{0, 1, 30} {
							if tg != tPartition && pl != 30 {
								continue
							}
							c := pcase{Target: tg, Data: data, Text: render(data), Ignore: ign, Alphabet: alp, PartLen: pl, Muts: []string{"corpus"}}
							o, err := pbt.Eval(c, checkParse)
							if err != nil {
								pbt.Fail(t, c, "%v", err)
								return
							}
							pbt.Note(t, c, o)
							n++
						}
					}
				}
			}
		}
	}
	pbt.Complete(t)
}

// ---- native coverage-guided fuzzing (thorough tier): the same oracle inside the target ------

func fuzzTarget(f *testing.F, targets []string) {
	fam := familyOf(targets[0])
	for _, s := range staticSeeds[fam] {
		f.Add([]byte(s), uint8(0))
	}
	for _, b := range corpusFiles(fam) {
		f.Add(b, uint8(0))
	}
	for _, h := range hostile {
		f.Add([]byte(h), uint8(1))
	}
	f.Fuzz(func(t *testing.T, data []byte, opt uint8) {
		if len(data) > 65536 {
			return
		}
		c := pcase{Target: targets[int(opt)%len(targets)], Data: data, Text: render(data)}
		c.Ignore = int(opt/4) % 3
		c.Alphabet = []int{align.BOTH, align.NUCLEOTIDS, align.AMINOACIDS}[int(opt/16)%3]
		c.PartLen = int(opt/64)*13 + 1
		_, err := pbt.Eval(c, checkParse)
		if err != nil {
			pbt.SideViolation("Test"+testOf(c.Target), c, err.Error())
			t.Fatalf("%v", err)
		}
	})
}

func FuzzFasta(f *testing.F)     { fuzzTarget(f, []string{tFasta, tFastaUnalign}) }
func FuzzPhylip(f *testing.F)    { fuzzTarget(f, []string{tPhylip, tPhylipStrict, tPhylipMulti, tPhylipMultiS}) }
func FuzzNexus(f *testing.F)     { fuzzTarget(f, []string{tNexus}) }
func FuzzClustal(f *testing.F)   { fuzzTarget(f, []string{tClustal}) }
func FuzzStockholm(f *testing.F) { fuzzTarget(f, []string{tStockholm}) }
func FuzzPartition(f *testing.F) { fuzzTarget(f, []string{tPartition}) }

// ---- command-line tier: goalign reformat on mutated files -----------------------------------

type cliCase struct {
	Family string   `json:"family"`
	Data   []byte   `json:"data"`
	Text   string   `json:"text"`
	Flags  []string `json:"flags"`
	Muts   []string `json:"mutations"`
	Out    string   `json:"out,omitempty"` // reformat sub-command: "" = fasta, phylip, nexus, clustal, paml, tnt
}

func TestCLI(t *testing.T) {
	if cli.Binary() == "" {
		t.Skip("no goalign binary")
	}
	dir := cli.TempDir("c03cli")
	pbt.Run(t, func(t *rapid.T) cliCase {
		var c cliCase
		c.Family = rapid.SampledFrom([]string{"fasta", "phylip", "nexus", "clustal", "stockholm"}).Draw(t, "family")
		strict := c.Family == "phylip" && rapid.Bool().Draw(t, "strict")
		data, _ := validFile(t, c.Family, strict)
		nm := rapid.SampledFrom([]int{0, 1, 1, 2, 3}).Draw(t, "nmut")
		for i := 0; i < nm; i++ {
			var k string
			data, k = mutate(t, data, []byte(staticSeeds["nexus"][0]))
			c.Muts = append(c.Muts, k)
		}
		c.Data, c.Text = data, render(data)
		switch c.Family {
		case "phylip":
			c.Flags = []string{"-p"}
			if strict {
				c.Flags = append(c.Flags, "--input-strict")
			}
		case "nexus":
			c.Flags = []string{"-x"}
		case "clustal":
			c.Flags = []string{"-u"}
		case "stockholm":
			c.Flags = []string{"-k"}
		}
		if c.Family != "stockholm" && rapid.IntRange(0, 3).Draw(t, "auto") == 0 {
			c.Flags = []string{"--auto-detect"}
		}
		if rapid.IntRange(0, 3).Draw(t, "ign") == 0 {
			c.Flags = append(c.Flags, "--ignore-identical", fmt.Sprint(rapid.IntRange(0, 2).Draw(t, "ignv")))
		}
		// every reformat sub-command has its own loop over the parsed stream
		c.Out = rapid.SampledFrom([]string{"", "", "", "phylip", "nexus", "clustal", "paml", "tnt"}).Draw(t, "outformat")
		return c
	}, func(c cliCase) (o pbt.Outcome, err error) {
		in := cli.TempFile(dir, ".in", string(c.Data))
		defer os.Remove(in)
		sub := c.Out
		if sub == "" {
			sub = "fasta"
		}
		args := append([]string{"reformat", sub, "-i", in}, c.Flags...)
		r := cli.Run("", args...)
		o.Class("family=%s", c.Family)
		o.Class("reformat %s", sub)
		if r.TimedOut {
			return o, fmt.Errorf("goalign %v did not return within 60 s", args)
		}
		phylipLike := c.Family == "phylip" || (len(c.Flags) > 0 && c.Flags[0] == "--auto-detect")
		if blank, _ := blankStream(c.Data); blank && phylipLike {
			// the parser answers a blank stream with the end-of-stream marker; what a command
			// does with an empty stream is not the parser's business (reformat dereferences the
			// missing first alignment): not judged here
			o.Ambiguous++
			o.Class("%s: blank stream", c.Family)
			return o, nil
		}
		if strings.Contains(r.Stderr, "panic:") || strings.Contains(r.Stderr, "goroutine ") || r.Exit == 2 && strings.Contains(r.Stderr, "runtime") {
			return o, fmt.Errorf("goalign %v crashed (exit %d): %s", args, r.Exit, trunc(r.Stderr, 800))
		}
		if r.Exit != 0 {
			if strings.TrimSpace(r.Stderr) == "" {
				return o, fmt.Errorf("goalign %v: exit %d without any message", args, r.Exit)
			}
			o.Class("%s: rejected", c.Family)
			o.NonTrivial = len(c.Muts) > 0
			return o, nil
		}
		var rows []gen.Row
		var perr error
		switch sub {
		case "fasta":
			rows, perr = cli.ParseFasta(r.Stdout)
		case "phylip":
			var alis [][]gen.Row
			alis, perr = cli.ParsePhylipStream(r.Stdout)
			if perr != nil {
				// relaxed Phylip cannot carry every name goalign accepts (a FASTA name with a blank
				// reads as a name and residues): the small reader gives up, the output is only
				// required to be there
				if strings.TrimSpace(r.Stdout) == "" {
					return o, fmt.Errorf("goalign %v: status 0 and an empty output (stderr %q)", args, trunc(r.Stderr, 300))
				}
				o.Ambiguous++
				o.Class("%s: accepted", c.Family)
				o.NonTrivial = true
				return o, nil
			}
			if perr == nil {
				if len(alis) == 0 {
					return o, fmt.Errorf("goalign %v: status 0 and no alignment in the output (stderr %q)", args, trunc(r.Stderr, 300))
				}
				if !phylipLike && len(alis) != 1 {
					return o, fmt.Errorf("goalign %v: status 0 and %d alignments in the output", args, len(alis))
				}
				for _, a := range alis {
					if len(a) == 0 {
						return o, fmt.Errorf("goalign %v: status 0 and an alignment without sequence in the output", args)
					}
				}
				rows = alis[0]
			}
		default:
			// the other output formats have no independent reader here: status 0 must come with
			// an output that holds at least the names it was given room for
			if strings.TrimSpace(r.Stdout) == "" {
				return o, fmt.Errorf("goalign %v: status 0 and an empty output (stderr %q)", args, trunc(r.Stderr, 300))
			}
			o.Class("%s: accepted", c.Family)
			o.NonTrivial = true
			return o, nil
		}
		if perr != nil {
			return o, fmt.Errorf("goalign %v: status 0 but unreadable output: %v", args, perr)
		}
		if len(rows) == 0 {
			return o, fmt.Errorf("goalign %v: status 0 and no sequence in the output (stderr %q)", args, trunc(r.Stderr, 300))
		}
		for _, row := range rows {
			if len(row.Seq) == 0 {
				return o, fmt.Errorf("goalign %v: status 0 and an empty sequence %q in the output", args, row.Name)
			}
		}
		if !phylipLike {
			// one alignment: rectangular with distinct names
			seen := map[string]bool{}
			for _, row := range rows {
				if len(row.Seq) != len(rows[0].Seq) {
					return o, fmt.Errorf("goalign %v: status 0 and a ragged alignment in the output", args)
				}
				// (relaxed Phylip output cuts a name at its first blank: "a" and "a " read alike there)
				if seen[row.Name] && sub == "fasta" {
					return o, fmt.Errorf("goalign %v: status 0 and two sequences named %q", args, row.Name)
				}
				seen[row.Name] = true
			}
		}
		o.Class("%s: accepted", c.Family)
		o.NonTrivial = true
		return o, nil
	})
}

func trunc(s string, n int) string {
	if len(s) > n {
		return s[:n] + "…"
	}
	return s
}
