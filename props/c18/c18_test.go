// C18 - Substitution models yield valid, reversible Markov transition matrices
package c18

import (
	"fmt"
	"io"
	"log"
	"math"
	"sync"
	"testing"
	"time"

	"github.com/evolbioinfo/goalign/models"
	"github.com/evolbioinfo/goalign/models/dna"
	"github.com/evolbioinfo/goalign/models/protein"
	"pgregory.net/rapid"
	"verif/internal/pbt"
	"verif/internal/refmodels"
)

func TestMain(m *testing.M) {
	log.SetOutput(io.Discard)
	pbt.Main(m, "C18")
}

// Tolerances (DESIGN C18 O): every comparison is absolute.
const (
	tol        = 1e-8  // every clause of the statement
	tolConv    = 1e-9  // the oracle's own exp(Q*100) must be this close to Pi before convergence is asserted
	tolOracle  = 1e-10 // self-check of the oracle (rows of exp(Qt) sum to 1, no negative entry)
	tMin, tMax = 1e-8, 100.0
)

// ---- the reference code (internal/refmodels: dense matrices, Taylor exponential, normalisation;
// nothing of goalign's model code or gonum) ---------------------------------------------------------

type matrix = refmodels.Matrix

func newMatrix(n int) matrix          { return refmodels.NewMatrix(n) }
func identity(n int) matrix           { return refmodels.Identity(n) }
func mul(a, b matrix) matrix          { return refmodels.Mul(a, b) }
func expm(q matrix, t float64) matrix { return refmodels.Expm(q, t) }
func normalise(q matrix, w []float64) { refmodels.Normalise(q, w) }

// ---- cases -----------------------------------------------------------------------------------------

type mCase struct {
	Model  string    `json:"model"`
	Kappa  float64   `json:"kappa,omitempty"`
	Kappa1 float64   `json:"kappa1,omitempty"`
	Kappa2 float64   `json:"kappa2,omitempty"`
	Rates  []float64 `json:"rates,omitempty"` // GTR: AC, AG, AT, CG, CT, GT
	Pi     []float64 `json:"pi,omitempty"`    // 4 base frequencies; 20 user frequencies; nil = model frequencies
	Ts     []float64 `json:"ts"`              // branch lengths
	Split  float64   `json:"split"`           // s = Split*t, P(t) = P(s) P(t-s)
	// Seq: the lengths ONE Pij object is taken through, in this order (NewPij(Seq[0]), then SetLength);
	// boundary values included: 0, below 1e-6, ordinary, large, a repeated one (empty: no walk)
	Seq []float64 `json:"seq,omitempty"`
	Regime string    `json:"regime"`          // how the parameters were drawn (class only)
	// Default: the model object is used as its constructor leaves it, without InitModel; the
	// parameters above are then the constructor's defaults (JC; K2P kappa = 1, "Default 1.0" in
	// k2p.go; F84 kappa = 1 and equal frequencies, the values NewF84Model sets)
	Default bool `json:"default,omitempty"`
}

// defaultCase: the parameters a constructor sets, for the models that have some (F81, TN93 and GTR
// have no eigen system before InitModel, a ProtModel no rate matrix)
func defaultCase(name string, ts []float64) (mCase, bool) {
	c := mCase{Model: name, Ts: ts, Split: 0.5, Regime: "constructor defaults", Default: true}
	switch name {
	case "jc":
	case "k2p":
		c.Kappa = 1
	case "f84":
		c.Kappa = 1
		c.Pi = []float64{0.25, 0.25, 0.25, 0.25}
	default:
		return c, false
	}
	return c, true
}

var dnaModels = []string{"jc", "k2p", "f81", "f84", "tn93", "gtr"}
var protModels = []string{"dayhoff", "jtt", "mtrev", "lg", "wag", "hivb", "ab"}

func protCode(name string) int {
	switch name {
	case "dayhoff":
		return protein.MODEL_DAYHOFF
	case "jtt":
		return protein.MODEL_JTT
	case "mtrev":
		return protein.MODEL_MTREV
	case "lg":
		return protein.MODEL_LG
	case "wag":
		return protein.MODEL_WAG
	case "hivb":
		return protein.MODEL_HIVB
	case "ab":
		return protein.MODEL_AB
	}
	return -1
}

func isProt(name string) bool { return protCode(name) >= 0 }

func logUniform(t *rapid.T, lo, hi float64, label string) float64 {
	v := math.Exp(rapid.Float64Range(math.Log(lo), math.Log(hi)).Draw(t, label))
	if v < lo {
		v = lo
	}
	if v > hi {
		v = hi
	}
	return v
}

// ratio draws a rate ratio in [lo,hi], log-uniform, with the boundaries and 1 over-represented
func ratio(t *rapid.T, lo, hi float64, label string) float64 {
	switch rapid.IntRange(0, 11).Draw(t, label+"_k") {
	case 0:
		return lo
	case 1:
		return hi
	case 2:
		return 1
	}
	return logUniform(t, lo, hi, label)
}

// simplex draws n frequencies, each >= floor, summing to 1
func simplex(t *rapid.T, n int, floor float64, label string) []float64 {
	x := make([]float64, n)
	sum := 0.0
	skew := rapid.IntRange(0, 2).Draw(t, label+"_skew")
	for i := range x {
		switch skew {
		case 0:
			x[i] = rapid.Float64Range(0.2, 1).Draw(t, label)
		case 1:
			x[i] = rapid.Float64Range(0.001, 1).Draw(t, label)
		default: // a few dominant components
			x[i] = logUniform(t, 1e-4, 1, label)
		}
		sum += x[i]
	}
	free := 1 - float64(n)*floor
	for i := range x {
		x[i] = floor + free*x[i]/sum
	}
	return x
}

// tinyOne replaces component k of p by a frequency drawn log-uniformly in [1e-8, 1e-3] (the open
// simplex of the quantifier has no floor; the unchanged code agrees with exp(Qt) to 3e-12 at 1e-8)
func tinyOne(t *rapid.T, p []float64, k int) {
	tiny := logUniform(t, 1e-8, 1e-3, "pitiny")
	rest := 0.0
	for i, v := range p {
		if i != k {
			rest += v
		}
	}
	for i := range p {
		if i == k {
			p[i] = tiny
		} else {
			p[i] *= (1 - tiny) / rest
		}
	}
}

func drawPi4(t *rapid.T) (pi []float64, regime string) {
	switch rapid.IntRange(0, 9).Draw(t, "pikind") {
	case 8, 9: // one base almost absent
		p := simplex(t, 4, 0.01, "pi")
		tinyOne(t, p, rapid.IntRange(0, 3).Draw(t, "pitinyk"))
		return p, "pi=one-below-1e-3"
	case 0, 1:
		return []float64{0.25, 0.25, 0.25, 0.25}, "pi=equal"
	case 2: // purines equal, pyrimidines equal
		a := rapid.Float64Range(0.01, 0.49).Draw(t, "piA")
		return []float64{a, 0.5 - a, a, 0.5 - a}, "pi=pairs"
	case 3: // three equal
		a := rapid.Float64Range(0.01, 0.32).Draw(t, "pi3")
		p := []float64{a, a, a, a}
		p[rapid.IntRange(0, 3).Draw(t, "piodd")] = 1 - 3*a
		return p, "pi=three-equal"
	case 4: // one component at the floor
		p := simplex(t, 4, 0.01, "pi")
		k := rapid.IntRange(0, 3).Draw(t, "pifloor")
		rest := 0.0
		for i, v := range p {
			if i != k {
				rest += v
			}
		}
		for i := range p {
			if i == k {
				p[i] = 0.01
			} else {
				p[i] *= 0.99 / rest
			}
		}
		return p, "pi=floor"
	}
	return simplex(t, 4, 0.01, "pi"), "pi=generic"
}

func drawTs(t *rapid.T) []float64 {
	// one branch length per band, so that every case sees the linear, the curved and the
	// saturated part of P(t); the ends of the quantifier's range are over-represented
	bands := [][2]float64{{tMin, 1e-4}, {1e-4, 0.05}, {0.05, 3}, {3, tMax}}
	ts := make([]float64, len(bands))
	for i, b := range bands {
		ts[i] = logUniform(t, b[0], b[1], "t")
	}
	switch rapid.IntRange(0, 5).Draw(t, "tedge") {
	case 0:
		ts[0] = tMin
	case 1:
		ts[3] = tMax
	case 2:
		ts[0], ts[3] = tMin, tMax
	}
	return ts
}

// drawSeq draws the history of one Pij object: 2-5 lengths, each 0, tiny (1e-12..1e-6), ordinary
// (1e-4..3), large (3..100) or the previous one again, in any order; a third of the draws end on 0
// after a positive length (P(0) = I must hold for an object that held another matrix before), a
// sixth start on 0
func drawSeq(t *rapid.T) []float64 {
	n := rapid.IntRange(2, 5).Draw(t, "seqn")
	seq := make([]float64, n)
	for i := range seq {
		switch rapid.IntRange(0, 6).Draw(t, "seqclass") {
		case 0, 1:
			seq[i] = 0
		case 2:
			seq[i] = logUniform(t, 1e-12, 1e-6, "seqtiny")
		case 3:
			seq[i] = logUniform(t, 1e-4, 3, "seqt")
		case 4:
			seq[i] = logUniform(t, 3, tMax, "seqlarge")
		case 5:
			seq[i] = rapid.SampledFrom([]float64{1e-12, tMin, 1e-6, 1, tMax}).Draw(t, "seqedge")
		default:
			if i > 0 {
				seq[i] = seq[i-1]
			} else {
				seq[i] = logUniform(t, 1e-4, 3, "seqt")
			}
		}
	}
	switch rapid.IntRange(0, 5).Draw(t, "seqshape") {
	case 0, 1:
		if seq[n-2] == 0 {
			seq[n-2] = logUniform(t, 1e-4, 3, "seqt")
		}
		seq[n-1] = 0
	case 2:
		seq[0] = 0
	}
	return seq
}

func genDNA(t *rapid.T) mCase {
	var c mCase
	// JC has no parameter: one case in twelve
	c.Model = rapid.SampledFrom([]string{"gtr", "tn93", "f81", "f84", "k2p", "gtr", "tn93", "f81", "f84", "k2p", "gtr", "tn93", "jc"}).Draw(t, "model")
	fillDNA(t, &c)
	return c
}

// fillDNA draws the parameters, branch lengths and split of a nucleotide model
func fillDNA(t *rapid.T, c *mCase) {
	regime := "-"
	switch c.Model {
	case "k2p":
		c.Kappa = ratio(t, 0.05, 50, "kappa")
	case "f81":
		c.Pi, regime = drawPi4(t)
	case "f84":
		c.Kappa = ratio(t, 0.05, 50, "kappa")
		c.Pi, regime = drawPi4(t)
	case "tn93":
		c.Pi, regime = drawPi4(t)
		switch rapid.IntRange(0, 3).Draw(t, "kkind") {
		case 0: // HKY like
			c.Kappa1 = ratio(t, 0.05, 50, "kappa")
			c.Kappa2 = c.Kappa1
			regime += ",k1=k2"
		case 1: // F81 like
			c.Kappa1, c.Kappa2 = 1, 1
			regime += ",k1=k2=1"
		default:
			c.Kappa1 = ratio(t, 0.05, 50, "kappa1")
			c.Kappa2 = ratio(t, 0.05, 50, "kappa2")
			regime += ",k-generic"
		}
	case "gtr":
		c.Pi, regime = drawPi4(t)
		c.Rates = make([]float64, 6)
		switch rapid.IntRange(0, 5).Draw(t, "rkind") {
		case 0: // all equal: F81 like
			r := ratio(t, 0.02, 50, "rate")
			for i := range c.Rates {
				c.Rates[i] = r
			}
			regime += ",rates=equal"
		case 1: // transitions equal, transversions equal: HKY like
			ts := ratio(t, 0.02, 50, "rate_ts")
			tv := ratio(t, 0.02, 50, "rate_tv")
			c.Rates = []float64{tv, ts, tv, tv, ts, tv}
			regime += ",rates=ts/tv"
		case 2: // two tied
			for i := range c.Rates {
				c.Rates[i] = ratio(t, 0.02, 50, "rate")
			}
			i := rapid.IntRange(0, 5).Draw(t, "tie_i")
			j := rapid.IntRange(0, 5).Draw(t, "tie_j")
			c.Rates[i] = c.Rates[j]
			regime += ",rates=two-tied"
		default:
			for i := range c.Rates {
				c.Rates[i] = ratio(t, 0.02, 50, "rate")
			}
			regime += ",rates=generic"
		}
	}
	c.Regime = regime
	c.Ts = drawTs(t)
	c.Seq = drawSeq(t)
	c.Split = rapid.SampledFrom([]float64{0.5, 0.25, 0.001, 0.999, 0.37}).Draw(t, "split")
}

func genProt(t *rapid.T) mCase {
	var c mCase
	c.Model = rapid.SampledFrom(protModels).Draw(t, "model")
	fillProt(t, &c)
	return c
}

// fillProt draws the frequencies, branch lengths and split of a protein model
func fillProt(t *rapid.T, c *mCase) {
	switch rapid.IntRange(0, 3).Draw(t, "freq") {
	case 0, 1:
		c.Regime = "model-frequencies"
	case 2:
		c.Pi = make([]float64, 20)
		for i := range c.Pi {
			c.Pi[i] = 0.05
		}
		c.Regime = "user-equal"
	default:
		c.Pi = simplex(t, 20, 0.002, "pi")
		c.Regime = "user-generic"
		if rapid.IntRange(0, 2).Draw(t, "tiny") == 0 {
			tinyOne(t, c.Pi, rapid.IntRange(0, 19).Draw(t, "pitinyk"))
			c.Regime = "user-one-below-1e-3"
		}
	}
	c.Ts = drawTs(t)
	c.Seq = drawSeq(t)
	c.Split = rapid.SampledFrom([]float64{0.5, 0.25, 0.001, 0.999, 0.37}).Draw(t, "split")
}

// ---- oracle: the textbook rate matrix of each model --------------------------------------------------

// states: A, C, G, T
func transition(i, j int) bool { return (i+j)%2 == 0 && i != j }
func purine(i int) bool        { return i == 0 || i == 2 }

// gtrRate: exchangeability of the unordered pair {i,j}, rates given as AC, AG, AT, CG, CT, GT
func gtrRate(r []float64, i, j int) float64 {
	if i > j {
		i, j = j, i
	}
	switch [2]int{i, j} {
	case [2]int{0, 1}:
		return r[0]
	case [2]int{0, 2}:
		return r[1]
	case [2]int{0, 3}:
		return r[2]
	case [2]int{1, 2}:
		return r[3]
	case [2]int{1, 3}:
		return r[4]
	}
	return r[5]
}

// textbookQ returns the candidate rate matrices (more than one only when the definition of "one
// expected substitution" is open, see below) and the stationary distribution
func textbookQ(c mCase) (qs []matrix, pi []float64, err error) {
	if isProt(c.Model) {
		// the exported tables, checked against the fingerprint of the published ones (pinned snapshot)
		s, mpi, perr := refmodels.ProtData(c.Model)
		if perr != nil {
			return nil, nil, fmt.Errorf("%s: the rate matrix is not the textbook one: %v", c.Model, perr)
		}
		for i := 0; i < 20; i++ {
			for j := 0; j < 20; j++ {
				if s[i][j] != s[j][i] || s[i][j] < 0 {
					return nil, nil, fmt.Errorf("exchangeability matrix of %s is not symmetric non-negative at (%d,%d): %v / %v", c.Model, i, j, s[i][j], s[j][i])
				}
			}
		}
		w := mpi
		if c.Pi != nil {
			w = c.Pi
		}
		sum := 0.0
		for _, v := range w {
			sum += v
		}
		pi = make([]float64, 20)
		for i := range pi {
			pi[i] = w[i] / sum
		}
		build := func(weights []float64) matrix {
			q := newMatrix(20)
			for i := 0; i < 20; i++ {
				for j := 0; j < 20; j++ {
					if i != j {
						q[i][j] = s[i][j] * w[j]
					}
				}
			}
			normalise(q, weights)
			return q
		}
		qs = append(qs, build(pi))
		if math.Abs(sum-1) > 1e-13 {
			// published frequency vectors are rounded and do not sum to 1 exactly; the mean rate may be
			// taken with the vector as published (PAML) or with its normalised form: both accepted
			qs = append(qs, build(w))
		}
		return
	}
	pi = []float64{0.25, 0.25, 0.25, 0.25}
	if c.Pi != nil {
		pi = c.Pi
	}
	piR, piY := pi[0]+pi[2], pi[1]+pi[3]
	q := newMatrix(4)
	for i := 0; i < 4; i++ {
		for j := 0; j < 4; j++ {
			if i == j {
				continue
			}
			switch c.Model {
			case "jc":
				q[i][j] = 1
			case "k2p":
				q[i][j] = 1
				if transition(i, j) {
					q[i][j] = c.Kappa
				}
			case "f81":
				q[i][j] = pi[j]
			case "f84":
				q[i][j] = pi[j]
				if transition(i, j) {
					if purine(i) {
						q[i][j] = pi[j] * (1 + c.Kappa/piR)
					} else {
						q[i][j] = pi[j] * (1 + c.Kappa/piY)
					}
				}
			case "tn93":
				q[i][j] = pi[j]
				if transition(i, j) {
					if purine(i) {
						q[i][j] = c.Kappa1 * pi[j]
					} else {
						q[i][j] = c.Kappa2 * pi[j]
					}
				}
			case "gtr":
				q[i][j] = gtrRate(c.Rates, i, j) * pi[j]
			default:
				return nil, nil, fmt.Errorf("harness: unknown model %q", c.Model)
			}
		}
	}
	normalise(q, pi)
	return []matrix{q}, pi, nil
}

// ---- the model under test ---------------------------------------------------------------------------

// newModelObject: the constructor only
func newModelObject(name string) (models.Model, error) {
	switch name {
	case "jc":
		return dna.NewJCModel(), nil
	case "k2p":
		return dna.NewK2PModel(), nil
	case "f81":
		return dna.NewF81Model(), nil
	case "f84":
		return dna.NewF84Model(), nil
	case "tn93":
		return dna.NewTN93Model(), nil
	case "gtr":
		return dna.NewGTRModel(), nil
	}
	if code := protCode(name); code >= 0 {
		return protein.NewProtModel(code, false, 0)
	}
	return nil, fmt.Errorf("harness: unknown model %q", name)
}

// initModel: InitModel of the concrete type with the parameters of c
func initModel(mod models.Model, c mCase) error {
	switch m := mod.(type) {
	case *dna.JCModel:
		return m.InitModel()
	case *dna.K2PModel:
		m.InitModel(c.Kappa)
		return nil
	case *dna.F81Model:
		return m.InitModel(c.Pi[0], c.Pi[1], c.Pi[2], c.Pi[3])
	case *dna.F84Model:
		m.InitModel(c.Kappa, c.Pi[0], c.Pi[1], c.Pi[2], c.Pi[3])
		return nil
	case *dna.TN93Model:
		return m.InitModel(c.Kappa1, c.Kappa2, c.Pi[0], c.Pi[1], c.Pi[2], c.Pi[3])
	case *dna.GTRModel:
		// argument order documented in gtr.go: d=AC, f=AG, b=AT, e=CG, a=CT, c=GT
		return m.InitModel(c.Rates[0], c.Rates[1], c.Rates[2], c.Rates[3], c.Rates[4], c.Rates[5], c.Pi[0], c.Pi[1], c.Pi[2], c.Pi[3])
	case *protein.ProtModel:
		var user []float64
		if c.Pi != nil {
			user = append([]float64{}, c.Pi...)
		}
		return m.InitModel(user)
	}
	return fmt.Errorf("harness: unknown model type %T", mod)
}

func buildModel(c mCase) (models.Model, error) {
	m, err := newModelObject(c.Model)
	if err != nil {
		return nil, err
	}
	if c.Default {
		return m, nil
	}
	return m, initModel(m, c)
}

// observed P(t) through a fresh NewPij
func observe(m models.Model, t float64) (matrix, error) {
	p, err := models.NewPij(m, t)
	if err != nil {
		return nil, err
	}
	return read(p, m.NState()), nil
}

func read(p *models.Pij, n int) matrix {
	out := newMatrix(n)
	for i := 0; i < n; i++ {
		for j := 0; j < n; j++ {
			out[i][j] = p.Pij(i, j)
		}
	}
	return out
}

func maxDiff(a, b matrix) (d float64, at [2]int) {
	for i := range a {
		for j := range a[i] {
			x := math.Abs(a[i][j] - b[i][j])
			if x > d || math.IsNaN(x) {
				d, at = x, [2]int{i, j}
				if math.IsNaN(x) {
					return math.Inf(1), at
				}
			}
		}
	}
	return
}

func domainOK(c mCase) bool {
	in := func(v, lo, hi float64) bool { return v >= lo && v <= hi }
	if c.Default {
		d, ok := defaultCase(c.Model, c.Ts)
		if !ok || !sameParams(c, d) {
			return false
		}
	}
	if len(c.Ts) == 0 || !(c.Split > 0 && c.Split < 1) {
		return false
	}
	for _, t := range c.Ts {
		if !in(t, tMin, tMax) {
			return false
		}
	}
	for _, t := range c.Seq {
		if !in(t, 0, tMax) {
			return false
		}
	}
	if c.Pi != nil {
		s := 0.0
		for _, v := range c.Pi {
			if !(v > 0) {
				return false
			}
			s += v
		}
		if math.Abs(s-1) > 1e-9 {
			return false
		}
	}
	switch c.Model {
	case "jc":
		return true
	case "k2p":
		return in(c.Kappa, 0.05, 50)
	case "f81":
		return len(c.Pi) == 4
	case "f84":
		return len(c.Pi) == 4 && in(c.Kappa, 0.05, 50)
	case "tn93":
		return len(c.Pi) == 4 && in(c.Kappa1, 0.05, 50) && in(c.Kappa2, 0.05, 50)
	case "gtr":
		if len(c.Pi) != 4 || len(c.Rates) != 6 {
			return false
		}
		for _, r := range c.Rates {
			if !in(r, 0.02, 50) {
				return false
			}
		}
		return true
	}
	return isProt(c.Model) && (c.Pi == nil || len(c.Pi) == 20)
}

// ---- the check ------------------------------------------------------------------------------------------

func tBand(t float64) string {
	switch {
	case t <= 1e-4:
		return "t<=1e-4"
	case t <= 0.05:
		return "t<=0.05"
	case t <= 3:
		return "t<=3"
	}
	return "t<=100"
}

func nonTrivial(c mCase) bool {
	// parameters away from the symmetric (Jukes-Cantor) point: a rate ratio > 1.5 or a frequency < 0.15
	far := func(r float64) bool { return r > 1.5 || r < 1/1.5 }
	if isProt(c.Model) {
		return true // every empirical matrix has exchangeabilities spread over orders of magnitude
	}
	for _, p := range c.Pi {
		if p < 0.15 {
			return true
		}
	}
	switch c.Model {
	case "k2p":
		return far(c.Kappa)
	case "f84":
		return c.Kappa > 0.5 // F84: kappa = 0 is the symmetric point
	case "tn93":
		return far(c.Kappa1) || far(c.Kappa2)
	case "gtr":
		for _, r := range c.Rates[1:] {
			if far(r / c.Rates[0]) {
				return true
			}
		}
	}
	return false
}

func checkModel(c mCase) (o pbt.Outcome, err error) {
	if !domainOK(c) {
		o.Skip = true
		return o, nil
	}
	m, e := buildModel(c)
	if e != nil {
		return o, fmt.Errorf("%s: model initialisation fails on valid parameters: %v", c.Model, e)
	}
	_, err = checkOn(m, c, &o)
	return o, err
}

// checkOn applies every clause of the statement to the model object m, which has been initialised
// with the parameters of c; it returns the matrices observed at c.Ts
func checkOn(m models.Model, c mCase, op *pbt.Outcome) (seen []matrix, err error) {
	o := pbt.Outcome{}
	defer func() {
		op.Classes = append(op.Classes, o.Classes...)
		op.Ambiguous += o.Ambiguous
		op.Ill += o.Ill
		op.NonTrivial = op.NonTrivial || o.NonTrivial
	}()
	seen, err = checkClauses(m, c, &o)
	return
}

func checkClauses(m models.Model, c mCase, o *pbt.Outcome) (seen []matrix, err error) {
	qs, pi, err := textbookQ(c)
	if err != nil {
		return nil, err
	}
	n := m.NState()
	if n != len(pi) {
		return nil, fmt.Errorf("%s: NState() = %d, want %d", c.Model, n, len(pi))
	}
	if len(qs) > 1 {
		o.Ambiguous++
	}
	analytical := m.Analytical()
	if analytical != (c.Model == "jc" || c.Model == "k2p") {
		// not a clause of the statement; only says which comparison applies
		o.Class("analytical=%v", analytical)
	}

	// P(0) = I
	p0, e := observe(m, 0)
	if e != nil {
		return nil, fmt.Errorf("%s: NewPij(0) fails: %v", c.Model, e)
	}
	if d, at := maxDiff(p0, identity(n)); d > tol {
		return nil, fmt.Errorf("%s: P(0) is not the identity: entry (%d,%d) = %.12g", c.Model, at[0], at[1], p0[at[0]][at[1]])
	}

	// one Pij object re-used over all branch lengths (SetLength), besides the fresh ones
	reused, e := models.NewPij(m, c.Ts[len(c.Ts)-1])
	if e != nil {
		return nil, fmt.Errorf("%s: NewPij fails: %v", c.Model, e)
	}

	ts := append([]float64{}, c.Ts...)
	for k, t := range ts {
		p, e := observe(m, t)
		if e != nil {
			return nil, fmt.Errorf("%s: NewPij(%g) fails: %v", c.Model, t, e)
		}
		seen = append(seen, p)
		// stochastic
		for i := 0; i < n; i++ {
			sum := 0.0
			for j := 0; j < n; j++ {
				v := p[i][j]
				if math.IsNaN(v) || v < 0 || v > 1+tol {
					return nil, fmt.Errorf("%s t=%g: P[%d][%d] = %.12g is not a probability", c.Model, t, i, j, v)
				}
				sum += v
			}
			if math.Abs(sum-1) > tol {
				return nil, fmt.Errorf("%s t=%g: row %d sums to %.12g", c.Model, t, i, sum)
			}
		}
		// detailed balance
		for i := 0; i < n; i++ {
			for j := i + 1; j < n; j++ {
				if d := math.Abs(pi[i]*p[i][j] - pi[j]*p[j][i]); d > tol {
					return nil, fmt.Errorf("%s t=%g: detailed balance broken at (%d,%d): pi_i P_ij = %.12g, pi_j P_ji = %.12g", c.Model, t, i, j, pi[i]*p[i][j], pi[j]*p[j][i])
				}
			}
		}
		// equality with the independent exponential
		best, bestAt, bestWant := math.Inf(1), [2]int{}, 0.0
		var want matrix
		for _, q := range qs {
			w := expm(q, t)
			if !oracleSane(w) {
				o.Ill++
				continue
			}
			if d, at := maxDiff(p, w); d < best {
				best, bestAt, bestWant, want = d, at, w[at[0]][at[1]], w
			}
		}
		if want == nil {
			continue
		}
		if best > tol {
			return nil, fmt.Errorf("%s t=%g: P[%d][%d] = %.12g, exp(Qt) of the textbook rate matrix gives %.12g (difference %.3g)", c.Model, t, bestAt[0], bestAt[1], p[bestAt[0]][bestAt[1]], bestWant, best)
		}
		// the re-used object gives the same matrix after SetLength
		if e := reused.SetLength(t); e != nil {
			return nil, fmt.Errorf("%s: SetLength(%g) fails: %v", c.Model, t, e)
		}
		if d, at := maxDiff(read(reused, n), want); d > tol {
			return nil, fmt.Errorf("%s t=%g: after SetLength on a Pij object used before at another length, P[%d][%d] = %.12g, exp(Qt) gives %.12g", c.Model, t, at[0], at[1], reused.Pij(at[0], at[1]), want[at[0]][at[1]])
		}
		// semigroup
		s := c.Split * t
		u := t - s
		ps, e1 := observe(m, s)
		pu, e2 := observe(m, u)
		if e1 != nil || e2 != nil {
			return nil, fmt.Errorf("%s: NewPij fails: %v %v", c.Model, e1, e2)
		}
		if d, at := maxDiff(mul(ps, pu), p); d > tol {
			return nil, fmt.Errorf("%s: P(%g)P(%g) differs from P(%g) at (%d,%d) by %.3g", c.Model, s, u, t, at[0], at[1], d)
		}
		// analytical against the eigen system, assembled here
		if analytical {
			val, left, right, e := m.Eigens()
			if e != nil {
				return nil, fmt.Errorf("%s: Eigens() fails: %v", c.Model, e)
			}
			for i := 0; i < n; i++ {
				for j := 0; j < n; j++ {
					v := 0.0
					for x := 0; x < n; x++ {
						v += right.At(i, x) * math.Exp(val[x]*t) * left.At(x, j)
					}
					if math.Abs(v-p[i][j]) > tol {
						return nil, fmt.Errorf("%s t=%g: analytical P[%d][%d] = %.12g, R exp(Dt) L from Eigens() = %.12g", c.Model, t, i, j, p[i][j], v)
					}
				}
			}
			if k == 0 {
				o.Class("analytical-vs-eigen")
			}
		}
		o.Class("%s", tBand(t))
	}

	if err = walkOne(m, c, qs, pi, o); err != nil {
		return nil, err
	}

	// convergence to the stationary frequencies, where the oracle itself has converged at t = 100
	conv := false
	for _, q := range qs {
		w := expm(q, tMax)
		ok := oracleSane(w)
		for i := 0; ok && i < n; i++ {
			for j := 0; j < n; j++ {
				if math.Abs(w[i][j]-pi[j]) > tolConv {
					ok = false
				}
			}
		}
		conv = conv || ok
	}
	if conv {
		p, e := observe(m, tMax)
		if e != nil {
			return nil, fmt.Errorf("%s: NewPij(100) fails: %v", c.Model, e)
		}
		for i := 0; i < n; i++ {
			for j := 0; j < n; j++ {
				if math.Abs(p[i][j]-pi[j]) > tol {
					return nil, fmt.Errorf("%s: P(100)[%d][%d] = %.12g has not converged to pi_%d = %.12g although exp(Q 100) has", c.Model, i, j, p[i][j], j, pi[j])
				}
			}
		}
		o.Class("converged-at-100")
	} else {
		o.Class("not-converged-at-100")
	}

	o.NonTrivial = nonTrivial(c)
	o.Class("model=%s", c.Model)
	o.Class("%s: %s", c.Model, c.Regime)
	return seen, nil
}

// walkOne takes ONE Pij object through the lengths of c.Seq (NewPij at the first, SetLength for the
// others) and judges every state it is in with the clauses of the statement: P(0) = I, entries in
// [0,1], rows summing to 1, detailed balance, equality with exp(Qt) of the harness and with a fresh
// Pij of that length. What the object held before must not show.
func walkOne(m models.Model, c mCase, qs []matrix, pi []float64, o *pbt.Outcome) error {
	if len(c.Seq) == 0 {
		return nil
	}
	n := m.NState()
	var obj *models.Pij
	prev := -1.0
	for k, t := range c.Seq {
		var e error
		if k == 0 {
			obj, e = models.NewPij(m, t)
		} else {
			e = obj.SetLength(t)
		}
		if e != nil {
			return fmt.Errorf("%s: step %d of the lengths %v on one Pij object (length %g) fails: %v", c.Model, k, c.Seq, t, e)
		}
		p := read(obj, n)
		where := fmt.Sprintf("%s: one Pij object taken through the lengths %v, at step %d (t=%g)", c.Model, c.Seq, k, t)
		if t == 0 {
			if d, at := maxDiff(p, identity(n)); d > tol {
				return fmt.Errorf("%s: P(0) is not the identity: entry (%d,%d) = %.12g", where, at[0], at[1], p[at[0]][at[1]])
			}
		}
		for i := 0; i < n; i++ {
			sum := 0.0
			for j := 0; j < n; j++ {
				v := p[i][j]
				if math.IsNaN(v) || v < 0 || v > 1+tol {
					return fmt.Errorf("%s: P[%d][%d] = %.12g is not a probability", where, i, j, v)
				}
				sum += v
			}
			if math.Abs(sum-1) > tol {
				return fmt.Errorf("%s: row %d sums to %.12g", where, i, sum)
			}
		}
		for i := 0; i < n; i++ {
			for j := i + 1; j < n; j++ {
				if d := math.Abs(pi[i]*p[i][j] - pi[j]*p[j][i]); d > tol {
					return fmt.Errorf("%s: detailed balance broken at (%d,%d): pi_i P_ij = %.12g, pi_j P_ji = %.12g", where, i, j, pi[i]*p[i][j], pi[j]*p[j][i])
				}
			}
		}
		best, bestAt, bestWant, judged := math.Inf(1), [2]int{}, 0.0, false
		for _, q := range qs {
			w := expm(q, t)
			if !oracleSane(w) {
				o.Ill++
				continue
			}
			judged = true
			if d, at := maxDiff(p, w); d < best {
				best, bestAt, bestWant = d, at, w[at[0]][at[1]]
			}
		}
		if judged && best > tol {
			return fmt.Errorf("%s: P[%d][%d] = %.12g, exp(Qt) of the textbook rate matrix gives %.12g (difference %.3g)", where, bestAt[0], bestAt[1], p[bestAt[0]][bestAt[1]], bestWant, best)
		}
		fresh, e := observe(m, t)
		if e != nil {
			return fmt.Errorf("%s: NewPij(%g) fails: %v", c.Model, t, e)
		}
		if d, at := maxDiff(p, fresh); d > tol {
			return fmt.Errorf("%s: P[%d][%d] = %.12g, a fresh NewPij of the same length gives %.12g", where, at[0], at[1], p[at[0]][at[1]], fresh[at[0]][at[1]])
		}
		switch {
		case k == 0:
		case t == 0 && prev > 0:
			o.Class("walk: 0 after a positive length")
		case t == prev:
			o.Class("walk: length repeated")
		case t > 0 && prev == 0:
			o.Class("walk: positive after 0")
		}
		if t > 0 && t < tMin {
			o.Class("walk: t<1e-8")
		}
		prev = t
	}
	o.Class("walk: %d lengths", len(c.Seq))
	return nil
}

func oracleSane(w matrix) bool {
	for i := range w {
		s := 0.0
		for _, v := range w[i] {
			if math.IsNaN(v) || v < -tolOracle {
				return false
			}
			s += v
		}
		if math.Abs(s-1) > tolOracle {
			return false
		}
	}
	return true
}

func TestNucleotide(t *testing.T) { pbt.Run(t, genDNA, checkModel) }
func TestProtein(t *testing.T)    { pbt.Run(t, genProt, checkModel) }

// ---- one model object initialised several times ------------------------------------------------------------
//
// The pinned TestK2PPij builds the Pij before InitModel and calls InitModel again for every kappa: a
// model object is a container of parameters that InitModel replaces. After InitModel(B) every clause
// must hold for B whatever the object was used for before; going back to A must give the first matrices
// again.
//
// Pij objects created before the re-initialisation: models.Pij keeps the matrix of its current length
// and SetLength recomputes it only when the length changes (model.go: `if pij.length != l`); nothing
// is said about an object whose model changed underneath. Its values at the unchanged length are
// therefore NOT judged; after SetLength to another length (what TestK2PPij does) it must give the
// matrix of the new parameters.
//
// Protein models are judged in the same way (one object initialised three times) since the repair
// 31adb09; before it a second InitModel gave non-finite matrices (props/c18/FINDINGS.md) and its
// decomposition could loop for ever, hence pbt.Guarded around every repeated InitModel of a ProtModel.

type reinitCase struct {
	A mCase `json:"a"`
	B mCase `json:"b"`
	// Bad: length of a frequency vector that InitModel must refuse, tried between the valid calls
	// (protein models; the nucleotide models validate nothing); -1 = none
	Bad int `json:"bad"`
	// Shared: the user frequencies of the protein model are handed to every InitModel in ONE caller-owned
	// buffer that is overwritten in place between the calls (InitModel keeps the slice it is given)
	Shared bool `json:"shared"`
}

func genReinit(t *rapid.T) reinitCase {
	var c reinitCase
	c.Bad = -1
	if rapid.IntRange(0, 5).Draw(t, "prot") == 0 {
		c.A = genProt(t)
		c.B = mCase{Model: c.A.Model}
		fillProt(t, &c.B)
		c.Bad = rapid.SampledFrom([]int{19, 21, -1, 0, 1, 40}).Draw(t, "bad")
		c.Shared = rapid.Bool().Draw(t, "shared")
		return c
	}
	c.A = genDNA(t)
	c.B = mCase{Model: c.A.Model}
	fillDNA(t, &c.B)
	// half of the time only a part of the parameter vector changes
	switch rapid.IntRange(0, 3).Draw(t, "partial") {
	case 0: // same frequencies, other rates
		c.B.Pi = c.A.Pi
	case 1: // same rates, other frequencies
		c.B.Kappa, c.B.Kappa1, c.B.Kappa2, c.B.Rates = c.A.Kappa, c.A.Kappa1, c.A.Kappa2, c.A.Rates
	}
	return c
}

func sameParams(a, b mCase) bool {
	eq := func(x, y []float64) bool {
		if len(x) != len(y) {
			return false
		}
		for i := range x {
			if x[i] != y[i] {
				return false
			}
		}
		return true
	}
	return a.Kappa == b.Kappa && a.Kappa1 == b.Kappa1 && a.Kappa2 == b.Kappa2 && eq(a.Rates, b.Rates) && eq(a.Pi, b.Pi)
}

func checkReinit(c reinitCase) (o pbt.Outcome, err error) {
	if c.A.Model != c.B.Model || !domainOK(c.A) || !domainOK(c.B) {
		o.Skip = true
		return o, nil
	}
	name := c.A.Model
	if isProt(name) {
		return checkReinitProtein(c)
	}
	m, e := newModelObject(name)
	if e != nil {
		return o, fmt.Errorf("harness: %v", e)
	}
	n := m.NState()
	// a Pij built before any InitModel, as TestK2PPij does; only for the models whose constructor sets
	// default parameters (F81, TN93 and GTR have no eigen system before InitModel)
	var early *models.Pij
	if name == "jc" || name == "k2p" || name == "f84" {
		if early, e = models.NewPij(m, 1.0); e != nil {
			return o, fmt.Errorf("%s: NewPij on a model with its default parameters: %v", name, e)
		}
	}
	// round 0: the object as its constructor leaves it, where that is a usable model
	if d, ok := defaultCase(name, c.A.Ts); ok {
		if _, err = checkOn(m, d, &o); err != nil {
			return o, fmt.Errorf("round 0 (model object as the constructor leaves it, no InitModel): %v", err)
		}
		o.Class("default-constructed model judged")
	}
	// round 1: A
	if e = initModel(m, c.A); e != nil {
		return o, fmt.Errorf("%s: InitModel(A) fails: %v", name, e)
	}
	firstA, err := checkOn(m, c.A, &o)
	if err != nil {
		return o, fmt.Errorf("round 1 (first parameters): %v", err)
	}
	// two Pij objects alive across the re-initialisation
	tOld := c.A.Ts[len(c.A.Ts)/2]
	old1, e1 := models.NewPij(m, tOld)
	old2, e2 := models.NewPij(m, c.A.Ts[0])
	if e1 != nil || e2 != nil {
		return o, fmt.Errorf("%s: NewPij fails: %v %v", name, e1, e2)
	}
	// they are read before the re-initialisation (an accessor may keep what it returned)
	for _, old := range []*models.Pij{early, old1, old2} {
		if old != nil {
			read(old, n)
		}
	}
	// round 2: B on the same object
	if e = initModel(m, c.B); e != nil {
		return o, fmt.Errorf("%s: InitModel(B) on a model already initialised and used fails: %v", name, e)
	}
	if _, err = checkOn(m, c.B, &o); err != nil {
		return o, fmt.Errorf("round 2 (model object already initialised with %s and used, then InitModel with the second parameters): %v", paramString(c.A), err)
	}
	qsB, _, err := textbookQ(c.B)
	if err != nil {
		return o, err
	}
	// the objects created before, at their UNCHANGED length after SetLength(that length)
	if err = sameLength(m, c.B, qsB, []*models.Pij{early, old1, old2}, []float64{1.0, tOld, c.A.Ts[0]}, &o); err != nil {
		return o, err
	}
	// the objects created before, moved to another length
	for k, old := range []*models.Pij{early, old1, old2} {
		if old == nil {
			continue
		}
		for _, t := range c.B.Ts {
			if t == tOld || t == c.A.Ts[0] || t == 1.0 {
				continue // unchanged length: not judged (see above)
			}
			if e = old.SetLength(t); e != nil {
				return o, fmt.Errorf("%s: SetLength fails: %v", name, e)
			}
			best := math.Inf(1)
			var at [2]int
			for _, q := range qsB {
				if d, a := maxDiff(read(old, n), expm(q, t)); d < best {
					best, at = d, a
				}
			}
			if best > tol {
				return o, fmt.Errorf("%s: a Pij object created before the model was re-initialised (object %d), moved to t=%g: P[%d][%d] = %.12g differs from exp(Qt) of the second parameters by %.3g", name, k, t, at[0], at[1], old.Pij(at[0], at[1]), best)
			}
		}
	}
	// round 3: back to A
	if e = initModel(m, c.A); e != nil {
		return o, fmt.Errorf("%s: InitModel(A) again fails: %v", name, e)
	}
	for k, t := range c.A.Ts {
		p, e := observe(m, t)
		if e != nil {
			return o, fmt.Errorf("%s: NewPij fails: %v", name, e)
		}
		if d, at := maxDiff(p, firstA[k]); d > 1e-12 {
			return o, fmt.Errorf("%s: back to the first parameters, t=%g: P[%d][%d] = %.15g, it was %.15g the first time", name, t, at[0], at[1], p[at[0]][at[1]], firstA[k][at[0]][at[1]])
		}
	}
	o.NonTrivial = !sameParams(c.A, c.B) && (nonTrivial(c.A) || nonTrivial(c.B))
	switch {
	case sameParams(c.A, c.B):
		o.Class("re-initialised with the same parameters")
	case len(c.A.Pi) > 0 && sameParams(mCase{Pi: c.A.Pi}, mCase{Pi: c.B.Pi}):
		o.Class("re-initialised: same frequencies, other rates")
	case sameParams(mCase{Kappa: c.A.Kappa, Kappa1: c.A.Kappa1, Kappa2: c.A.Kappa2, Rates: c.A.Rates}, mCase{Kappa: c.B.Kappa, Kappa1: c.B.Kappa1, Kappa2: c.B.Kappa2, Rates: c.B.Rates}):
		o.Class("re-initialised: same rates, other frequencies")
	default:
		o.Class("re-initialised: everything changes")
	}
	return o, nil
}

// sameLength: Pij objects created (and read) before the model was re-initialised with the parameters of
// cb, asked again for their UNCHANGED length. Contract judged, for every model: after SetLength(t) (any
// t, the same one included) a Pij gives exp(Q t) of the model's CURRENT parameters. Reads of an old Pij
// after a re-initialisation without any SetLength are unspecified and not judged. Before the repair
// 39ddaed SetLength skipped the computation when the length was unchanged and the eigen-based models
// kept the previous parameters' matrix (props/c18/FINDINGS.md).
func sameLength(m models.Model, cb mCase, qsB []matrix, olds []*models.Pij, lens []float64, o *pbt.Outcome) error {
	n := m.NState()
	for k, old := range olds {
		if old == nil {
			continue
		}
		t := lens[k]
		if e := old.SetLength(t); e != nil {
			return fmt.Errorf("%s: SetLength fails: %v", cb.Model, e)
		}
		best := math.Inf(1)
		var at [2]int
		for _, q := range qsB {
			if d, a := maxDiff(read(old, n), expm(q, t)); d < best {
				best, at = d, a
			}
		}
		if best > tol {
			return fmt.Errorf("%s: a Pij object created and read before the model was re-initialised (object %d), after SetLength to its unchanged length t=%g: P[%d][%d] = %.12g differs from exp(Qt) of the second parameters (%s) by %.3g", cb.Model, k, t, at[0], at[1], old.Pij(at[0], at[1]), paramString(cb), best)
		}
		o.Class("old Pij at its unchanged length after SetLength: judged")
	}
	return nil
}

// TestKnownPijSameLength: regression of the repaired finding 39ddaed (F81: NewPij(m,0.5), InitModel with
// other frequencies, SetLength(0.5) still gave the first frequencies' matrix). Must pass silently.
func TestKnownPijSameLength(t *testing.T) {
	a := mCase{Model: "f81", Pi: []float64{0.25, 0.25, 0.25, 0.25}, Ts: []float64{0.5}, Split: 0.5}
	b := mCase{Model: "f81", Pi: []float64{0.1, 0.2, 0.3, 0.4}, Ts: []float64{0.5}, Split: 0.5}
	m, e := buildModel(a)
	if e != nil {
		pbt.Fail(t, a, "f81: InitModel fails: %v", e)
		return
	}
	p, e := models.NewPij(m, 0.5)
	if e != nil {
		pbt.Fail(t, a, "f81: NewPij fails: %v", e)
		return
	}
	read(p, 4)
	initModel(m, b)
	p.SetLength(0.5)
	qs, _, _ := textbookQ(b)
	want := expm(qs[0], 0.5)
	if d, at := maxDiff(read(p, 4), want); d > tol {
		pbt.Fail(t, b, "F81: NewPij(m,0.5), InitModel with other frequencies, SetLength(0.5): P[%d][%d] = %.6f is still the value of the first frequencies, exp(Qt) of the new ones gives %.6f", at[0], at[1], p.Pij(at[0], at[1]), want[at[0]][at[1]])
		return
	}
	var o pbt.Outcome
	o.NonTrivial = true
	pbt.Note(t, b, o)
	pbt.Complete(t)
}

func paramString(c mCase) string {
	return fmt.Sprintf("kappa=%g kappa1=%g kappa2=%g rates=%v pi=%v", c.Kappa, c.Kappa1, c.Kappa2, c.Rates, c.Pi)
}

// reinitGuarded: InitModel on a ProtModel that was initialised before. Before 31adb09 the
// decomposition of the then non-finite matrix sometimes never returned (gonum Dgebal): the call is
// bounded (20 s for a call that takes 0.1 ms; the process exits and the driver re-runs the case)
func reinitGuarded(test string, m models.Model, c mCase, buf []float64) (err error) {
	pbt.Guarded(test, c, pbt.WatchdogLimit(20*time.Second), func() { err = initProtein(m, c, buf) })
	return
}

// initProtein: InitModel of a protein model with the frequencies of c. With a buffer, user frequencies
// are written into that buffer and the buffer itself is passed: the same backing array call after call
func initProtein(mod models.Model, c mCase, buf []float64) error {
	m, ok := mod.(*protein.ProtModel)
	if !ok || buf == nil || c.Pi == nil {
		return initModel(mod, c)
	}
	copy(buf, c.Pi)
	return m.InitModel(buf)
}

// rejectedInit: InitModel with a frequency vector of the wrong length on a model initialised with prev.
// The call must be refused, and the model must remain ONE consistent model: its Pi() are the
// frequencies of prev or the published ones (the documented default), and every clause holds for that
// same parameter set.
func rejectedInit(mod models.Model, prev mCase, n int, o *pbt.Outcome) error {
	m, ok := mod.(*protein.ProtModel)
	if !ok || n < 0 {
		return nil
	}
	bad := make([]float64, n)
	for i := range bad {
		bad[i] = 1 / float64(n)
	}
	var e error
	pbt.Guarded("TestReinit", prev, pbt.WatchdogLimit(20*time.Second), func() { e = m.InitModel(bad) })
	if e == nil {
		return fmt.Errorf("%s: InitModel accepts a vector of %d frequencies", prev.Model, n)
	}
	published := mCase{Model: prev.Model, Ts: prev.Ts, Split: prev.Split, Regime: "model-frequencies"}
	var first error
	for _, cand := range []mCase{prev, published} {
		_, w, err := refmodels.ProtData(cand.Model)
		if err != nil {
			return err
		}
		if cand.Pi != nil {
			w = cand.Pi
		}
		match := true
		for i := 0; i < 20; i++ {
			if math.Abs(m.Pi(i)-w[i]) > 1e-15 {
				match = false
			}
		}
		if !match {
			continue
		}
		var scratch pbt.Outcome
		if _, err = checkOn(m, cand, &scratch); err == nil {
			o.Class("refused InitModel (%d frequencies): model left consistent", n)
			return nil
		}
		if first == nil {
			first = fmt.Errorf("Pi() gives the %s frequencies but: %v", cand.Regime, err)
		}
	}
	if first == nil {
		first = fmt.Errorf("Pi() gives neither the frequencies in use before the call nor the published ones")
	}
	return fmt.Errorf("%s: after InitModel refused a vector of %d frequencies (%v) the model is not one consistent model any more: %v", prev.Model, n, e, first)
}

func checkReinitProtein(c reinitCase) (o pbt.Outcome, err error) {
	name := c.A.Model
	var buf []float64
	if c.Shared {
		buf = make([]float64, 20)
	}
	m, e := newModelObject(name)
	if e == nil {
		e = initProtein(m, c.A, buf)
	}
	if e != nil {
		return o, fmt.Errorf("%s: model initialisation fails on valid parameters: %v", name, e)
	}
	firstA, err := checkOn(m, c.A, &o)
	if err != nil {
		return o, fmt.Errorf("round 1 (first frequencies): %v", err)
	}
	if c.Shared && (c.A.Pi != nil || c.B.Pi != nil) {
		o.Class("protein: one caller-owned frequency buffer overwritten in place")
	}
	tOld := c.A.Ts[len(c.A.Ts)/2]
	old, e := models.NewPij(m, tOld)
	if e != nil {
		return o, fmt.Errorf("%s: NewPij fails: %v", name, e)
	}
	read(old, 20)
	if err = rejectedInit(m, c.A, c.Bad, &o); err != nil {
		return o, fmt.Errorf("after round 1: %v", err)
	}
	if e = reinitGuarded("TestReinit", m, c.B, buf); e != nil {
		return o, fmt.Errorf("%s: InitModel with the second frequencies on a model already initialised and used fails: %v", name, e)
	}
	if _, err = checkOn(m, c.B, &o); err != nil {
		return o, fmt.Errorf("round 2 (model object already initialised and used, then InitModel with the second frequencies): %v", err)
	}
	qsB, _, err := textbookQ(c.B)
	if err != nil {
		return o, err
	}
	if err = sameLength(m, c.B, qsB, []*models.Pij{old}, []float64{tOld}, &o); err != nil {
		return o, err
	}
	// the Pij object created before, moved to another length
	for _, t := range c.B.Ts {
		if t == tOld {
			continue
		}
		if e = old.SetLength(t); e != nil {
			return o, fmt.Errorf("%s: SetLength fails: %v", name, e)
		}
		best := math.Inf(1)
		var at [2]int
		for _, q := range qsB {
			if d, a := maxDiff(read(old, 20), expm(q, t)); d < best {
				best, at = d, a
			}
		}
		if best > tol {
			return o, fmt.Errorf("%s: a Pij object created before the model was re-initialised, moved to t=%g: P[%d][%d] = %.12g differs from exp(Qt) of the second frequencies by %.3g", name, t, at[0], at[1], old.Pij(at[0], at[1]), best)
		}
	}
	if err = rejectedInit(m, c.B, c.Bad, &o); err != nil {
		return o, fmt.Errorf("after round 2: %v", err)
	}
	if e = reinitGuarded("TestReinit", m, c.A, buf); e != nil {
		return o, fmt.Errorf("%s: InitModel with the first frequencies again fails: %v", name, e)
	}
	for k, t := range c.A.Ts {
		p, e := observe(m, t)
		if e != nil {
			return o, fmt.Errorf("%s: NewPij fails: %v", name, e)
		}
		if d, at := maxDiff(p, firstA[k]); d > 1e-12 {
			return o, fmt.Errorf("%s: back to the first frequencies, t=%g: P[%d][%d] = %.15g, it was %.15g the first time", name, t, at[0], at[1], p[at[0]][at[1]], firstA[k][at[0]][at[1]])
		}
	}
	o.NonTrivial = !sameParams(c.A, c.B)
	o.Class("protein: %s then %s", c.A.Regime, c.B.Regime)
	return o, nil
}

// TestKnownProteinReinit: regression of the repaired finding 31adb09: LG, InitModel(nil) twice gave
// P[0][0] = +Inf. Must pass; prints nothing then.
func TestKnownProteinReinit(t *testing.T) {
	c := mCase{Model: "lg", Ts: []float64{0.5}, Split: 0.5, Regime: "model-frequencies"}
	m, e := buildModel(c)
	if e != nil {
		pbt.Fail(t, c, "lg: InitModel fails: %v", e)
		return
	}
	var o pbt.Outcome
	err := reinitGuarded("TestKnownProteinReinit", m, c, nil)
	if err == nil {
		_, err = pbt.Eval(c, func(c mCase) (pbt.Outcome, error) {
			_, e := checkOn(m, c, &o)
			return o, e
		})
	}
	if err != nil {
		pbt.Fail(t, c, "a ProtModel initialised twice (LG, InitModel(nil); InitModel(nil)) does not give a transition matrix: %v", err)
		return
	}
	pbt.Note(t, c, o)
	pbt.Complete(t)
}

func TestReinit(t *testing.T) { pbt.Run(t, genReinit, checkReinit) }

// ---- models initialised concurrently -------------------------------------------------------------------------
//
// Independent model objects are independent: the distance code of goalign evaluates models in worker
// goroutines, and nothing in the API asks the caller to serialise the initialisation of DIFFERENT objects.
// Several models of every kind are built, initialised and evaluated each in its own goroutine, started
// together, several times over; every matrix must equal (1e-12) the one the same parameters give
// sequentially, which the other runs judge against the oracle.

type concCase struct {
	Models []mCase `json:"models"`
	Rounds int     `json:"rounds"`
}

func genConc(t *rapid.T) concCase {
	var c concCase
	n := rapid.IntRange(4, 12).Draw(t, "nmodels")
	for i := 0; i < n; i++ {
		if rapid.IntRange(0, 4).Draw(t, "prot") == 0 {
			c.Models = append(c.Models, genProt(t))
		} else {
			c.Models = append(c.Models, genDNA(t))
		}
	}
	c.Rounds = rapid.IntRange(5, 20).Draw(t, "rounds")
	return c
}

func evalModel(c mCase) (out []matrix, err error) {
	defer func() {
		if r := recover(); r != nil {
			err = fmt.Errorf("panic: %v", r)
		}
	}()
	m, e := buildModel(c)
	if e != nil {
		return nil, e
	}
	for _, t := range c.Ts {
		p, e := observe(m, t)
		if e != nil {
			return nil, e
		}
		out = append(out, p)
	}
	return out, nil
}

func checkConc(c concCase) (o pbt.Outcome, err error) {
	if len(c.Models) < 2 || c.Rounds < 1 || c.Rounds > 100 {
		o.Skip = true
		return o, nil
	}
	for _, mc := range c.Models {
		if !domainOK(mc) {
			o.Skip = true
			return o, nil
		}
	}
	want := make([][]matrix, len(c.Models))
	for i, mc := range c.Models {
		if want[i], err = evalModel(mc); err != nil {
			return o, fmt.Errorf("%s, alone: %v", mc.Model, err)
		}
	}
	for round := 0; round < c.Rounds; round++ {
		got := make([][]matrix, len(c.Models))
		errs := make([]error, len(c.Models))
		start := make(chan struct{})
		var wg sync.WaitGroup
		for i := range c.Models {
			wg.Add(1)
			go func(i int) {
				defer wg.Done()
				<-start
				got[i], errs[i] = evalModel(c.Models[i])
			}(i)
		}
		close(start)
		wg.Wait()
		for i, mc := range c.Models {
			if errs[i] != nil {
				return o, fmt.Errorf("%s (%s) initialised while %d other model objects are initialised in other goroutines: %v", mc.Model, paramString(mc), len(c.Models)-1, errs[i])
			}
			for k := range want[i] {
				if d, at := maxDiff(got[i][k], want[i][k]); d > 1e-12 {
					return o, fmt.Errorf("%s (%s) initialised while %d other model objects are initialised in other goroutines (round %d): P(%g)[%d][%d] = %.12g, alone the same parameters give %.12g", mc.Model, paramString(mc), len(c.Models)-1, round+1, mc.Ts[k], at[0], at[1], got[i][k][at[0]][at[1]], want[i][k][at[0]][at[1]])
				}
			}
		}
	}
	o.NonTrivial = true
	o.Class("models in parallel: %d", len(c.Models))
	return o, nil
}

func TestConcurrent(t *testing.T) { pbt.Run(t, genConc, checkConc) }

// ---- the corners of the parameter domain, enumerated -------------------------------------------------

func TestCorners(t *testing.T) {
	ks := []float64{0.05, 1, 50}
	pis := [][]float64{
		{0.25, 0.25, 0.25, 0.25},
		{0.01, 0.01, 0.01, 0.97},
		{0.97, 0.01, 0.01, 0.01},
		{0.01, 0.49, 0.01, 0.49},
		{0.49, 0.01, 0.49, 0.01},
		{0.1, 0.2, 0.3, 0.4},
		{0.4, 0.3, 0.299999, 1e-6},
		{1e-8, 0.3, 0.3, 0.4 - 1e-8},
	}
	ts := []float64{tMin, 1e-3, 0.1, 1, 10, tMax}
	pbt.Enumerate(t, "every model at the corners of its parameter domain (kappa, rates in {min,1,max}; six frequency vectors incl. the floor 0.01; t in {1e-8,1e-3,0.1,1,10,100})",
		func(yield func(mCase) bool) {
			emit := func(c mCase) bool {
				c.Ts = ts
				c.Split = 0.5
				c.Regime = "corner"
				return yield(c)
			}
			if !emit(mCase{Model: "jc"}) {
				return
			}
			// the models as their constructors leave them (no InitModel)
			for _, name := range []string{"jc", "k2p", "f84"} {
				d, _ := defaultCase(name, ts)
				if !yield(d) {
					return
				}
			}
			for _, k := range ks {
				if !emit(mCase{Model: "k2p", Kappa: k}) {
					return
				}
			}
			for _, pi := range pis {
				if !emit(mCase{Model: "f81", Pi: pi}) {
					return
				}
				for _, k := range ks {
					if !emit(mCase{Model: "f84", Kappa: k, Pi: pi}) {
						return
					}
					for _, k2 := range ks {
						if !emit(mCase{Model: "tn93", Kappa1: k, Kappa2: k2, Pi: pi}) {
							return
						}
					}
				}
				rs := []float64{0.02, 1, 50}
				// every rate at an end of its range or at 1: 3^6 vectors
				for code := 0; code < 729; code++ {
					r := make([]float64, 6)
					x := code
					for i := range r {
						r[i] = rs[x%3]
						x /= 3
					}
					if !emit(mCase{Model: "gtr", Rates: r, Pi: pi}) {
						return
					}
				}
			}
			for _, name := range protModels {
				if !emit(mCase{Model: name}) {
					return
				}
				eq := make([]float64, 20)
				for i := range eq {
					eq[i] = 0.05
				}
				if !emit(mCase{Model: name, Pi: eq}) {
					return
				}
				for rare := 0; rare < 20; rare += 7 {
					p := make([]float64, 20)
					for i := range p {
						p[i] = (1 - 0.002) / 19
					}
					p[rare] = 0.002
					if !emit(mCase{Model: name, Pi: p}) {
						return
					}
				}
			}
		},
		func(c mCase) (pbt.Outcome, error) {
			o, err := checkModel(c)
			if err == nil && o.NonTrivial {
				o.Key = fmt.Sprintf("%s %v %v %v %v %v", c.Model, c.Kappa, c.Kappa1, c.Kappa2, c.Rates, c.Pi)
			}
			return o, err
		})
}
