// C05 - Translation follows the genetic code for every codon, frame and ambiguity
package c05

import (
	"fmt"
	"io"
	"log"
	"os"
	"sort"
	"strings"
	"testing"

	"github.com/evolbioinfo/goalign/align"
	"pgregory.net/rapid"
	"verif/internal/cli"
	"verif/internal/gen"
	"verif/internal/pbt"
)

func TestMain(m *testing.M) {
	log.SetOutput(io.Discard)
	pbt.Main(m, "C05")
}

// ---- oracle: NCBI translation tables 1, 2 and 5 in the compact NCBI form ---------------------
//
// https://www.ncbi.nlm.nih.gov/Taxonomy/Utils/wprintgc.cgi (transl_table=1, 2, 5), written from
// the published tables, not from align/const.go.

const (
	ncbiBase1 = "TTTTTTTTTTTTTTTTCCCCCCCCCCCCCCCCAAAAAAAAAAAAAAAAGGGGGGGGGGGGGGGG"
	ncbiBase2 = "TTTTCCCCAAAAGGGGTTTTCCCCAAAAGGGGTTTTCCCCAAAAGGGGTTTTCCCCAAAAGGGG"
	ncbiBase3 = "TCAGTCAGTCAGTCAGTCAGTCAGTCAGTCAGTCAGTCAGTCAGTCAGTCAGTCAGTCAGTCAG"
)

var ncbiAAs = map[string]string{
	// 1. The Standard Code
	"standard": "FFLLSSSSYY**CC*WLLLLPPPPHHQQRRRRIIIMTTTTNNKKSSRRVVVVAAAADDEEGGGG",
	// 2. The Vertebrate Mitochondrial Code
	"mitov": "FFLLSSSSYY**CCWWLLLLPPPPHHQQRRRRIIMMTTTTNNKKSS**VVVVAAAADDEEGGGG",
	// 5. The Invertebrate Mitochondrial Code
	"mitoi": "FFLLSSSSYY**CCWWLLLLPPPPHHQQRRRRIIMMTTTTNNKKSSSSVVVVAAAADDEEGGGG",
}

var codeNames = []string{"standard", "mitov", "mitoi"}

func codeID(name string) int {
	switch name {
	case "standard":
		return align.GENETIC_CODE_STANDARD
	case "mitov":
		return align.GENETIC_CODE_VETEBRATE_MITO
	case "mitoi":
		return align.GENETIC_CODE_INVETEBRATE_MITO
	}
	panic("harness: unknown code " + name)
}

var tables = func() map[string]map[string]byte {
	m := map[string]map[string]byte{}
	for name, aas := range ncbiAAs {
		if len(aas) != 64 {
			panic("harness: table length")
		}
		t := map[string]byte{}
		for i := 0; i < 64; i++ {
			t[string([]byte{ncbiBase1[i], ncbiBase2[i], ncbiBase3[i]})] = aas[i]
		}
		if len(t) != 64 {
			panic("harness: table not complete")
		}
		m[name] = t
	}
	return m
}()

// IUPAC nucleotide codes as sets (NC-IUB 1984)
var iupacSets = map[byte]string{
	'A': "A", 'C': "C", 'G': "G", 'T': "T",
	'R': "AG", 'Y': "CT", 'S': "CG", 'W': "AT", 'K': "GT", 'M': "AC",
	'B': "CGT", 'D': "AGT", 'H': "ACT", 'V': "ACG", 'N': "ACGT",
}

// fold: ASCII upper case, then U->T
func fold(c byte) byte {
	if c >= 'a' && c <= 'z' {
		c -= 32
	}
	if c == 'U' {
		c = 'T'
	}
	return c
}

// expansions of a codon made of IUPAC codes only; ok=false otherwise
func expansions(a, b, c byte) (out []string, ok bool) {
	sa, oka := iupacSets[fold(a)]
	sb, okb := iupacSets[fold(b)]
	sc, okc := iupacSets[fold(c)]
	if !oka || !okb || !okc {
		return nil, false
	}
	for i := 0; i < len(sa); i++ {
		for j := 0; j < len(sb); j++ {
			for k := 0; k < len(sc); k++ {
				out = append(out, string([]byte{sa[i], sb[j], sc[k]}))
			}
		}
	}
	return out, true
}

// refCodon: the statement's per codon rule
func refCodon(a, b, c byte, code string) byte {
	if a == '-' && b == '-' && c == '-' {
		return '-'
	}
	exp, ok := expansions(a, b, c)
	if !ok {
		return 'X'
	}
	t := tables[code]
	aa := t[exp[0]]
	for _, e := range exp[1:] {
		if t[e] != aa {
			return 'X'
		}
	}
	return aa
}

// refTranslate: floor((L-frame)/3) residues; ok=false (an error) when that is zero
func refTranslate(s string, frame int, code string) (string, bool) {
	n := (len(s) - frame) / 3
	if len(s)-frame < 3 {
		return "", false
	}
	b := make([]byte, n)
	for i := 0; i < n; i++ {
		p := frame + 3*i
		b[i] = refCodon(s[p], s[p+1], s[p+2], code)
	}
	return string(b), true
}

func ungap(s string) string { return strings.ReplaceAll(s, "-", "") }

// special: the codon contains an ambiguity code, U, a lower case letter or a gap
func special(s string) bool {
	return strings.ContainsAny(s, "RYSWKMBDHVNUryswkmbdhvnuacgt-")
}

// ---- alphabets --------------------------------------------------------------------------------

const (
	iupacBoth = "ACGTRYSWKMBDHVNacgtryswkmbdhvn"
	// every character the nucleotide alphabet detection admits
	sigmaNoGap = iupacBoth + "Uu" + "Xx?.*Oo"
	sigma      = sigmaNoGap + "-"
)

// genNt draws a nucleotide string of length n; tier 4 is codon structured so that ambiguous
// codons that resolve to a single amino acid, and whole-gap codons, are frequent
func genNt(t *rapid.T, n int, gaps bool) string {
	tier := rapid.IntRange(0, 4).Draw(t, "tier")
	switch tier {
	case 0:
		return gen.SeqN(t, "ACGT", n)
	case 1:
		return gen.SeqN(t, "ACGTUacgtu", n)
	case 2:
		if gaps {
			return gen.SeqN(t, iupacBoth+"Uu-", n)
		}
		return gen.SeqN(t, iupacBoth+"Uu", n)
	case 3:
		if gaps {
			return gen.SeqN(t, sigma+"---", n)
		}
		return gen.SeqN(t, sigmaNoGap, n)
	}
	var b []byte
	off := rapid.IntRange(0, 2).Draw(t, "off")
	b = append(b, gen.SeqN(t, "ACGT", off)...)
	for len(b) < n {
		cod := []byte(gen.SeqN(t, "ACGT", 3))
		k := rapid.IntRange(0, 15).Draw(t, "ck")
		amb := func(p int) {
			var cands []byte
			for _, l := range []byte("RYSWKMBDHVN") {
				if strings.IndexByte(iupacSets[l], cod[p]) >= 0 {
					cands = append(cands, l)
				}
			}
			cod[p] = cands[rapid.IntRange(0, len(cands)-1).Draw(t, "amb")]
		}
		switch {
		case k < 5:
			amb(2)
		case k < 7:
			amb(0)
		case k == 7:
			amb(0)
			amb(2)
		case k <= 10 && gaps:
			cod = []byte("---")
		case k == 11 && gaps:
			cod[rapid.IntRange(0, 2).Draw(t, "gp")] = '-'
		}
		for i := range cod {
			switch rapid.IntRange(0, 7).Draw(t, "cf") {
			case 0:
				if cod[i] == 'T' {
					cod[i] = 'U'
				}
			case 1:
				if cod[i] >= 'A' && cod[i] <= 'Z' {
					cod[i] += 32
				}
			case 2:
				if cod[i] == 'T' {
					cod[i] = 'u'
				}
			}
		}
		b = append(b, cod...)
	}
	return string(b[:n])
}

// genNames draws n distinct row names: plain s0..sn-1, or a hostile pool with case variants of
// one name, names that are prefixes of each other and names holding a blank (all legal, distinct
// names: every lookup by name must find exactly the row that carries it)
func genNames(t *rapid.T, n int) []string {
	out := make([]string, n)
	if rapid.IntRange(0, 2).Draw(t, "plainnames") != 0 {
		for i := range out {
			out[i] = fmt.Sprintf("s%d", i)
		}
		return out
	}
	base := rapid.SampledFrom([]string{"HXB2", "Ref", "seq", "aB"}).Draw(t, "namebase")
	pool := []string{base, strings.ToLower(base), strings.ToUpper(base), strings.ToUpper(base[:1]) + strings.ToLower(base[1:]),
		base + "1", base + "10", base + "_1", base + " x", base + " X", strings.ToLower(base) + " x", base[:len(base)-1], "x" + base}
	var distinct []string
	seen := map[string]bool{}
	for _, p := range pool {
		if !seen[p] {
			seen[p] = true
			distinct = append(distinct, p)
		}
	}
	perm := gen.Perm(t, len(distinct), "namepick")
	for i := range out {
		if i < len(distinct) {
			out[i] = distinct[perm[i]]
		} else {
			out[i] = fmt.Sprintf("s%d", i)
		}
	}
	return out
}

func hostileNames(rows []gen.Row) bool {
	for i, r := range rows {
		if r.Name != fmt.Sprintf("s%d", i) {
			return true
		}
	}
	return false
}

// drawPlan: one case in three gets its alignment through a drawn chain of public operations that
// ends on exactly the content asked for (gen.DrawPlan); the others are freshly built
func drawPlan(t *rapid.T, a gen.Ali, junk string) gen.Plan {
	if len(a.Rows) == 0 || len(a.Rows) > 20 || a.Length() < 1 || rapid.IntRange(0, 2).Draw(t, "prov") != 0 {
		return gen.Plan{}
	}
	return gen.DrawPlan(t, a, junk, 3)
}

func alphabetOf(a gen.Ali) int {
	if a.Alphabet == "aa" {
		return align.AMINOACIDS
	}
	return align.NUCLEOTIDS
}

// buildAli builds the alignment through its plan; a chain that does not end on the content (not
// this property's business) is replaced by a fresh construction and counted
func buildAli(a gen.Ali, p gen.Plan, o *pbt.Outcome) align.Alignment {
	if len(p.Steps) == 0 {
		return gen.MustBuild(a)
	}
	al, ok := gen.BuildVia(a, p)
	if !ok || al.Alphabet() != alphabetOf(a) {
		o.Class("provenance-unusable")
		return gen.MustBuild(a)
	}
	for _, k := range p.Kinds() {
		o.Class("provenance:%s", k)
	}
	return al
}

// bagPlan: the same idea for sequence sets (rows of different lengths): clone, read every way,
// or names permuted along a cycle and renamed back
type bagPlan struct {
	Steps []string `json:"steps,omitempty"`
	Cycle []int    `json:"cycle,omitempty"`
}

func drawBagPlan(t *rapid.T, rows []gen.Row) bagPlan {
	var p bagPlan
	if len(rows) == 0 || len(rows) > 20 || rapid.IntRange(0, 2).Draw(t, "bagprov") != 0 {
		return p
	}
	distinct := map[string]bool{}
	for _, r := range rows {
		distinct[r.Name] = true
	}
	ns := rapid.IntRange(1, 3).Draw(t, "bagsteps")
	for i := 0; i < ns; i++ {
		k := rapid.SampledFrom([]string{"clone", "touch", "rename-cycle", "rename-cycle"}).Draw(t, "bagkind")
		if k == "rename-cycle" {
			if len(p.Cycle) > 0 || len(rows) < 2 || len(distinct) != len(rows) {
				continue
			}
			p.Cycle = gen.Perm(t, len(rows), "cyclerows")[:rapid.IntRange(2, len(rows)).Draw(t, "cyclelen")]
		}
		p.Steps = append(p.Steps, k)
	}
	return p
}

func buildBag(a gen.Ali, p bagPlan, o *pbt.Outcome) align.SeqBag {
	if len(p.Steps) == 0 {
		return gen.BuildBag(a)
	}
	pre := append([]gen.Row{}, a.Rows...)
	for i, r := range p.Cycle {
		pre[r].Name = a.Rows[p.Cycle[(i+1)%len(p.Cycle)]].Name
	}
	var sb align.SeqBag = gen.BuildBag(gen.Ali{Rows: pre, Alphabet: a.Alphabet})
	ok := true
	for _, k := range p.Steps {
		switch k {
		case "clone":
			c, e := sb.CloneSeqBag()
			if e != nil {
				ok = false
			} else {
				sb = c
			}
		case "touch":
			for i := 0; i < sb.NbSequences(); i++ {
				sb.GetSequenceById(i)
				sb.GetSequenceCharById(i)
				if n, in := sb.GetSequenceNameById(i); in {
					sb.GetSequence(n)
					sb.GetSequenceChar(n)
				}
			}
			sb.IterateChar(func(name string, sequence []uint8) bool { return false })
			_ = sb.Sequences()
		case "rename-cycle":
			m := map[string]string{}
			for i := range pre {
				if pre[i].Name != a.Rows[i].Name {
					m[pre[i].Name] = a.Rows[i].Name
				}
			}
			sb.Rename(m)
		}
	}
	if !ok || !gen.SameRows(gen.Snapshot(sb), a.Rows) || sb.Alphabet() != alphabetOf(a) {
		o.Class("provenance-unusable")
		return gen.BuildBag(a)
	}
	for _, k := range p.Steps {
		o.Class("provenance:%s", k)
	}
	return sb
}

func genLen(t *rapid.T, max int) int {
	if rapid.IntRange(0, 7).Draw(t, "short") == 0 {
		return rapid.IntRange(0, 6).Draw(t, "L")
	}
	return rapid.IntRange(5, max).Draw(t, "L")
}

// ---- 1. every codon, exhaustively --------------------------------------------------------------

type codonCase struct {
	Codon string `json:"codon"`
	Code  string `json:"code"`
}

func checkCodon(c codonCase) (o pbt.Outcome, err error) {
	want := refCodon(c.Codon[0], c.Codon[1], c.Codon[2], c.Code)
	s := align.NewSequence("s", []uint8(c.Codon), "")
	tr, e := s.Translate(0, codeID(c.Code))
	if e != nil {
		return o, fmt.Errorf("Translate(%q, frame 0, %s) fails: %v", c.Codon, c.Code, e)
	}
	if tr.Sequence() != string(want) {
		return o, fmt.Errorf("Translate(%q, frame 0, %s) = %q, the NCBI table gives %q", c.Codon, c.Code, tr.Sequence(), string(want))
	}
	if s.Sequence() != c.Codon {
		return o, fmt.Errorf("Translate modified its receiver: %q -> %q", c.Codon, s.Sequence())
	}
	// the same codon behind one and two leading bases (frames 1 and 2), and followed by two
	// bases that must not be translated
	for f := 1; f <= 2; f++ {
		s2 := align.NewSequence("s", []uint8("ACG"[:f]+c.Codon+"TT"[:3-f]), "")
		tr2, e2 := s2.Translate(f, codeID(c.Code))
		if e2 != nil || tr2.Sequence() != string(want) {
			return o, fmt.Errorf("Translate(%q, frame %d, %s) = %q,%v want %q", s2.Sequence(), f, c.Code, seqOf(tr2), e2, string(want))
		}
	}
	// the expansion helper, once per codon
	if c.Code == "standard" {
		got := align.GenAllPossibleCodons(c.Codon[0], c.Codon[1], c.Codon[2])
		exp, ok := expansions(c.Codon[0], c.Codon[1], c.Codon[2])
		switch {
		case ok:
			g := append([]string{}, got...)
			sort.Strings(g)
			sort.Strings(exp)
			if strings.Join(g, ",") != strings.Join(exp, ",") {
				return o, fmt.Errorf("GenAllPossibleCodons(%q) = %v, IUPAC expansion is %v", c.Codon, got, exp)
			}
		case strings.Contains(c.Codon, "-") && func() bool {
			for i := 0; i < 3; i++ {
				if _, in := iupacSets[fold(c.Codon[i])]; !in && c.Codon[i] != '-' {
					return false
				}
			}
			return true
		}():
			// its comment says "empty slice" for a gap, the statement needs "---" to be
			// recognised: both readings accepted
			o.Ambiguous++
		default:
			if len(got) != 0 {
				return o, fmt.Errorf("GenAllPossibleCodons(%q) = %v for a codon with a non nucleotide character", c.Codon, got)
			}
		}
	}
	o.NonTrivial = special(c.Codon)
	o.Key = c.Code + ":" + c.Codon
	switch {
	case want == '-':
		o.Class("gap-codon")
	case !special(c.Codon) && want != 'X':
		o.Class("plain-codon")
	case want == 'X':
		o.Class("X")
	default:
		o.Class("folded-or-ambiguous-resolved")
	}
	return o, nil
}

func seqOf(s align.Sequence) string {
	if s == nil {
		return "<nil>"
	}
	return s.Sequence()
}

func TestCodonsExhaustive(t *testing.T) {
	pbt.Enumerate(t, "every codon over the 40 characters the nucleotide alphabet admits (A,C,G,T,U and the 11 IUPAC codes in both cases, '-', X, x, ?, '.', '*', O, o) x 3 genetic codes, in frames 0, 1 and 2",
		func(yield func(codonCase) bool) {
			for _, code := range codeNames {
				for i := 0; i < len(sigma); i++ {
					for j := 0; j < len(sigma); j++ {
						for k := 0; k < len(sigma); k++ {
							if !yield(codonCase{string([]byte{sigma[i], sigma[j], sigma[k]}), code}) {
								return
							}
						}
					}
				}
			}
		}, checkCodon)
}

// ---- 2. sequences, sequence sets and alignments in every frame ---------------------------------

type trCase struct {
	Ali   gen.Ali  `json:"ali"`
	Kind  string   `json:"kind"`  // seq | bag | ali
	Frame int      `json:"frame"` // 0,1,2; -1 = the three frames
	Code  string   `json:"code"`
	Plan  gen.Plan `json:"plan"`    // provenance of the alignment (kind ali)
	BPlan bagPlan  `json:"bagplan"` // provenance of the sequence set (kind bag)
}

// tall: more sequences than the initial capacity of a container (100) and around the next growth
// points of its slice
var tallCounts = []int{100, 101, 102, 127, 128, 129, 150, 255, 256, 257, 300}

func genTr(t *rapid.T) trCase {
	var c trCase
	c.Kind = rapid.SampledFrom([]string{"seq", "bag", "ali", "bag", "ali"}).Draw(t, "kind")
	c.Code = rapid.SampledFrom(codeNames).Draw(t, "code")
	c.Frame = rapid.IntRange(0, 2).Draw(t, "frame")
	if c.Kind != "seq" && rapid.IntRange(0, 2).Draw(t, "three") == 0 {
		c.Frame = -1
	}
	n := 1
	if c.Kind != "seq" {
		n = rapid.IntRange(1, 5).Draw(t, "rows")
	}
	l := genLen(t, 40)
	tall := c.Kind != "seq" && rapid.IntRange(0, 11).Draw(t, "tall") == 0
	if tall {
		n = rapid.SampledFrom(tallCounts).Draw(t, "ntall")
		l = rapid.IntRange(5, 9).Draw(t, "Ltall")
	}
	c.Ali.Alphabet = "nt"
	for i := 0; i < n; i++ {
		li := l
		if c.Kind == "bag" && !tall && rapid.Bool().Draw(t, "ownlen") {
			li = genLen(t, 40)
		}
		if tall {
			// short rows, few draws: one of a handful of patterns, rotated
			if i < 6 {
				c.Ali.Rows = append(c.Ali.Rows, gen.Row{Name: fmt.Sprintf("s%d", i), Seq: genNt(t, li, true)})
			} else {
				src := c.Ali.Rows[rapid.IntRange(0, 5).Draw(t, "src")].Seq
				k := rapid.IntRange(0, li-1).Draw(t, "rot")
				c.Ali.Rows = append(c.Ali.Rows, gen.Row{Name: fmt.Sprintf("s%d", i), Seq: src[k:] + src[:k]})
			}
			continue
		}
		c.Ali.Rows = append(c.Ali.Rows, gen.Row{Name: fmt.Sprintf("s%d", i), Seq: genNt(t, li, true)})
	}
	switch c.Kind {
	case "ali":
		c.Plan = drawPlan(t, c.Ali, "ACGTN-")
	case "bag":
		c.BPlan = drawBagPlan(t, c.Ali.Rows)
	}
	return c
}

// wantRows: the rows the statement predicts; ok=false = an error is predicted
func wantRows(rows []gen.Row, frame int, code string) (want []gen.Row, ok bool) {
	for _, r := range rows {
		if frame >= 0 {
			s, k := refTranslate(r.Seq, frame, code)
			if !k {
				return nil, false
			}
			want = append(want, gen.Row{Name: r.Name, Seq: s})
			continue
		}
		for f := 0; f <= 2; f++ {
			s, k := refTranslate(r.Seq, f, code)
			if !k {
				return nil, false
			}
			want = append(want, gen.Row{Name: fmt.Sprintf("%s_%d", r.Name, f), Seq: s})
		}
	}
	return want, true
}

func checkTr(c trCase) (o pbt.Outcome, err error) {
	want, ok := wantRows(c.Ali.Rows, c.Frame, c.Code)
	var got []gen.Row
	var e error
	switch c.Kind {
	case "seq":
		r := c.Ali.Rows[0]
		s := align.NewSequence(r.Name, []uint8(r.Seq), "")
		var tr align.Sequence
		tr, e = s.Translate(c.Frame, codeID(c.Code))
		if e == nil {
			got = []gen.Row{{Name: tr.Name(), Seq: tr.Sequence()}}
		}
	case "bag":
		sb := buildBag(c.Ali, c.BPlan, &o)
		e = sb.Translate(c.Frame, codeID(c.Code))
		if e == nil {
			got = gen.Snapshot(sb)
		}
	case "ali":
		al := buildAli(c.Ali, c.Plan, &o)
		e = al.Translate(c.Frame, codeID(c.Code))
		if e == nil {
			got = gen.Snapshot(al)
			l := c.Ali.Length()
			switch {
			case c.Frame >= 0:
				if al.Length() != (l-c.Frame)/3 {
					return o, fmt.Errorf("Length() = %d after translating an alignment of length %d in frame %d, expected floor((L-frame)/3) = %d", al.Length(), l, c.Frame, (l-c.Frame)/3)
				}
				if al.NbSequences() != len(c.Ali.Rows) {
					return o, fmt.Errorf("number of sequences changed: %d -> %d", len(c.Ali.Rows), al.NbSequences())
				}
			case l%3 == 2:
				// the three frames give rows of one common length floor(L/3): a rectangular alignment
				if al.Length() != l/3 {
					return o, fmt.Errorf("Length() = %d after translating an alignment of length %d in the three frames; every row has floor(L/3) = %d residues", al.Length(), l, l/3)
				}
				o.Class("three-frames-alignment-rectangular")
			default:
				// rows of different lengths (upstream's test.sh expects that output): what
				// Length() means there is not stated
				o.Ambiguous++
				o.Class("three-frames-alignment-ragged")
			}
			if c.Frame < 0 && al.NbSequences() != 3*len(c.Ali.Rows) {
				return o, fmt.Errorf("three frames: %d rows for %d input rows", al.NbSequences(), len(c.Ali.Rows))
			}
		}
	}
	if !ok {
		if e == nil {
			return o, fmt.Errorf("a sequence gives floor((L-frame)/3) = 0 residues but no error is reported; result %s", gen.Show(got))
		}
		o.Class("error-predicted")
		o.Class("kind=%s", c.Kind)
		return o, nil
	}
	if e != nil {
		return o, fmt.Errorf("translation fails although every sequence gives at least one residue: %v", e)
	}
	if !gen.SameRows(got, want) {
		return o, fmt.Errorf("translation (frame %d, %s) differs from the NCBI table model\n got : %s\n want: %s", c.Frame, c.Code, gen.Show(got), gen.Show(want))
	}
	sp, rem := false, false
	for _, r := range c.Ali.Rows {
		sp = sp || special(r.Seq)
		f := c.Frame
		if f < 0 {
			f = 0
		}
		rem = rem || (len(r.Seq)-f)%3 != 0
	}
	o.NonTrivial = sp || rem
	o.Class("kind=%s", c.Kind)
	o.Class("frame=%d", c.Frame)
	o.Class("code=%s", c.Code)
	if len(c.Ali.Rows) >= 100 {
		o.Class("tall(>=100 sequences) kind=%s frame=%d", c.Kind, c.Frame)
	}
	if rem {
		o.Class("length-not-multiple-of-3")
	}
	for _, r := range want {
		if strings.ContainsAny(r.Seq, "-") {
			o.Class("gap-codon-present")
			break
		}
	}
	return o, nil
}

func TestTranslate(t *testing.T) { pbt.Run(t, genTr, checkTr) }

// ---- 3. CodonAlign round trip -------------------------------------------------------------------

type caCase struct {
	Nt      []gen.Row `json:"nt"`      // ungapped nucleotide sequences, in the order of the nucleotide set
	Pattern []string  `json:"pattern"` // per nucleotide row: 'x' = next residue, '-' = gap; all of one length
	Order   []int     `json:"order"`   // order of the rows in the protein alignment
	Extra   bool      `json:"extra"`   // the nucleotide set holds a sequence absent from the protein alignment
	Code    string    `json:"code"`
	PPlan   gen.Plan  `json:"protplan"` // provenance of the protein alignment
	NPlan   bagPlan   `json:"ntplan"`   // provenance of the nucleotide set
}

// caOperands: the protein alignment (the model's translation of each row with the gaps of its
// pattern, rows in c.Order) and the nucleotide set handed to CodonAlign
func caOperands(c caCase) (prot, ntb gen.Ali, protOf, trimmed map[string]string, gapcol bool, err error) {
	prot = gen.Ali{Alphabet: "aa"}
	protOf = map[string]string{}
	trimmed = map[string]string{}
	for _, i := range c.Order {
		r := c.Nt[i]
		tr, ok := refTranslate(r.Seq, 0, c.Code)
		if !ok {
			return prot, ntb, nil, nil, false, fmt.Errorf("harness: nucleotide row shorter than 3")
		}
		var b []byte
		k := 0
		for _, ch := range []byte(c.Pattern[i]) {
			if ch == 'x' {
				b = append(b, tr[k])
				k++
			} else {
				b = append(b, '-')
				gapcol = true
			}
		}
		if k != len(tr) {
			return prot, ntb, nil, nil, false, fmt.Errorf("harness: pattern does not hold the translation")
		}
		prot.Rows = append(prot.Rows, gen.Row{Name: r.Name, Seq: string(b)})
		protOf[r.Name] = string(b)
		trimmed[r.Name] = r.Seq[:3*len(tr)]
	}
	ntb = gen.Ali{Alphabet: "nt", Rows: append([]gen.Row{}, c.Nt...)}
	if c.Extra {
		ntb.Rows = append(ntb.Rows, gen.Row{Name: "absent", Seq: "ACGTACGTA"})
	}
	return
}

func genCA(t *rapid.T) caCase {
	var c caCase
	c.Code = rapid.SampledFrom(codeNames).Draw(t, "code")
	n := rapid.IntRange(1, 5).Draw(t, "rows")
	ks := make([]int, n)
	maxk := 0
	same := rapid.Bool().Draw(t, "samek")
	k0 := rapid.IntRange(1, 10).Draw(t, "k")
	for i := range ks {
		ks[i] = k0
		if !same {
			ks[i] = rapid.IntRange(1, 10).Draw(t, "ki")
		}
		if ks[i] > maxk {
			maxk = ks[i]
		}
	}
	p := maxk + rapid.IntRange(0, 4).Draw(t, "morecols")
	names := genNames(t, n)
	for i := 0; i < n; i++ {
		r := rapid.IntRange(0, 2).Draw(t, "r")
		c.Nt = append(c.Nt, gen.Row{Name: names[i], Seq: genNt(t, 3*ks[i]+r, false)})
		// choose which of the p columns hold the ks[i] residues
		pat := []byte(strings.Repeat("-", p))
		perm := gen.Perm(t, p, "col")
		for _, j := range perm[:ks[i]] {
			pat[j] = 'x'
		}
		c.Pattern = append(c.Pattern, string(pat))
	}
	c.Order = gen.Perm(t, n, "order")
	c.Extra = rapid.IntRange(0, 3).Draw(t, "extra") == 0
	if prot, ntb, _, _, _, e := caOperands(c); e == nil {
		c.PPlan = drawPlan(t, prot, gen.AA20)
		c.NPlan = drawBagPlan(t, ntb.Rows)
	}
	return c
}

func checkCA(c caCase) (o pbt.Outcome, err error) {
	prot, ntb, _, trimmed, gapcol, herr := caOperands(c)
	if herr != nil {
		return o, herr
	}
	pa := buildAli(prot, c.PPlan, &o)
	nts := buildBag(ntb, c.NPlan, &o)
	res, e := pa.CodonAlign(nts)
	if e != nil {
		return o, fmt.Errorf("CodonAlign fails on sequences and the protein alignment of their own translations: %v", e)
	}
	p := len(c.Pattern[0])
	if res.Length() != 3*p {
		return o, fmt.Errorf("codon alignment has length %d, protein alignment %d (x3 = %d)", res.Length(), p, 3*p)
	}
	got := gen.Snapshot(res)
	if len(got) != len(prot.Rows) {
		return o, fmt.Errorf("codon alignment has %d rows, protein alignment %d", len(got), len(prot.Rows))
	}
	// an alignment is an ordered list of rows: the codon alignment (whose translation must be "the
	// protein alignment again") lists them in the order of the protein alignment, name by name,
	// whatever the order of the nucleotide set
	for i, r := range got {
		if r.Name != prot.Rows[i].Name {
			return o, fmt.Errorf("row %d of the codon alignment is %q, row %d of the protein alignment is %q (nucleotide set order: %s)", i, r.Name, i, prot.Rows[i].Name, gen.Show(ntb.Rows))
		}
		if len(r.Seq) != 3*p {
			return o, fmt.Errorf("row %s of the codon alignment has %d characters, expected %d", r.Name, len(r.Seq), 3*p)
		}
		if ungap(r.Seq) != trimmed[r.Name] {
			return o, fmt.Errorf("row %s without gaps is %q, the original nucleotides (minus the trailing bases) are %q", r.Name, ungap(r.Seq), trimmed[r.Name])
		}
	}
	// and back: its translation is the protein alignment
	if e := res.Translate(0, codeID(c.Code)); e != nil {
		return o, fmt.Errorf("the codon alignment cannot be translated: %v", e)
	}
	if back := gen.Snapshot(res); !gen.SameRows(back, prot.Rows) {
		return o, fmt.Errorf("the translation of the codon alignment is not the protein alignment\n got : %s\n want: %s", gen.Show(back), gen.Show(prot.Rows))
	}
	if !gen.SameRows(gen.Snapshot(nts)[:len(c.Nt)], c.Nt) || !gen.SameRows(gen.Snapshot(pa), prot.Rows) {
		return o, fmt.Errorf("CodonAlign modified its inputs")
	}
	rem := false
	for _, r := range c.Nt {
		rem = rem || len(r.Seq)%3 != 0
	}
	o.NonTrivial = gapcol
	for i, k := range c.Order {
		if i != k {
			o.Class("protein rows in another order than the nucleotide set")
			break
		}
	}
	if hostileNames(c.Nt) {
		o.Class("names: case variants / prefixes / blanks")
	}
	o.Class("gap-columns=%v", gapcol)
	o.Class("trailing-bases=%v", rem)
	o.Class("code=%s", c.Code)
	return o, nil
}

func TestCodonAlign(t *testing.T) { pbt.Run(t, genCA, checkCA) }

// ---- 4. reference guided translation -----------------------------------------------------------

type refCase struct {
	Ali    gen.Ali  `json:"ali"`
	Ref    string   `json:"ref"`
	Frame  int      `json:"frame"`
	Code   string   `json:"code"`
	Gapped bool     `json:"gapped"`
	Plan   gen.Plan `json:"plan"`
}

// gappedRow: an ungapped sequence with gap runs inserted, or fully random
func gappedRow(t *rapid.T, l int) string {
	if rapid.IntRange(0, 3).Draw(t, "rnd") == 0 {
		return genNt(t, l, true)
	}
	b := []byte(genNt(t, l, false))
	runs := rapid.IntRange(0, 4).Draw(t, "runs")
	for i := 0; i < runs && l > 0; i++ {
		at := rapid.IntRange(0, l-1).Draw(t, "at")
		n := rapid.IntRange(1, 6).Draw(t, "n")
		for j := at; j < at+n && j < l; j++ {
			b[j] = '-'
		}
	}
	return string(b)
}

// structuredGapped builds an alignment around a reference row made of codons: reference codons
// are split by 1-6 gap columns (after the first or second base) or preceded by all-gap-in-the-
// reference columns; every other row is, block by block, a byte-identical copy of the reference
// block, the reference block with some or all of its gap columns filled (in-frame and
// out-of-frame insertions), the reference block with one base changed, a deletion, or random;
// whole rows may be copies of the reference. Returns the rows, the reference first.
func structuredGapped(t *rapid.T, n int) []string {
	k := rapid.IntRange(1, 8).Draw(t, "codons")
	var blocks []string
	for i := 0; i < k; i++ {
		cod := gen.SeqN(t, "ACGT", 3)
		if rapid.IntRange(0, 3).Draw(t, "anycodon") == 0 {
			cod = genNt(t, 3, false)
		}
		b := ""
		if rapid.IntRange(0, 4).Draw(t, "pre") == 0 {
			b = strings.Repeat("-", rapid.IntRange(1, 6).Draw(t, "npre"))
		}
		switch rapid.IntRange(0, 5).Draw(t, "split") {
		case 0, 1, 2:
			p := rapid.IntRange(1, 2).Draw(t, "sp")
			b += cod[:p] + strings.Repeat("-", rapid.IntRange(1, 6).Draw(t, "g")) + cod[p:]
		case 3:
			b += cod[:1] + strings.Repeat("-", rapid.IntRange(1, 4).Draw(t, "g1")) + cod[1:2] + strings.Repeat("-", rapid.IntRange(1, 4).Draw(t, "g2")) + cod[2:]
		default:
			b += cod
		}
		blocks = append(blocks, b)
	}
	tail := gen.SeqN(t, "ACGT-", rapid.IntRange(0, 2).Draw(t, "tail"))
	rows := make([]string, n)
	rows[0] = strings.Join(blocks, "") + tail
	for r := 1; r < n; r++ {
		if rapid.IntRange(0, 4).Draw(t, "wholecopy") == 0 {
			rows[r] = rows[0]
			continue
		}
		var sb strings.Builder
		for _, b := range blocks {
			switch rapid.IntRange(0, 7).Draw(t, "blk") {
			case 0, 1, 2: // identical to the reference over this codon
				sb.WriteString(b)
			case 3, 4: // insertion: fill some or all of the gap columns
				bb := []byte(b)
				var gaps []int
				for j := range bb {
					if bb[j] == '-' {
						gaps = append(gaps, j)
					}
				}
				if len(gaps) > 0 {
					f := rapid.IntRange(1, len(gaps)).Draw(t, "fill")
					if rapid.Bool().Draw(t, "fillall") {
						f = len(gaps)
					}
					for _, j := range gaps[:f] {
						bb[j] = "ACGT"[rapid.IntRange(0, 3).Draw(t, "fb")]
					}
				}
				sb.WriteString(string(bb))
			case 5: // one base changed
				bb := []byte(b)
				j := rapid.IntRange(0, len(bb)-1).Draw(t, "mj")
				bb[j] = "ACGT-"[rapid.IntRange(0, 4).Draw(t, "mb")]
				sb.WriteString(string(bb))
			case 6: // deletion
				sb.WriteString(strings.Repeat("-", len(b)))
			default:
				sb.WriteString(gen.SeqN(t, "ACGT-", len(b)))
			}
		}
		sb.WriteString(gen.SeqN(t, "ACGT-", len(tail)))
		rows[r] = sb.String()
	}
	return rows
}

// genGappedRows: the rows of a gapped case and the index of the reference row
func genGappedRows(t *rapid.T, n, l int) ([]string, int) {
	ref := rapid.IntRange(0, n-1).Draw(t, "ref")
	rows := make([]string, n)
	if rapid.IntRange(0, 2).Draw(t, "structured") != 0 {
		st := structuredGapped(t, n)
		rows[ref] = st[0]
		k := 1
		for i := range rows {
			if i != ref {
				rows[i] = st[k]
				k++
			}
		}
		return rows, ref
	}
	for i := range rows {
		rows[i] = gappedRow(t, l)
	}
	return rows, ref
}

func genRef(t *rapid.T) refCase {
	var c refCase
	c.Code = rapid.SampledFrom(codeNames).Draw(t, "code")
	c.Gapped = rapid.Bool().Draw(t, "gapped")
	n := rapid.IntRange(1, 5).Draw(t, "rows")
	l := genLen(t, 36)
	c.Ali.Alphabet = "nt"
	names := genNames(t, n)
	if c.Gapped {
		rows, ref := genGappedRows(t, n, l)
		for i, s := range rows {
			c.Ali.Rows = append(c.Ali.Rows, gen.Row{Name: names[i], Seq: s})
		}
		c.Ref = c.Ali.Rows[ref].Name
		c.Plan = drawPlan(t, c.Ali, "ACGTN-")
		return c
	}
	for i := 0; i < n; i++ {
		c.Ali.Rows = append(c.Ali.Rows, gen.Row{Name: names[i], Seq: genNt(t, l, false)})
	}
	c.Frame = rapid.IntRange(0, 2).Draw(t, "frame")
	c.Ref = c.Ali.Rows[rapid.IntRange(0, n-1).Draw(t, "ref")].Name
	c.Plan = drawPlan(t, c.Ali, "ACGTN")
	return c
}

// judgeRef applies the two relations of the statement to the rows returned by the reference
// guided translation (library or command line)
func judgeRef(c refCase, got []gen.Row, e error, o *pbt.Outcome) error {
	l := c.Ali.Length()
	if !c.Gapped {
		want, ok := wantRows(c.Ali.Rows, c.Frame, c.Code)
		if !ok {
			// plain translation is an error here; the reference guided one returns empty
			// rows: "coincides" is not defined by the statement for this point
			o.Ambiguous++
			o.Class("gap-free-too-short")
			return nil
		}
		if e != nil {
			return fmt.Errorf("reference guided translation of a gap-free alignment fails: %v", e)
		}
		if !gen.SameRows(got, want) {
			return fmt.Errorf("reference guided translation of a gap-free alignment (frame %d, ref %s) differs from plain translation\n got : %s\n want: %s", c.Frame, c.Ref, gen.Show(got), gen.Show(want))
		}
		sp := false
		for _, r := range c.Ali.Rows {
			sp = sp || special(r.Seq)
		}
		o.NonTrivial = len(got) >= 2 && (sp || (l-c.Frame)%3 != 0)
		o.Class("gap-free frame=%d", c.Frame)
		return nil
	}
	if l < 3 {
		// nothing to translate: an error or an empty alignment are both accepted
		o.Ambiguous++
		o.Class("gapped-too-short")
		return nil
	}
	if e != nil {
		return fmt.Errorf("reference guided translation in frame 0 fails: %v", e)
	}
	if len(got) != len(c.Ali.Rows) {
		return fmt.Errorf("reference guided translation returns %d rows for %d", len(got), len(c.Ali.Rows))
	}
	var refrow, refin string
	for i, r := range got {
		if r.Name != c.Ali.Rows[i].Name {
			return fmt.Errorf("row %d is named %q, expected %q", i, r.Name, c.Ali.Rows[i].Name)
		}
		if len(r.Seq) != len(got[0].Seq) {
			return fmt.Errorf("result is not rectangular: %s", gen.Show(got))
		}
		if r.Name == c.Ref {
			refrow, refin = r.Seq, c.Ali.Rows[i].Seq
		}
	}
	full, _ := refTranslate(ungap(refin), 0, c.Code)
	if !strings.HasPrefix(full, ungap(refrow)) {
		return fmt.Errorf("reference row %q without gaps is not a prefix of the translation %q of the ungapped reference %q", refrow, full, ungap(refin))
	}
	inner := strings.Contains(strings.Trim(refin, "-"), "-")
	o.NonTrivial = inner && len(ungap(refrow)) > 0
	o.Class("gapped ref-internal-gap=%v", inner)
	if ungap(refrow) == full {
		o.Class("gapped whole-reference-translated")
	} else {
		o.Class("gapped proper-prefix")
	}
	if strings.Contains(refrow, "-") {
		o.Class("gapped insertion-relative-to-reference")
	}
	// classes of the input: reference codons (three successive non-gap reference columns) that
	// span 6 columns or more, and another row byte-identical to the reference over such a codon
	var cols []int
	for j := 0; j < len(refin); j++ {
		if refin[j] != '-' {
			cols = append(cols, j)
		}
	}
	wide, wideSame, same := false, false, false
	for i := 0; i+2 < len(cols); i += 3 {
		a, b := cols[i], cols[i+2]+1
		for _, r := range c.Ali.Rows {
			if r.Name != c.Ref && r.Seq[a:b] == refin[a:b] {
				same = true
				if b-a >= 6 {
					wideSame = true
				}
			}
		}
		if b-a >= 6 {
			wide = true
		}
	}
	if wide {
		o.Class("gapped reference-codon-spans>=6-columns")
	}
	if same {
		o.Class("gapped row-identical-to-reference-over-a-codon")
	}
	if wideSame {
		o.Class("gapped row-identical-to-reference-over-a-wide-codon")
	}
	return nil
}

func checkRef(c refCase) (o pbt.Outcome, err error) {
	al := buildAli(c.Ali, c.Plan, &o)
	e := al.TranslateByReference(c.Frame, codeID(c.Code), c.Ref)
	var got []gen.Row
	if e == nil {
		got = gen.Snapshot(al)
		if len(got) > 0 && al.Length() != len(got[0].Seq) && c.Ali.Length() >= 3+c.Frame {
			return o, fmt.Errorf("Length() = %d after reference guided translation, rows have %d residues", al.Length(), len(got[0].Seq))
		}
	}
	if err = judgeRef(c, got, e, &o); err != nil {
		return o, err
	}
	o.Class("code=%s", c.Code)
	if hostileNames(c.Ali.Rows) {
		o.Class("names: case variants / prefixes / blanks")
	}
	return o, nil
}

func TestByReference(t *testing.T) { pbt.Run(t, genRef, checkRef) }

// ---- 5. command line tier -----------------------------------------------------------------------

type cliCase struct {
	Mode string  `json:"mode"` // translate | unaligned | refseq | codonalign
	Tr   trCase  `json:"tr"`
	Ref  refCase `json:"ref"`
	CA   caCase  `json:"ca"`
	// presentation of the input files, and where the result goes: stdout, a new file (-o) or an
	// existing file with longer stale content
	Layout cli.Layout `json:"layout"`
	Out    string     `json:"out"`
}

// runOut runs goalign with its result sent to stdout or to a (new or stale) -o file and returns
// the text of the result
func runOut(dir string, out string, args ...string) (string, cli.Result) {
	if out == "" || out == "stdout" {
		r := cli.Run("", args...)
		return r.Stdout, r
	}
	path := cli.TempFile(dir, ".out", "")
	os.Remove(path)
	if out == "stale" {
		cli.StaleFile(path, 40)
	}
	r := cli.Run("", append(args, "-o", path)...)
	b, _ := os.ReadFile(path)
	return string(b), r
}

// the command line reads FASTA and detects the alphabet: keep at least one unambiguous
// nucleotide word in the first row so that the file is a nucleotide file under every reading
func cliLen(t *rapid.T) int {
	return rapid.SampledFrom([]int{2, 3, 4, 5, 6, 7, 8, 10, 20, 33, 61, 181, 182, 183, 245}).Draw(t, "L")
}

func TestCLI(t *testing.T) {
	if cli.Binary() == "" {
		t.Skip("no goalign binary")
	}
	dir := cli.TempDir("c05cli")
	pbt.Run(t, func(t *rapid.T) cliCase {
		var c cliCase
		c.Mode = rapid.SampledFrom([]string{"translate", "unaligned", "refseq", "codonalign"}).Draw(t, "mode")
		c.Layout = cli.DrawLayout(t)
		c.Out = rapid.SampledFrom([]string{"stdout", "stdout", "new", "stale"}).Draw(t, "out")
		code := rapid.SampledFrom(codeNames).Draw(t, "code")
		switch c.Mode {
		case "translate", "unaligned":
			c.Tr.Code = code
			c.Tr.Kind = "ali"
			c.Tr.Frame = rapid.IntRange(0, 2).Draw(t, "frame")
			if c.Mode == "unaligned" {
				c.Tr.Kind = "bag"
			}
			if rapid.IntRange(0, 2).Draw(t, "three") == 0 {
				c.Tr.Frame = -1
			}
			n := rapid.IntRange(1, 4).Draw(t, "rows")
			l := cliLen(t)
			tall := rapid.IntRange(0, 14).Draw(t, "tall") == 0
			if tall {
				n = rapid.SampledFrom(tallCounts).Draw(t, "ntall")
				l = rapid.IntRange(5, 8).Draw(t, "Ltall")
			}
			c.Tr.Ali.Alphabet = "nt"
			for i := 0; i < n; i++ {
				li := l
				if tall && i >= 4 {
					c.Tr.Ali.Rows = append(c.Tr.Ali.Rows, gen.Row{Name: fmt.Sprintf("s%d", i), Seq: c.Tr.Ali.Rows[i%4].Seq})
					continue
				}
				if c.Mode == "unaligned" && !tall && rapid.Bool().Draw(t, "own") {
					li = cliLen(t)
				}
				c.Tr.Ali.Rows = append(c.Tr.Ali.Rows, gen.Row{Name: fmt.Sprintf("s%d", i), Seq: genNt(t, li, true)})
			}
		case "refseq":
			c.Ref.Code = code
			c.Ref.Gapped = rapid.Bool().Draw(t, "gapped")
			n := rapid.IntRange(1, 4).Draw(t, "rows")
			l := rapid.SampledFrom([]int{3, 4, 5, 6, 7, 10, 20, 33, 182}).Draw(t, "L")
			c.Ref.Ali.Alphabet = "nt"
			names := genNames(t, n)
			if c.Ref.Gapped {
				rows, ref := genGappedRows(t, n, l)
				for i, s := range rows {
					c.Ref.Ali.Rows = append(c.Ref.Ali.Rows, gen.Row{Name: names[i], Seq: s})
				}
				c.Ref.Ref = c.Ref.Ali.Rows[ref].Name
			} else {
				for i := 0; i < n; i++ {
					c.Ref.Ali.Rows = append(c.Ref.Ali.Rows, gen.Row{Name: names[i], Seq: genNt(t, l, false)})
				}
				c.Ref.Frame = rapid.IntRange(0, 2).Draw(t, "frame")
				c.Ref.Ref = c.Ref.Ali.Rows[rapid.IntRange(0, n-1).Draw(t, "ref")].Name
			}
		case "codonalign":
			c.CA = genCA(t)
			// the protein file must be recognised as a protein file: start the first row of
			// the protein alignment with CTG GAG (L E in the three codes)
			first := c.CA.Order[0]
			c.CA.Nt[first].Seq = "CTGGAG" + c.CA.Nt[first].Seq
			for i := range c.CA.Pattern {
				if i == first {
					c.CA.Pattern[i] = "xx" + c.CA.Pattern[i]
				} else {
					c.CA.Pattern[i] = "--" + c.CA.Pattern[i]
				}
			}
		}
		return c
	}, func(c cliCase) (o pbt.Outcome, err error) {
		o.Class("mode=%s", c.Mode)
		o.Class("output=%s", c.Out)
		if !c.Layout.Plain() {
			o.Class("input-layout-not-plain")
		}
		switch c.Mode {
		case "translate", "unaligned":
			in := cli.TempFile(dir, ".fa", cli.FastaLayout(c.Tr.Ali.Rows, c.Layout))
			args := []string{"translate", "-i", in, "--phase", fmt.Sprint(c.Tr.Frame), "--genetic-code", c.Tr.Code}
			if c.Mode == "unaligned" {
				args = append(args, "--unaligned")
			}
			want, ok := wantRows(c.Tr.Ali.Rows, c.Tr.Frame, c.Tr.Code)
			stdout, r := runOut(dir, c.Out, args...)
			if len(c.Tr.Ali.Rows) >= 100 {
				o.Class("tall(>=100 sequences) phase=%d", c.Tr.Frame)
			}
			if !ok {
				if r.Exit == 0 {
					return o, fmt.Errorf("goalign %v: exit 0 although a sequence gives no residue; stdout %q", args, r.Stdout)
				}
				o.Class("error-predicted")
				return o, nil
			}
			if r.Exit != 0 {
				return o, fmt.Errorf("goalign %v: exit %d, stderr %q", args, r.Exit, firstLine(r.Stderr))
			}
			got, perr := cli.ParseFasta(stdout)
			if perr != nil {
				return o, fmt.Errorf("goalign %v: unreadable output: %v", args, perr)
			}
			if !gen.SameRows(got, want) {
				return o, fmt.Errorf("goalign %v differs from the NCBI table model\n got : %s\n want: %s", args, gen.Show(got), gen.Show(want))
			}
			sp := false
			for _, r := range c.Tr.Ali.Rows {
				sp = sp || special(r.Seq) || len(r.Seq)%3 != 0
			}
			o.NonTrivial = sp
			o.Class("phase=%d", c.Tr.Frame)
			o.Class("code=%s", c.Tr.Code)
		case "refseq":
			in := cli.TempFile(dir, ".fa", cli.FastaLayout(c.Ref.Ali.Rows, c.Layout))
			args := []string{"translate", "-i", in, "--phase", fmt.Sprint(c.Ref.Frame), "--genetic-code", c.Ref.Code, "--ref-seq", c.Ref.Ref}
			stdout, r := runOut(dir, c.Out, args...)
			var e error
			var got []gen.Row
			if r.Exit != 0 {
				e = fmt.Errorf("exit %d: %s", r.Exit, firstLine(r.Stderr))
			} else {
				var perr error
				if got, perr = cli.ParseFasta(stdout); perr != nil {
					return o, fmt.Errorf("goalign %v: unreadable output: %v", args, perr)
				}
			}
			if err = judgeRef(c.Ref, got, e, &o); err != nil {
				return o, fmt.Errorf("goalign %v: %v", args, err)
			}
			if hostileNames(c.Ref.Ali.Rows) {
				o.Class("names: case variants / prefixes / blanks")
			}
		case "codonalign":
			var prot []gen.Row
			protOf := map[string]string{}
			trimmed := map[string]string{}
			gapcol := false
			for _, i := range c.CA.Order {
				r := c.CA.Nt[i]
				tr, _ := refTranslate(r.Seq, 0, c.CA.Code)
				var b []byte
				k := 0
				for _, ch := range []byte(c.CA.Pattern[i]) {
					if ch == 'x' {
						b = append(b, tr[k])
						k++
					} else {
						b = append(b, '-')
						gapcol = true
					}
				}
				prot = append(prot, gen.Row{Name: r.Name, Seq: string(b)})
				protOf[r.Name] = string(b)
				trimmed[r.Name] = r.Seq[:3*len(tr)]
			}
			nt := append([]gen.Row{}, c.CA.Nt...)
			if c.CA.Extra {
				nt = append(nt, gen.Row{Name: "absent", Seq: "ACGTACGTA"})
			}
			pf := cli.TempFile(dir, ".aa.fa", cli.FastaLayout(prot, c.Layout))
			nf := cli.TempFile(dir, ".nt.fa", cli.FastaLayout(nt, c.Layout))
			args := []string{"codonalign", "-i", pf, "-f", nf}
			stdout, r := runOut(dir, c.Out, args...)
			if r.Exit != 0 {
				return o, fmt.Errorf("goalign %v: exit %d, stderr %q\nprotein: %s\nnt: %s", args, r.Exit, firstLine(r.Stderr), gen.Show(prot), gen.Show(nt))
			}
			got, perr := cli.ParseFasta(stdout)
			if perr != nil {
				return o, fmt.Errorf("goalign %v: unreadable output: %v", args, perr)
			}
			if len(got) != len(prot) {
				return o, fmt.Errorf("goalign %v: %d rows for %d protein rows", args, len(got), len(prot))
			}
			p := len(prot[0].Seq)
			for i, g := range got {
				if g.Name != prot[i].Name {
					return o, fmt.Errorf("goalign %v: row %d is %q, row %d of the protein alignment is %q", args, i, g.Name, i, prot[i].Name)
				}
				if len(g.Seq) != 3*p {
					return o, fmt.Errorf("goalign %v: row %s has %d characters, expected %d", args, g.Name, len(g.Seq), 3*p)
				}
				if ungap(g.Seq) != trimmed[g.Name] {
					return o, fmt.Errorf("goalign %v: row %s without gaps is %q, nucleotides are %q", args, g.Name, ungap(g.Seq), trimmed[g.Name])
				}
			}
			// and back through goalign translate
			cf := cli.TempFile(dir, ".codon.fa", stdout)
			args2 := []string{"translate", "-i", cf, "--genetic-code", c.CA.Code}
			r2 := cli.Run("", args2...)
			if r2.Exit != 0 {
				return o, fmt.Errorf("goalign %v on the codon alignment: exit %d, stderr %q", args2, r2.Exit, firstLine(r2.Stderr))
			}
			back, perr := cli.ParseFasta(r2.Stdout)
			if perr != nil {
				return o, fmt.Errorf("goalign %v: unreadable output: %v", args2, perr)
			}
			if !gen.SameRows(back, prot) {
				return o, fmt.Errorf("goalign codonalign | translate is not the protein alignment\n got : %s\n want: %s", gen.Show(back), gen.Show(prot))
			}
			o.NonTrivial = gapcol
		}
		return o, nil
	})
}

func firstLine(s string) string {
	if i := strings.IndexByte(s, '\n'); i >= 0 {
		return s[:i]
	}
	return s
}
