// C05 - translation of an object that has been used before and then edited in place
package c05

import (
	"fmt"
	"strings"
	"testing"

	"github.com/evolbioinfo/goalign/align"
	"pgregory.net/rapid"
	"verif/internal/gen"
	"verif/internal/pbt"
)

// ---- 2b. prior use, in-place edit, translation again ---------------------------------------------
//
// The statement speaks of "every nucleotide sequence": what a sequence object held earlier, and what
// was asked of it earlier, is no part of it. The sequence objects are first used (translated in
// every frame, alphabet asked - accepted or refused), then their residues are edited IN PLACE by a
// drawn list of the library's editors (ReplaceChar, Mask, ReplaceMatchChars, ToUpper, ToLower,
// writes through SequenceChar() / GetSequenceChar()), then the content is read back and the
// translation of the SAME objects is judged on that content: by the NCBI table model when every
// character is one the nucleotide alphabet admits (must succeed, floor((L-frame)/3) residues), and
// otherwise (a character that is no nucleotide code: the statement's "unknown characters"; the
// library refuses such a sequence) by agreement with an object freshly built from the same content
// (refused by both or accepted by both with the same residues).

// characters that are no nucleotide code (amino acid only letters, and letters of no alphabet)
const foreign = "EFILPQZefilpqzJj"

type edit struct {
	Op    string `json:"op"` // write | replacechar | mask | matchchars | upper | lower
	Row   int    `json:"row"`
	Site  int    `json:"site"`
	Len   int    `json:"len"`
	Char  string `json:"char"` // one character; mask also AMBIG, GAP
	NoGap bool   `json:"nogap"`
	Via   int    `json:"via"` // write: 0 the Sequence object, 1 GetSequenceChar(name), 2 GetSequenceCharById
}

type histCase struct {
	Ali   gen.Ali `json:"ali"`   // content at the first use
	Kind  string  `json:"kind"`  // seq | bag | ali
	Frame int     `json:"frame"` // of the container translation at the end: 0,1,2; -1 = three frames
	Code  string  `json:"code"`
	First string  `json:"first"` // translate | detect | both | none
	Edits []edit  `json:"edits"`
}

func admitted(s string) bool {
	for i := 0; i < len(s); i++ {
		if strings.IndexByte(sigma, s[i]) < 0 {
			return false
		}
	}
	return true
}

func genHist(t *rapid.T) histCase {
	var c histCase
	c.Kind = rapid.SampledFrom([]string{"seq", "bag", "ali", "ali"}).Draw(t, "kind")
	c.Code = rapid.SampledFrom(codeNames).Draw(t, "code")
	c.Frame = rapid.IntRange(0, 2).Draw(t, "frame")
	if c.Kind != "seq" && rapid.IntRange(0, 3).Draw(t, "three") == 0 {
		c.Frame = -1
	}
	c.First = rapid.SampledFrom([]string{"translate", "translate", "both", "detect", "none"}).Draw(t, "first")
	n := 1
	if c.Kind != "seq" {
		n = rapid.IntRange(1, 4).Draw(t, "rows")
	}
	l := rapid.IntRange(3, 24).Draw(t, "L")
	if rapid.IntRange(0, 9).Draw(t, "short") == 0 {
		l = rapid.IntRange(0, 5).Draw(t, "Lshort")
	}
	c.Ali.Alphabet = "nt"
	type pos struct{ r, s int }
	var spoiled []pos
	for i := 0; i < n; i++ {
		li := l
		if c.Kind == "bag" && rapid.Bool().Draw(t, "ownlen") {
			li = rapid.IntRange(0, 24).Draw(t, "Li")
		}
		b := []byte(genNt(t, li, c.Kind != "seq"))
		// the content at the first use may hold characters that are no nucleotide code
		if li > 0 && rapid.IntRange(0, 2).Draw(t, "spoil") == 0 {
			for k := rapid.IntRange(1, 2).Draw(t, "nspoil"); k > 0; k-- {
				p := rapid.IntRange(0, li-1).Draw(t, "spoilat")
				b[p] = foreign[rapid.IntRange(0, len(foreign)-1).Draw(t, "spoilch")]
				spoiled = append(spoiled, pos{i, p})
			}
		}
		c.Ali.Rows = append(c.Ali.Rows, gen.Row{Name: fmt.Sprintf("s%d", i), Seq: string(b)})
	}
	point := func(e *edit) {
		e.Row = rapid.IntRange(0, n-1).Draw(t, "erow")
		e.Site = rapid.IntRange(0, 24).Draw(t, "esite")
		e.Via = rapid.IntRange(0, 2).Draw(t, "via")
	}
	char := func() string {
		switch rapid.IntRange(0, 3).Draw(t, "chkind") {
		case 0:
			return string(foreign[rapid.IntRange(0, len(foreign)-1).Draw(t, "fch")])
		case 1:
			return string(sigma[rapid.IntRange(0, len(sigma)-1).Draw(t, "sch")])
		}
		return string("ACGT"[rapid.IntRange(0, 3).Draw(t, "nch")])
	}
	// the spoiled positions are, two times in three, all corrected
	if len(spoiled) > 0 && rapid.IntRange(0, 2).Draw(t, "correct") != 0 {
		for _, p := range spoiled {
			e := edit{Op: rapid.SampledFrom([]string{"write", "replacechar"}).Draw(t, "cop"), Row: p.r, Site: p.s,
				Via: rapid.IntRange(0, 2).Draw(t, "via"), Char: string("ACGTUNacgtn-"[rapid.IntRange(0, 11).Draw(t, "cch")])}
			c.Edits = append(c.Edits, e)
		}
	}
	for k := rapid.IntRange(0, 3).Draw(t, "nedits"); k > 0; k-- {
		var e edit
		e.Op = rapid.SampledFrom([]string{"write", "write", "replacechar", "mask", "matchchars", "upper", "lower"}).Draw(t, "op")
		switch e.Op {
		case "write", "replacechar":
			point(&e)
			e.Char = char()
		case "mask":
			e.Site = rapid.IntRange(0, 24).Draw(t, "mstart")
			e.Len = rapid.IntRange(0, 8).Draw(t, "mlen")
			e.NoGap = rapid.Bool().Draw(t, "nogap")
			e.Char = rapid.SampledFrom([]string{"AMBIG", "GAP", "", "c"}).Draw(t, "mrep")
			if e.Char == "c" {
				e.Char = char()
			}
		case "matchchars":
			// a match character to replace: written first
			point(&e)
			e.Op = "write"
			e.Char = "."
			c.Edits = append(c.Edits, e)
			e = edit{Op: "matchchars"}
		}
		c.Edits = append(c.Edits, e)
	}
	if len(c.Edits) > 1 && rapid.Bool().Draw(t, "shuffle") {
		p := gen.Perm(t, len(c.Edits), "eorder")
		out := make([]edit, len(c.Edits))
		for i := range p {
			out[i] = c.Edits[p[i]]
		}
		c.Edits = out
	}
	return c
}

// judgeSeq: Translate (frames 0,1,2) and DetectAlphabet of one sequence object holding `content`
func judgeSeq(s align.Sequence, content, code, when string) error {
	fresh := align.NewSequence(s.Name(), []uint8(content), "")
	for f := 0; f <= 2; f++ {
		tr, e := s.Translate(f, codeID(code))
		if admitted(content) {
			want, ok := refTranslate(content, f, code)
			switch {
			case !ok && e == nil:
				return fmt.Errorf("%s: %q in frame %d gives floor((L-frame)/3) = 0 residues but no error; result %q", when, content, f, tr.Sequence())
			case ok && e != nil:
				return fmt.Errorf("%s: translation of the nucleotide sequence %q (frame %d, %s) fails: %v", when, content, f, code, e)
			case ok && tr.Sequence() != want:
				return fmt.Errorf("%s: translation of %q (frame %d, %s) = %q, NCBI table model %q", when, content, f, code, tr.Sequence(), want)
			}
			continue
		}
		ftr, fe := fresh.Translate(f, codeID(code))
		if (e == nil) != (fe == nil) {
			return fmt.Errorf("%s: %q holds a character that is no nucleotide code; frame %d: the sequence object answers error=%v, a new sequence with the same residues error=%v", when, content, f, e, fe)
		}
		if e == nil && tr.Sequence() != ftr.Sequence() {
			return fmt.Errorf("%s: translation of %q (frame %d) = %q, of a new sequence with the same residues %q", when, content, f, tr.Sequence(), ftr.Sequence())
		}
	}
	// the alphabet query the translation relies on
	if g, w := s.DetectAlphabet(), fresh.DetectAlphabet(); g != w {
		return fmt.Errorf("%s: DetectAlphabet() of the sequence object holding %q = %d, of a new sequence with the same residues = %d", when, content, g, w)
	}
	return nil
}

func checkHist(c histCase) (o pbt.Outcome, err error) {
	var sb align.SeqBag
	var al align.Alignment
	var objs []align.Sequence
	switch c.Kind {
	case "seq":
		r := c.Ali.Rows[0]
		objs = []align.Sequence{align.NewSequence(r.Name, []uint8(r.Seq), "")}
	case "bag":
		sb = gen.BuildBag(c.Ali)
	case "ali":
		al = gen.MustBuild(c.Ali)
		sb = al
	}
	if sb != nil {
		for i := range c.Ali.Rows {
			s, ok := sb.Sequence(i)
			if !ok {
				return o, fmt.Errorf("Sequence(%d) not found in a container of %d sequences", i, len(c.Ali.Rows))
			}
			objs = append(objs, s)
		}
	}
	content := func() []gen.Row {
		rows := make([]gen.Row, len(objs))
		for i, s := range objs {
			rows[i] = gen.Row{Name: s.Name(), Seq: s.Sequence()}
		}
		return rows
	}
	// 1. first use
	for i, s := range objs {
		switch c.First {
		case "translate", "both":
			if c.First == "both" {
				s.DetectAlphabet()
			}
			if err = judgeSeq(s, c.Ali.Rows[i].Seq, c.Code, "first use"); err != nil {
				return o, err
			}
		case "detect":
			s.DetectAlphabet()
		}
	}
	// 2. in-place edits through the library
	for _, e := range c.Edits {
		row := e.Row % len(objs)
		ch := byte('N')
		if len(e.Char) == 1 {
			ch = e.Char[0]
		}
		write := func() {
			var b []uint8
			switch {
			case e.Via == 1 && sb != nil:
				b, _ = sb.GetSequenceChar(objs[row].Name())
			case e.Via == 2 && sb != nil:
				b, _ = sb.GetSequenceCharById(row)
			default:
				b = objs[row].SequenceChar()
			}
			if len(b) > 0 {
				b[e.Site%len(b)] = ch
			}
		}
		each := func(f func(byte) byte) {
			for _, s := range objs {
				b := s.SequenceChar()
				for i := range b {
					b[i] = f(b[i])
				}
			}
		}
		switch {
		case e.Op == "replacechar" && al != nil && al.Length() > 0:
			if e2 := al.ReplaceChar(objs[row].Name(), e.Site%al.Length(), ch); e2 != nil {
				return o, fmt.Errorf("ReplaceChar(%s,%d): %v", objs[row].Name(), e.Site%al.Length(), e2)
			}
		case e.Op == "mask" && al != nil:
			al.Mask("", e.Site%(al.Length()+1), e.Len, e.Char, e.NoGap, false)
		case e.Op == "matchchars" && al != nil:
			al.ReplaceMatchChars()
		case e.Op == "upper" && sb != nil:
			sb.ToUpper()
		case e.Op == "lower" && sb != nil:
			sb.ToLower()
		case e.Op == "upper":
			each(func(b byte) byte {
				if b >= 'a' && b <= 'z' {
					return b - 32
				}
				return b
			})
		case e.Op == "lower":
			each(func(b byte) byte {
				if b >= 'A' && b <= 'Z' {
					return b + 32
				}
				return b
			})
		case e.Op == "matchchars":
			// no container: nothing to do
		default:
			write()
		}
		o.Class("edit:%s", e.Op)
	}
	// 3. the content now, read back; the same objects are judged on it
	now := content()
	if sb != nil && !gen.SameRows(now, gen.Snapshot(sb)) {
		return o, fmt.Errorf("the sequence objects of the container and the container disagree on the content\n objects  : %s\n container: %s", gen.Show(now), gen.Show(gen.Snapshot(sb)))
	}
	changed, adm0, adm1 := false, true, true
	for i := range now {
		changed = changed || now[i].Seq != c.Ali.Rows[i].Seq
		adm0 = adm0 && admitted(c.Ali.Rows[i].Seq)
		adm1 = adm1 && admitted(now[i].Seq)
	}
	for i, s := range objs {
		if err = judgeSeq(s, now[i].Seq, c.Code, "after "+c.First+" and in-place edits"); err != nil {
			return o, fmt.Errorf("%v\n content at first use: %s", err, gen.Show(c.Ali.Rows))
		}
	}
	// 4. the container translation of the same objects
	if sb != nil {
		nowAli := gen.Ali{Rows: now, Alphabet: "nt"}
		var e error
		if al != nil {
			e = al.Translate(c.Frame, codeID(c.Code))
		} else {
			e = sb.Translate(c.Frame, codeID(c.Code))
		}
		if adm1 {
			want, ok := wantRows(now, c.Frame, c.Code)
			switch {
			case !ok && e == nil:
				return o, fmt.Errorf("after in-place edits: a sequence of %s gives 0 residues but the container translation reports no error", gen.Show(now))
			case ok && e != nil:
				return o, fmt.Errorf("after %s and in-place edits: container translation (frame %d) of the nucleotide content %s fails: %v\n content at first use: %s", c.First, c.Frame, gen.Show(now), e, gen.Show(c.Ali.Rows))
			case ok && !gen.SameRows(gen.Snapshot(sb), want):
				return o, fmt.Errorf("after %s and in-place edits: container translation (frame %d, %s) of %s\n got : %s\n want: %s", c.First, c.Frame, c.Code, gen.Show(now), gen.Show(gen.Snapshot(sb)), gen.Show(want))
			}
			if ok && al != nil && c.Frame >= 0 && al.Length() != (len(now[0].Seq)-c.Frame)/3 {
				return o, fmt.Errorf("after in-place edits: Length() = %d after translating an alignment of length %d in frame %d", al.Length(), len(now[0].Seq), c.Frame)
			}
		} else {
			var fresh align.SeqBag
			if al != nil {
				fresh = gen.MustBuild(nowAli)
			} else {
				fresh = gen.BuildBag(nowAli)
			}
			fe := fresh.Translate(c.Frame, codeID(c.Code))
			if (e == nil) != (fe == nil) {
				return o, fmt.Errorf("after %s and in-place edits: the content %s holds a character that is no nucleotide code; container translation (frame %d): error=%v, of a container newly built from the same rows: error=%v\n content at first use: %s", c.First, gen.Show(now), c.Frame, e, fe, gen.Show(c.Ali.Rows))
			}
			if e == nil && !gen.SameRows(gen.Snapshot(sb), gen.Snapshot(fresh)) {
				return o, fmt.Errorf("after in-place edits: container translation of %s = %s, of a container newly built from the same rows %s", gen.Show(now), gen.Show(gen.Snapshot(sb)), gen.Show(gen.Snapshot(fresh)))
			}
		}
	}
	o.NonTrivial = changed && c.First != "none"
	o.Class("kind=%s", c.Kind)
	o.Class("first=%s", c.First)
	o.Class("history: nucleotide-only %v -> %v, content changed=%v", adm0, adm1, changed)
	return o, nil
}

func TestTranslateAfterEdit(t *testing.T) { pbt.Run(t, genHist, checkHist) }
