package c12

import (
	"fmt"
	"os"
	"path/filepath"
	"regexp"
	"strconv"
	"strings"
	"testing"

	"pgregory.net/rapid"
	"verif/internal/cli"
	"verif/internal/gen"
	"verif/internal/pbt"
)

// ---- command line tier: goalign clean sites / clean seqs ------------------------------------
//
// Flag semantics from docs/commands/clean.md and the flag help: -c cutoff, --char (GAP, '-', MAJ
// or characters), --ends, --ignore-case, --ignore-gaps, --ignore-n, --reverse ("not functional
// with --char GAP and --char MAJ"), --positions / --positions-rm (0-based, one per line).
// The alphabet is detected from the file: a protein file must hold one of Q E I L F P Z.
// --ignore-n applies to every --char, GAP included (clean.md: "For both commands ... --ignore-n").
// Undocumented refusals (accepted, counted as ambiguous): --ignore-gaps with a character set
// holding '-', --ignore-n with a character set holding N or n, a --char of several characters
// for `clean seqs`.

type cliCase struct {
	Sub   string   `json:"sub"` // "sites" | "seqs"
	Alpha string   `json:"alphabet"`
	Rows  []string `json:"rows"`
	Char  string   `json:"char"` // value of --char: GAP, -, MAJ or characters; "" = flag absent (default GAP)
	P     int      `json:"p"`
	Q     int      `json:"q"`
	NoCut bool     `json:"no_cutoff_flag"` // -c absent: default 0
	Ends  bool     `json:"ends"`
	IC    bool     `json:"ignore_case"`
	IG    bool     `json:"ignore_gaps"`
	IN    bool     `json:"ignore_n"`
	Rev   bool     `json:"reverse"`
	Quiet bool     `json:"quiet"`
}

var reStart = regexp.MustCompile(`number of start [^=\n]*=(\d+)`)
var reEnd = regexp.MustCompile(`number of end [^=\n]*=(\d+)`)

func readInts(path string) ([]int, error) {
	b, err := os.ReadFile(path)
	if err != nil {
		return nil, err
	}
	out := []int{}
	for _, f := range strings.Fields(string(b)) {
		v, err := strconv.Atoi(f)
		if err != nil {
			return nil, fmt.Errorf("not an integer: %q", f)
		}
		out = append(out, v)
	}
	return out, nil
}

func genCLI(t *rapid.T) cliCase {
	var c cliCase
	c.Sub = rapid.SampledFrom([]string{"sites", "sites", "seqs"}).Draw(t, "sub")
	c.Alpha = rapid.SampledFrom([]string{"nt", "aa"}).Draw(t, "alphabet")
	c.Rows = genRows(t, c.Alpha, 8, 12)
	if c.Alpha == "aa" {
		// make the detected alphabet protein
		has := false
		for _, r := range c.Rows {
			if strings.ContainsAny(r, "Ll") {
				has = true
			}
		}
		if !has {
			i := rapid.IntRange(0, len(c.Rows)-1).Draw(t, "Li")
			j := rapid.IntRange(0, len(c.Rows[0])-1).Draw(t, "Lj")
			b := []byte(c.Rows[i])
			b[j] = 'L'
			c.Rows[i] = string(b)
		}
	}
	hint := len(c.Rows)
	if c.Sub == "seqs" {
		hint = len(c.Rows[0])
	}
	c.P, c.Q = genCutoff(t, hint)
	c.NoCut = rapid.IntRange(0, 9).Draw(t, "nocut") == 0
	if c.NoCut {
		c.P, c.Q = 0, 1
	}
	switch ck := rapid.SampledFrom([]string{"set", "set", "set", "set", "MAJ", "set", "GAP", "set", "-", "MAJ", "set", ""}).Draw(t, "charkind"); ck {
	case "", "GAP", "-", "MAJ":
		c.Char = ck
	default:
		c.Char = genCharSet(t, c.Alpha, c.Rows)
		if c.Sub == "seqs" && rapid.IntRange(0, 5).Draw(t, "multi") != 0 {
			c.Char = c.Char[:1]
		}
	}
	c.IC, c.IG, c.IN = rapid.Bool().Draw(t, "ic"), rapid.Bool().Draw(t, "ig"), rapid.Bool().Draw(t, "in")
	// combinations the command refuses without the documentation saying so: kept, but rare
	isGapChar := c.Char == "" || c.Char == "GAP" || strings.Contains(c.Char, "-")
	if c.Sub == "sites" && c.Char != "MAJ" {
		if c.IG && isGapChar && rapid.IntRange(0, 7).Draw(t, "keepig") != 0 {
			c.IG = false
		}
		if c.IN && !isGapChar && strings.ContainsAny(c.Char, "Nn") && rapid.IntRange(0, 7).Draw(t, "keepin") != 0 {
			c.IN = false
		}
	}
	if c.Sub == "sites" {
		c.Ends = rapid.Bool().Draw(t, "ends")
		// --reverse is documented as not functional with GAP and MAJ: only drawn with characters
		if c.Char != "" && c.Char != "GAP" && c.Char != "-" && c.Char != "MAJ" {
			c.Rev = rapid.Bool().Draw(t, "rev")
		}
	}
	c.Quiet = rapid.Bool().Draw(t, "quiet")
	return c
}

func TestCLI(t *testing.T) {
	if cli.Binary() == "" {
		t.Skip("no goalign binary")
	}
	dir := cli.TempDir("c12cli")
	pbt.Run(t, genCLI, func(c cliCase) (o pbt.Outcome, err error) {
		var rows []gen.Row
		for i, r := range c.Rows {
			rows = append(rows, gen.Row{Name: nameOf(i), Seq: r})
		}
		in := cli.TempFile(dir, ".fa", cli.Fasta(rows))
		posK := filepath.Join(dir, filepath.Base(in)+".kept")
		posR := filepath.Join(dir, filepath.Base(in)+".rm")
		defer os.Remove(in)
		defer os.Remove(posK)
		defer os.Remove(posR)
		args := []string{"clean", c.Sub, "-i", in}
		if !c.NoCut {
			args = append(args, "--cutoff="+strconv.FormatFloat(cutoffOf(c.P, c.Q), 'g', -1, 64))
		}
		if c.Char != "" {
			args = append(args, "--char="+c.Char)
		}
		for _, f := range []struct {
			on   bool
			flag string
		}{{c.Ends, "--ends"}, {c.IC, "--ignore-case"}, {c.IG, "--ignore-gaps"}, {c.IN, "--ignore-n"}, {c.Rev, "--reverse"}, {c.Quiet, "-q"}} {
			if f.on {
				args = append(args, f.flag)
			}
		}
		if c.Sub == "sites" {
			args = append(args, "--positions", posK, "--positions-rm", posR)
		}
		r := cli.Run("", args...)
		isGap := c.Char == "" || c.Char == "GAP" || c.Char == "-"
		o.Class("cmd=clean %s", c.Sub)
		o.Class("alphabet=%s", c.Alpha)
		switch {
		case isGap:
			o.Class("char=gap")
		case c.Char == "MAJ":
			o.Class("char=MAJ")
		default:
			o.Class("char=set")
		}
		// refusals the documentation does not mention
		mayRefuse := false
		if c.Sub == "sites" {
			if c.IG && (isGap || (c.Char != "MAJ" && strings.Contains(c.Char, "-"))) {
				mayRefuse = true
			}
			if c.IN && !isGap && c.Char != "MAJ" && strings.ContainsAny(c.Char, "Nn") {
				mayRefuse = true
			}
		} else if !isGap && len(c.Char) != 1 {
			mayRefuse = true
		}
		if r.Exit != 0 {
			if mayRefuse {
				o.Ambiguous++
				o.Class("refused-undocumented")
				return o, nil
			}
			return o, fmt.Errorf("goalign %v: exit %d on a valid request, stderr %q", args, r.Exit, r.Stderr)
		}
		if c.Sub == "seqs" && !isGap && len(c.Char) != 1 {
			// accepted although `clean seqs` takes one character: nothing to compare with
			o.Ambiguous++
			return o, nil
		}
		got, perr := cli.ParseFasta(r.Stdout)
		if perr != nil {
			return o, fmt.Errorf("goalign %v: unreadable output: %v", args, perr)
		}
		if c.Sub == "sites" {
			sc := siteCase{Alpha: c.Alpha, Rows: c.Rows, P: c.P, Q: c.Q, Ends: c.Ends}
			switch {
			case isGap:
				// gaps: the fraction of '-' among the rows not excluded by --ignore-n (fix 494299f:
				// the flag is honoured with --char GAP too); --ignore-case has no effect on '-'
				sc.Op, sc.Chars, sc.IN = "char", "-", c.IN
			case c.Char == "MAJ":
				sc.Op, sc.IG, sc.IN = "maj", c.IG, c.IN
			default:
				sc.Op, sc.Chars, sc.IC, sc.IG, sc.IN, sc.Rev = "char", c.Char, c.IC, c.IG, c.IN, c.Rev
			}
			kept, e1 := readInts(posK)
			rm, e2 := readInts(posR)
			if e1 != nil || e2 != nil {
				return o, fmt.Errorf("goalign %v: position files unreadable: %v %v", args, e1, e2)
			}
			states, anyTie, nEither := siteStates(sc, false)
			// leading/trailing counts are printed on stderr unless -q
			l := len(c.Rows[0])
			inRm := make([]bool, l)
			for _, v := range rm {
				if v >= 0 && v < l {
					inRm[v] = true
				}
			}
			first, last := 0, 0
			for first < l && inRm[first] {
				first++
			}
			for last < l && inRm[l-1-last] {
				last++
			}
			if !c.Quiet {
				ms, me := reStart.FindStringSubmatch(r.Stderr), reEnd.FindStringSubmatch(r.Stderr)
				if ms == nil || me == nil {
					return o, fmt.Errorf("goalign %v: start/end counts not printed: %q", args, r.Stderr)
				}
				first, _ = strconv.Atoi(ms[1])
				last, _ = strconv.Atoi(me[1])
				o.Class("counts-read-from-stderr")
			}
			if e := verifySites(c.Rows, c.Ends, states, first, last, kept, rm, got, -1); e != nil {
				open := false
				if sc.Op == "maj" && (c.P < 0 || c.P > c.Q) {
					lit, _, _ := siteStates(sc, true)
					open = verifySites(c.Rows, c.Ends, lit, first, last, kept, rm, got, -1) == nil
				}
				if !open {
					return o, fmt.Errorf("goalign %v: %v\n input : %s\n output: %s", args, e, gen.Show(rows), gen.Show(got))
				}
				nEither++
			}
			o.Ambiguous = nEither
			o.NonTrivial = (len(rm) > 0 && len(kept) > 0) || anyTie
			o.Classes = append(o.Classes, optClass[sc.optMask()])
			return o, nil
		}
		qc := seqCase{Alpha: c.Alpha, Rows: c.Rows, P: c.P, Q: c.Q, IN: c.IN}
		if isGap {
			qc.Op, qc.Char = "gap", "-"
		} else {
			qc.Op, qc.Char, qc.IC, qc.IG = "char", c.Char, c.IC, c.IG
		}
		states, anyTie, nEither := seqStates(qc)
		removed, e := verifySeqs(c.Rows, states, got, 0, false)
		if e != nil {
			return o, fmt.Errorf("goalign %v: %v\n input : %s\n output: %s", args, e, gen.Show(rows), gen.Show(got))
		}
		o.Ambiguous = nEither
		o.NonTrivial = (removed > 0 && removed < len(c.Rows)) || anyTie
		o.Classes = append(o.Classes, "seq-"+optClass[qc.optMask()])
		return o, nil
	})
}
