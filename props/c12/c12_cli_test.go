package c12

import (
	"fmt"
	"os"
	"path/filepath"
	"regexp"
	"strconv"
	"strings"
	"testing"

	"pgregory.net/rapid"
	"verif/internal/cli"
	"verif/internal/gen"
	"verif/internal/pbt"
)

// ---- command line tier: goalign clean sites / clean seqs ------------------------------------
//
// Flag semantics from docs/commands/clean.md and the flag help: -c cutoff, --char (GAP, '-', MAJ
// or characters), --ends, --ignore-case, --ignore-gaps, --ignore-n, --reverse ("not functional
// with --char GAP and --char MAJ"), --positions / --positions-rm (0-based, one per line).
// The alphabet is detected from the file: a protein file must hold one of Q E I L F P Z.
// --ignore-n applies to every --char, GAP included (clean.md: "For both commands ... --ignore-n").
// Undocumented refusals (accepted, counted as ambiguous): --ignore-gaps with a character set
// holding '-', --ignore-n with a character set holding N or n, a --char of several characters
// for `clean seqs`.

type cliCase struct {
	Sub   string   `json:"sub"` // "sites" | "seqs"
	Alpha string   `json:"alphabet"`
	Rows  []string `json:"rows"`
	// More: further alignments of the same input file (multi-dataset Phylip, read with -p, as produced
	// by goalign build seqboot); every clause is judged per alignment
	More    [][]string `json:"more,omitempty"`
	Phylip  bool       `json:"phylip"`
	Layout  cli.Layout `json:"layout"`   // presentation of a FASTA input (wrapped lines, blocks, CRLF ...)
	OutFile bool       `json:"out_file"` // -o <file> instead of standard output
	Stale   bool       `json:"stale"`    // the output and position files exist before, with longer stale content
	Char    string     `json:"char"`     // value of --char: GAP, -, MAJ or characters; "" = flag absent (default GAP)
	P       int        `json:"p"`
	Q       int        `json:"q"`
	NoCut   bool       `json:"no_cutoff_flag"` // -c absent: default 0
	Ends    bool       `json:"ends"`
	IC      bool       `json:"ignore_case"`
	IG      bool       `json:"ignore_gaps"`
	IN      bool       `json:"ignore_n"`
	Rev     bool       `json:"reverse"`
	Quiet   bool       `json:"quiet"`
}

// every number the commands print about an alignment is compared with the alignment written
var reNumberOf = regexp.MustCompile(`number of ([^=\n]*)=(-?\d+)`)
var reLenBefore = regexp.MustCompile(`length before cleaning=(-?\d+)`)
var reLenAfter = regexp.MustCompile(`length after cleaning=(-?\d+)`)
var reSeqsBefore = regexp.MustCompile(`#seqs before cleaning=(-?\d+)`)
var reSeqsAfter = regexp.MustCompile(`#seqs after cleaning=(-?\d+)`)
var reSeqsRemoved = regexp.MustCompile(`removed sequences=(-?\d+)`)

// printed returns the k-th number matched by re in the messages, if the messages hold exactly one per alignment
func printed(re *regexp.Regexp, stderr string, nAlign, k int) (int, bool) {
	m := re.FindAllStringSubmatch(stderr, -1)
	if len(m) != nAlign {
		return 0, false
	}
	v, err := strconv.Atoi(m[k][len(m[k])-1])
	return v, err == nil
}

var reStart = regexp.MustCompile(`number of start [^=\n]*=(\d+)`)
var reEnd = regexp.MustCompile(`number of end [^=\n]*=(\d+)`)

func readInts(path string) ([]int, error) {
	b, err := os.ReadFile(path)
	if err != nil {
		return nil, err
	}
	out := []int{}
	for _, f := range strings.Fields(string(b)) {
		v, err := strconv.Atoi(f)
		if err != nil {
			return nil, fmt.Errorf("not an integer: %q", f)
		}
		out = append(out, v)
	}
	return out, nil
}

func genCLI(t *rapid.T) cliCase {
	var c cliCase
	c.Sub = rapid.SampledFrom([]string{"sites", "sites", "seqs"}).Draw(t, "sub")
	c.Alpha = rapid.SampledFrom([]string{"nt", "aa"}).Draw(t, "alphabet")
	one := func() []string {
		rows := genRows(t, c.Alpha, 8, 12)
		if c.Alpha == "aa" {
			// make the detected alphabet protein
			has := false
			for _, r := range rows {
				if strings.ContainsAny(r, "Ll") {
					has = true
				}
			}
			if !has {
				i := rapid.IntRange(0, len(rows)-1).Draw(t, "Li")
				j := rapid.IntRange(0, len(rows[0])-1).Draw(t, "Lj")
				b := []byte(rows[i])
				b[j] = 'L'
				rows[i] = string(b)
			}
		}
		return rows
	}
	c.Rows = one()
	if rapid.IntRange(0, 2).Draw(t, "multi-alignment") != 1 {
		c.Phylip = true
		for k := rapid.IntRange(1, 2).Draw(t, "more"); k > 0; k-- {
			c.More = append(c.More, one())
		}
	} else {
		c.Phylip = rapid.IntRange(0, 3).Draw(t, "phylip1") == 2
	}
	if !c.Phylip {
		c.Layout = cli.DrawLayout(t)
	}
	c.OutFile = rapid.Bool().Draw(t, "outfile")
	c.Stale = rapid.IntRange(0, 2).Draw(t, "stale") == 1
	hint := len(c.Rows)
	if c.Sub == "seqs" {
		hint = len(c.Rows[0])
	}
	c.P, c.Q = genCutoff(t, hint)
	c.NoCut = rapid.IntRange(0, 9).Draw(t, "nocut") == 0
	if c.NoCut {
		c.P, c.Q = 0, 1
	}
	switch ck := rapid.SampledFrom([]string{"set", "set", "set", "set", "MAJ", "set", "GAP", "set", "-", "MAJ", "set", ""}).Draw(t, "charkind"); ck {
	case "", "GAP", "-", "MAJ":
		c.Char = ck
	default:
		c.Char = genCharSet(t, c.Alpha, c.Rows)
		if c.Sub == "seqs" && rapid.IntRange(0, 5).Draw(t, "multi") != 0 {
			c.Char = c.Char[:1]
		}
	}
	c.IC, c.IG, c.IN = rapid.Bool().Draw(t, "ic"), rapid.Bool().Draw(t, "ig"), rapid.Bool().Draw(t, "in")
	// combinations the command refuses without the documentation saying so: kept, but rare
	isGapChar := c.Char == "" || c.Char == "GAP" || strings.Contains(c.Char, "-")
	if c.Sub == "sites" && c.Char != "MAJ" {
		if c.IG && isGapChar && rapid.IntRange(0, 7).Draw(t, "keepig") != 0 {
			c.IG = false
		}
		if c.IN && !isGapChar && strings.ContainsAny(c.Char, "Nn") && rapid.IntRange(0, 7).Draw(t, "keepin") != 0 {
			c.IN = false
		}
	}
	if c.Sub == "sites" {
		c.Ends = rapid.Bool().Draw(t, "ends")
		// --reverse is documented as not functional with GAP and MAJ: only drawn with characters
		if c.Char != "" && c.Char != "GAP" && c.Char != "-" && c.Char != "MAJ" {
			c.Rev = rapid.Bool().Draw(t, "rev")
		}
	}
	c.Quiet = rapid.Bool().Draw(t, "quiet")
	return c
}

func TestCLI(t *testing.T) {
	if cli.Binary() == "" {
		t.Skip("no goalign binary")
	}
	pbt.Run(t, genCLI, checkCLI(cli.TempDir("c12cli")))
}

// TestCLIEveryLetter: every letter (both cases) as the chosen character of clean sites / clean seqs,
// alone and together with each ignore option, on a fixed small protein and nucleotide alignment
// holding that letter: a chosen character is any character, the refusals the model knows
// (--ignore-n with N/n, --ignore-gaps with '-') must not extend to other letters.
func TestCLIEveryLetter(t *testing.T) {
	if cli.Binary() == "" {
		t.Skip("no goalign binary")
	}
	check := checkCLI(cli.TempDir("c12letters"))
	pbt.Enumerate(t, "clean sites / clean seqs --char <every letter A-Z a-z> x {no option, --ignore-n, --ignore-gaps, --ignore-case}, and the sets <letter>- with --ignore-gaps, <letter>N with --ignore-n", func(yield func(cliCase) bool) {
		const letters = "ABCDEFGHIJKLMNOPQRSTUVWXYZabcdefghijklmnopqrstuvwxyz"
		for i := 0; i < len(letters); i++ {
			ch := string(letters[i])
			for _, sub := range []string{"sites", "seqs"} {
				for opt := 0; opt < 6; opt++ {
					// J, U, O would make the detected alphabet of the file "unknown": they are only chosen, not present
					in := ch
					if strings.ContainsAny(ch, "JUOjuo") {
						in = "A"
					}
					c := cliCase{Sub: sub, Alpha: "aa", Char: ch, P: 1, Q: 2, Quiet: opt%2 == 0,
						Rows: []string{in + "L" + in + "-A", in + "LA-" + in, "NL-x" + in, "ALnXA"}}
					switch opt {
					case 1:
						c.IN = true
					case 2:
						c.IG = true
					case 3:
						c.IC = true
					case 4:
						// the letter together with '-' and --ignore-gaps: refused or computed, never silently nothing
						c.Char, c.IG = ch+"-", true
					case 5:
						c.Char, c.IN = ch+"N", true
					}
					if sub == "seqs" && opt >= 4 {
						continue // clean seqs takes one character
					}
					if !yield(c) {
						return
					}
				}
			}
		}
	}, func(c cliCase) (pbt.Outcome, error) {
		o, err := check(c)
		o.Key = c.Sub + c.Char + fmt.Sprint(c.IN, c.IG, c.IC)
		return o, err
	})
}

func checkCLI(dir string) func(c cliCase) (pbt.Outcome, error) {
	return func(c cliCase) (o pbt.Outcome, err error) {
		all := append([][]string{c.Rows}, c.More...)
		var rows []gen.Row
		for i, r := range c.Rows {
			rows = append(rows, gen.Row{Name: nameOf(i), Seq: r})
		}
		var in string
		if c.Phylip {
			var sb strings.Builder
			for _, al := range all {
				fmt.Fprintf(&sb, " %d %d\n", len(al), len(al[0]))
				for i, r := range al {
					sb.WriteString(nameOf(i) + "  " + r + "\n")
				}
			}
			in = cli.TempFile(dir, ".phy", sb.String())
		} else {
			in = cli.TempFile(dir, ".fa", cli.FastaLayout(rows, c.Layout))
			if !c.Layout.Plain() {
				o.Class("input-layout=not-plain")
			}
		}
		outPath := filepath.Join(dir, filepath.Base(in)+".out")
		defer os.Remove(outPath)
		posK := filepath.Join(dir, filepath.Base(in)+".kept")
		posR := filepath.Join(dir, filepath.Base(in)+".rm")
		defer os.Remove(in)
		defer os.Remove(posK)
		defer os.Remove(posR)
		args := []string{"clean", c.Sub, "-i", in}
		if !c.NoCut {
			args = append(args, "--cutoff="+strconv.FormatFloat(cutoffOf(c.P, c.Q), 'g', -1, 64))
		}
		if c.Char != "" {
			args = append(args, "--char="+c.Char)
		}
		for _, f := range []struct {
			on   bool
			flag string
		}{{c.Ends, "--ends"}, {c.IC, "--ignore-case"}, {c.IG, "--ignore-gaps"}, {c.IN, "--ignore-n"}, {c.Rev, "--reverse"}, {c.Quiet, "-q"}} {
			if f.on {
				args = append(args, f.flag)
			}
		}
		if c.Sub == "sites" {
			args = append(args, "--positions", posK, "--positions-rm", posR)
		}
		if c.Phylip {
			args = append(args, "-p", "--one-line", "--no-block")
			o.Class("input=phylip")
		}
		o.Class("alignments-in-file=%d", len(all))
		if c.OutFile {
			args = append(args, "-o", outPath)
			o.Class("output=file")
		}
		if c.Stale {
			// files that exist already must be replaced, not overwritten in part
			o.Class("stale-output-files")
			if c.OutFile {
				cli.StaleFile(outPath, 60)
			}
			if c.Sub == "sites" {
				cli.StaleFile(posK, 80)
				cli.StaleFile(posR, 80)
			}
		}
		r := cli.Run("", args...)
		if c.OutFile && r.Exit == 0 {
			b, e := os.ReadFile(outPath)
			if e != nil {
				return o, fmt.Errorf("goalign %v: the output file was not written: %v", args, e)
			}
			if strings.TrimSpace(r.Stdout) != "" {
				return o, fmt.Errorf("goalign %v: output on stdout although -o was given: %q", args, r.Stdout)
			}
			r.Stdout = string(b)
		}
		isGap := c.Char == "" || c.Char == "GAP" || c.Char == "-"
		o.Class("cmd=clean %s", c.Sub)
		o.Class("alphabet=%s", c.Alpha)
		switch {
		case isGap:
			o.Class("char=gap")
		case c.Char == "MAJ":
			o.Class("char=MAJ")
		default:
			o.Class("char=set")
		}
		// refusals the documentation does not mention
		mayRefuse := false
		if c.Sub == "sites" {
			if c.IG && (isGap || (c.Char != "MAJ" && strings.Contains(c.Char, "-"))) {
				mayRefuse = true
			}
			if c.IN && !isGap && c.Char != "MAJ" && strings.ContainsAny(c.Char, "Nn") {
				mayRefuse = true
			}
		} else if !isGap && len(c.Char) != 1 {
			mayRefuse = true
		}
		if r.Exit != 0 {
			if mayRefuse {
				o.Ambiguous++
				o.Class("refused-undocumented")
				return o, nil
			}
			return o, fmt.Errorf("goalign %v: exit %d on a valid request, stderr %q", args, r.Exit, r.Stderr)
		}
		if c.Sub == "seqs" && !isGap && len(c.Char) != 1 {
			// accepted although `clean seqs` takes one character: nothing to compare with
			o.Ambiguous++
			return o, nil
		}
		// the output: one block per alignment of the input
		var blocks [][]gen.Row
		if c.Phylip {
			var perr error
			if blocks, perr = parsePhylip(r.Stdout); perr != nil {
				return o, fmt.Errorf("goalign %v: unreadable Phylip output: %v\n%q", args, perr, r.Stdout)
			}
		} else {
			got, perr := cli.ParseFasta(r.Stdout)
			if perr != nil {
				return o, fmt.Errorf("goalign %v: unreadable output: %v", args, perr)
			}
			blocks = [][]gen.Row{got}
		}
		if len(blocks) != len(all) {
			return o, fmt.Errorf("goalign %v: %d alignments written for %d alignments read\n%q", args, len(blocks), len(all), r.Stdout)
		}
		var keptAll, rmAll []int
		var starts, ends [][]string
		if c.Sub == "sites" {
			var e1, e2 error
			keptAll, e1 = readInts(posK)
			rmAll, e2 = readInts(posR)
			if e1 != nil || e2 != nil {
				return o, fmt.Errorf("goalign %v: position files unreadable: %v %v", args, e1, e2)
			}
			starts, ends = reStart.FindAllStringSubmatch(r.Stderr, -1), reEnd.FindAllStringSubmatch(r.Stderr, -1)
			if !c.Quiet && (len(starts) != len(all) || len(ends) != len(all)) {
				return o, fmt.Errorf("goalign %v: start/end counts printed %d/%d times for %d alignments: %q", args, len(starts), len(ends), len(all), r.Stderr)
			}
		}
		for ai, alRows := range all {
			got := blocks[ai]
			var inRows []gen.Row
			for i, r := range alRows {
				inRows = append(inRows, gen.Row{Name: nameOf(i), Seq: r})
			}
			if c.Sub == "sites" {
				sc := siteCase{Alpha: c.Alpha, Rows: alRows, P: c.P, Q: c.Q, Ends: c.Ends}
				switch {
				case isGap:
					// gaps: the fraction of '-' among the rows not excluded by --ignore-n (fix 494299f:
					// the flag is honoured with --char GAP too); --ignore-case has no effect on '-'
					sc.Op, sc.Chars, sc.IN = "char", "-", c.IN
				case c.Char == "MAJ":
					sc.Op, sc.IG, sc.IN = "maj", c.IG, c.IN
				default:
					sc.Op, sc.Chars, sc.IC, sc.IG, sc.IN, sc.Rev = "char", c.Char, c.IC, c.IG, c.IN, c.Rev
				}
				// the part of the position files that belongs to this alignment: as many kept
				// positions as its output block has columns, the other columns removed
				l := len(alRows[0])
				nk := 0
				if len(got) > 0 {
					nk = len(got[0].Seq)
				}
				if nk > l || len(keptAll) < nk || len(rmAll) < l-nk {
					return o, fmt.Errorf("goalign %v: alignment %d keeps %d of %d columns, the position files have %d kept and %d removed entries left\n input : %s\n output: %s", args, ai, nk, l, len(keptAll), len(rmAll), gen.Show(inRows), gen.Show(got))
				}
				kept, rm := keptAll[:nk], rmAll[:l-nk]
				keptAll, rmAll = keptAll[nk:], rmAll[l-nk:]
				states, anyTie, nEither := siteStates(sc, false)
				// leading/trailing counts are printed on stderr unless -q
				inRm := make([]bool, l)
				for _, v := range rm {
					if v >= 0 && v < l {
						inRm[v] = true
					}
				}
				first, last := 0, 0
				for first < l && inRm[first] {
					first++
				}
				for last < l && inRm[l-1-last] {
					last++
				}
				if !c.Quiet {
					first, _ = strconv.Atoi(starts[ai][1])
					last, _ = strconv.Atoi(ends[ai][1])
					if ai == 0 {
						o.Class("counts-read-from-stderr")
					}
				}
				if e := verifySites(alRows, c.Ends, states, first, last, kept, rm, got, -1); e != nil {
					open := false
					if sc.Op == "maj" && (c.P < 0 || c.P > c.Q) {
						lit, _, _ := siteStates(sc, true)
						open = verifySites(alRows, c.Ends, lit, first, last, kept, rm, got, -1) == nil
					}
					if !open {
						return o, fmt.Errorf("goalign %v: alignment %d of the file: %v\n input : %s\n output: %s", args, ai, e, gen.Show(inRows), gen.Show(got))
					}
					nEither++
				}
				if !c.Quiet {
					if v, ok := printed(reLenBefore, r.Stderr, len(all), ai); ok && v != l {
						return o, fmt.Errorf("goalign %v: alignment %d: \"length before cleaning=%d\" printed, the alignment has %d columns", args, ai, v, l)
					}
					if v, ok := printed(reLenAfter, r.Stderr, len(all), ai); ok && v != nk {
						return o, fmt.Errorf("goalign %v: alignment %d: \"length after cleaning=%d\" printed, %d columns are written", args, ai, v, nk)
					}
					// "number of <what>=" without the start / end lines: the number of removed columns
					var totals []int
					for _, m := range reNumberOf.FindAllStringSubmatch(r.Stderr, -1) {
						if !strings.HasPrefix(m[1], "start ") && !strings.HasPrefix(m[1], "end ") {
							v, _ := strconv.Atoi(m[2])
							totals = append(totals, v)
						}
					}
					if len(totals) == len(all) && totals[ai] != l-nk {
						return o, fmt.Errorf("goalign %v: alignment %d: %d removed columns printed, %d columns were removed", args, ai, totals[ai], l-nk)
					}
				}
				o.Ambiguous += nEither
				o.NonTrivial = o.NonTrivial || (len(rm) > 0 && len(kept) > 0) || anyTie
				if ai == 0 {
					o.Classes = append(o.Classes, optClass[sc.optMask()])
				}
				continue
			}
			qc := seqCase{Alpha: c.Alpha, Rows: alRows, P: c.P, Q: c.Q, IN: c.IN}
			if isGap {
				qc.Op, qc.Char = "gap", "-"
			} else {
				qc.Op, qc.Char, qc.IC, qc.IG = "char", c.Char, c.IC, c.IG
			}
			states, anyTie, nEither := seqStates(qc)
			removed, e := verifySeqs(alRows, states, got, 0, false)
			if e != nil {
				return o, fmt.Errorf("goalign %v: alignment %d of the file: %v\n input : %s\n output: %s", args, ai, e, gen.Show(inRows), gen.Show(got))
			}
			if !c.Quiet {
				for _, x := range []struct {
					re   *regexp.Regexp
					what string
					want int
				}{{reSeqsBefore, "#seqs before cleaning", len(alRows)}, {reSeqsAfter, "#seqs after cleaning", len(got)}, {reSeqsRemoved, "removed sequences", removed}} {
					if v, ok := printed(x.re, r.Stderr, len(all), ai); ok && v != x.want {
						return o, fmt.Errorf("goalign %v: alignment %d: \"%s=%d\" printed, the output shows %d", args, ai, x.what, v, x.want)
					}
				}
			}
			o.Ambiguous += nEither
			o.NonTrivial = o.NonTrivial || (removed > 0 && removed < len(alRows)) || anyTie
			if ai == 0 {
				o.Classes = append(o.Classes, "seq-"+optClass[qc.optMask()])
			}
		}
		if len(keptAll) != 0 || len(rmAll) != 0 {
			return o, fmt.Errorf("goalign %v: the position files hold %d kept and %d removed entries more than the %d alignments have columns", args, len(keptAll), len(rmAll), len(all))
		}
		return o, nil
	}
}

// parsePhylip reads sequential one-line Phylip blocks: " n l" followed by n lines "name  residues"
// (the residues are missing when l is 0; "0 -1" is an alignment without sequences)
func parsePhylip(out string) ([][]gen.Row, error) {
	lines := strings.Split(out, "\n")
	if len(lines) > 0 && lines[len(lines)-1] == "" {
		lines = lines[:len(lines)-1]
	}
	var blocks [][]gen.Row
	for k := 0; k < len(lines); {
		hd := strings.Fields(lines[k])
		if len(hd) != 2 {
			return nil, fmt.Errorf("line %d: header expected, got %q", k, lines[k])
		}
		n, e1 := strconv.Atoi(hd[0])
		l, e2 := strconv.Atoi(hd[1])
		if e1 != nil || e2 != nil || n < 0 {
			return nil, fmt.Errorf("line %d: bad header %q", k, lines[k])
		}
		k++
		rows := []gen.Row{}
		if l == 0 && (k >= len(lines) || len(strings.Fields(lines[k])) != 1) {
			// the Phylip writer prints no row at all for an alignment of length 0: the n rows are
			// taken as present with empty residues (their names cannot be read)
			for i := 0; i < n; i++ {
				rows = append(rows, gen.Row{Name: nameOf(i)})
			}
			blocks = append(blocks, rows)
			continue
		}
		if n < 0 || k+n > len(lines) {
			return nil, fmt.Errorf("line %d: %d rows announced, %d lines left", k-1, n, len(lines)-k)
		}
		for i := 0; i < n; i++ {
			f := strings.Fields(lines[k+i])
			switch {
			case len(f) == 2:
				rows = append(rows, gen.Row{Name: f[0], Seq: f[1]})
			case len(f) == 1 && l == 0:
				rows = append(rows, gen.Row{Name: f[0]})
			default:
				return nil, fmt.Errorf("line %d: name and residues expected, got %q", k+i, lines[k+i])
			}
			if len(rows[i].Seq) != l && !(l <= 0 && rows[i].Seq == "") {
				return nil, fmt.Errorf("line %d: %d residues announced, %q", k+i, l, lines[k+i])
			}
		}
		k += n
		blocks = append(blocks, rows)
	}
	return blocks, nil
}
