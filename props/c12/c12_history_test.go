package c12

// Prior use: ONE alignment object is cleaned / queried several times, and between the uses its alphabet is
// changed by the library's own setters (SetAlphabet, AutoAlphabet, in-place Translate) and / or its content
// is edited in place (SetSequenceChar). Every use is judged by the same reference model as a first use, on
// the content the object holds at that moment and for the alphabet it has at that moment: nothing derived
// from the alphabet or the content at an earlier use may survive the change.

import (
	"fmt"
	"strings"
	"testing"

	"github.com/evolbioinfo/goalign/align"
	"pgregory.net/rapid"
	"verif/internal/gen"
	"verif/internal/pbt"
)

type histStep struct {
	// Kind: "stats" MaxCharStats(IG, IN); "sites" a site cleaning (Site, rows ignored); "seqs" a sequence
	// cleaning (Seq, rows ignored); "setalpha" SetAlphabet(To); "auto" AutoAlphabet(); "translate"
	// Translate(0, standard) (only while the object still holds the codons it was built from);
	// "edit" SetSequenceChar(I mod rows, K mod columns, Ch)
	Kind string    `json:"kind"`
	Site *siteCase `json:"site,omitempty"`
	Seq  *seqCase  `json:"seq,omitempty"`
	IG   bool      `json:"ignore_gaps,omitempty"`
	IN   bool      `json:"ignore_n,omitempty"`
	To   string    `json:"to,omitempty"`
	I    int       `json:"i,omitempty"`
	K    int       `json:"k,omitempty"`
	Ch   string    `json:"ch,omitempty"`
}

type histCase struct {
	Alpha string   `json:"alphabet"`
	Rows  []string `json:"rows"`
	// Codons: Rows is a protein content; the object is built as the nucleotide alignment of codons that
	// the standard code translates to it (Alpha is then "nt")
	Codons bool       `json:"codons,omitempty"`
	Steps  []histStep `json:"steps"`
}

func codonRows(rows []string) []string {
	out := make([]string, len(rows))
	for i, r := range rows {
		var sb strings.Builder
		for k := 0; k < len(r); k++ {
			sb.WriteString(codonOf[r[k]])
		}
		out[i] = sb.String()
	}
	return out
}

func sameStrings(a, b []string) bool {
	if len(a) != len(b) {
		return false
	}
	for i := range a {
		if a[i] != b[i] {
			return false
		}
	}
	return true
}

// narrow: the alphabets the model accepts after a change of alphabet: the admissible ones by the rule of
// the setter, narrowed to the one the object declares when that one is admissible
func narrow(al align.Alignment, admissible []string) []string {
	declared := ""
	switch al.Alphabet() {
	case align.NUCLEOTIDS:
		declared = "nt"
	case align.AMINOACIDS:
		declared = "aa"
	}
	for _, a := range admissible {
		if a == declared {
			return []string{a}
		}
	}
	return admissible
}

// judgeStats: MaxCharStats on one column under one alphabet
func statsOK(col []byte, alpha string, ig, in bool, out uint8, occur, total int) bool {
	var f [256]int
	elig, mf := 0, 0
	for _, ch := range col {
		if (ig && ch == '-') || (in && isWild(alpha, ch)) {
			continue
		}
		elig++
		f[fold(ch)]++
		if f[fold(ch)] > mf {
			mf = f[fold(ch)]
		}
	}
	if total != elig {
		return false
	}
	if elig == 0 {
		return true // "except if only gaps / Ns": the documented fall-back is not judged here
	}
	return occur == mf && f[out] == mf && !((ig && out == '-') || (in && isWild(alpha, out)))
}

func checkHistory(c histCase) (o pbt.Outcome, err error) {
	rows := append([]string{}, c.Rows...)
	alpha := c.Alpha
	var initialCodons []string
	if c.Codons {
		initialCodons = codonRows(c.Rows)
		rows = append([]string{}, initialCodons...)
		alpha = "nt"
	}
	al := gen.MustBuild(ali(alpha, rows))
	alphas := []string{alpha}
	names := make([]string, len(rows))
	for i := range rows {
		names[i] = nameOf(i)
	}
	uses, changesSinceUse, usesAfterChange := 0, 0, 0
	alphaChanged, edited, translated := false, false, false
	lastSplit, lastTie := false, false
	where := func(k int, s histStep) string {
		return fmt.Sprintf("step %d (%s) on %s as %v", k, s.Kind, strings.Join(rows, "/"), alphas)
	}
	used := func() {
		uses++
		if changesSinceUse > 0 && uses > 1 {
			usesAfterChange++
		}
		changesSinceUse = 0
	}
	for k, s := range c.Steps {
		if len(rows) == 0 || len(rows[0]) == 0 {
			break
		}
		switch s.Kind {
		case "stats":
			out, occur, total := al.MaxCharStats(s.IG, s.IN)
			if len(out) != len(rows[0]) || len(occur) != len(out) || len(total) != len(out) {
				return o, fmt.Errorf("%s: MaxCharStats gives %d/%d/%d values for %d columns", where(k, s), len(out), len(occur), len(total), len(rows[0]))
			}
			for j := range out {
				ok := false
				for _, a := range alphas {
					ok = ok || statsOK(column(rows, j), a, s.IG, s.IN, out[j], occur[j], total[j])
				}
				if !ok {
					return o, fmt.Errorf("%s: MaxCharStats(ignoreGaps=%v, ignoreNs=%v) column %d %q: character %q occurrences %d of %d", where(k, s), s.IG, s.IN, j, string(column(rows, j)), string(out[j]), occur[j], total[j])
				}
			}
			used()
		case "sites":
			sc := *s.Site
			sc.Rows = rows
			var first, last int
			var kept, rm []int
			switch sc.Op {
			case "char":
				first, last, kept, rm = al.RemoveCharacterSites([]uint8(sc.Chars), cutoffOf(sc.P, sc.Q), sc.Ends, sc.IC, sc.IG, sc.IN, sc.Rev)
			case "gap":
				first, last, kept, rm = al.RemoveGapSites(cutoffOf(sc.P, sc.Q), sc.Ends)
			case "maj":
				first, last, kept, rm = al.RemoveMajorityCharacterSites(cutoffOf(sc.P, sc.Q), sc.Ends, sc.IG, sc.IN)
			}
			states, tie, nEither := siteStatesUnder(sc, alphas, false)
			if e := verifySitesNamed(names, rows, sc.Ends, states, first, last, kept, rm, gen.Snapshot(al), al.Length()); e != nil {
				return o, fmt.Errorf("%s: %s %q cutoff %d/%d %s: %v", where(k, s), sc.Op, sc.Chars, sc.P, sc.Q, optClass[sc.optMask()], e)
			}
			o.Ambiguous += nEither
			lastSplit, lastTie = len(rm) > 0 && len(kept) > 0, tie
			for i, r := range rows {
				w := make([]byte, len(kept))
				for x, j := range kept {
					w[x] = r[j]
				}
				rows[i] = string(w)
			}
			used()
		case "seqs":
			qc := *s.Seq
			qc.Rows = rows
			var n int
			if qc.Op == "gap" {
				n = al.RemoveGapSeqs(cutoffOf(qc.P, qc.Q), qc.IN)
			} else {
				n = al.RemoveCharacterSeqs(qc.Char[0], cutoffOf(qc.P, qc.Q), qc.IC, qc.IG, qc.IN)
			}
			states, tie, nEither := seqStatesUnder(qc, alphas)
			after := gen.Snapshot(al)
			removed, e := verifySeqsNamed(names, rows, states, after, n, true)
			if e != nil {
				return o, fmt.Errorf("%s: sequences %s %q cutoff %d/%d seq-%s: %v", where(k, s), qc.Op, qc.Char, qc.P, qc.Q, optClass[qc.optMask()], e)
			}
			o.Ambiguous += nEither
			lastSplit, lastTie = removed > 0 && removed < len(rows), tie
			rows, names = rows[:0], names[:0]
			for _, r := range after {
				rows, names = append(rows, r.Seq), append(names, r.Name)
			}
			used()
		case "setalpha":
			if e := al.SetAlphabet(alphaCode(s.To)); e == nil {
				if len(alphas) != 1 || alphas[0] != s.To {
					alphaChanged = true
					changesSinceUse++
				}
				alphas = []string{s.To}
			}
		case "auto":
			al.AutoAlphabet()
			now := narrow(al, contentAlphabets(rows))
			if !sameStrings(now, alphas) {
				alphaChanged = true
				changesSinceUse++
			}
			alphas = now
		case "translate":
			if !c.Codons || translated || !sameStrings(rows, initialCodons) || len(alphas) != 1 || alphas[0] != "nt" {
				continue
			}
			if e := al.Translate(0, align.GENETIC_CODE_STANDARD); e != nil {
				panic(fmt.Sprintf("harness: Translate refused: %v", e))
			}
			rows = append([]string{}, c.Rows...)
			if got := seqsOf(gen.Snapshot(al)); !sameStrings(got, rows) {
				o.Skip = true // the translation itself is the subject of C05
				return o, nil
			}
			alphas = narrow(al, contentAlphabets(rows))
			translated, alphaChanged = true, true
			changesSinceUse++
		case "edit":
			i, j := s.I%len(rows), s.K%len(rows[0])
			if e := al.SetSequenceChar(i, j, s.Ch[0]); e != nil {
				panic(fmt.Sprintf("harness: SetSequenceChar(%d,%d) refused: %v", i, j, e))
			}
			b := []byte(rows[i])
			b[j] = s.Ch[0]
			rows[i] = string(b)
			edited = true
			changesSinceUse++
		default:
			panic("harness: unknown step " + s.Kind)
		}
	}
	// the object holds what the model holds
	if len(rows) > 0 && len(rows[0]) > 0 {
		if got := seqsOf(gen.Snapshot(al)); !sameStrings(got, rows) {
			return o, fmt.Errorf("after the steps the alignment holds %v, the model %v", got, rows)
		}
	}
	o.NonTrivial = usesAfterChange > 0 && (lastSplit || lastTie)
	o.Class("history:uses=%d", uses)
	if usesAfterChange > 0 {
		o.Class("history:use-after-change-after-use")
		if alphaChanged {
			o.Class("history:alphabet-changed-between-uses")
		}
		if edited {
			o.Class("history:content-edited-between-uses")
		}
		if translated {
			o.Class("history:translated-in-place-between-uses")
		}
	}
	return o, nil
}

func genInsideCutoff(t *rapid.T, hint int) (int, int) {
	p, q := genCutoff(t, hint)
	if p < 0 || p > q {
		p = q
	}
	return p, q
}

func genHistory(t *rapid.T) histCase {
	c := histCase{Alpha: rapid.SampledFrom([]string{"nt", "aa"}).Draw(t, "alphabet")}
	if rapid.IntRange(0, 4).Draw(t, "codons") == 0 {
		c.Codons, c.Alpha = true, "nt"
		a := gen.Columnwise(t, "ACDNLX-NX", 1, 6, 1, 8, "aa")
		for _, r := range a.Rows {
			c.Rows = append(c.Rows, r.Seq)
		}
	} else {
		c.Rows = genRows(t, c.Alpha, 6, 8)
	}
	content := c.Alpha // the alphabet the character sets are drawn for
	if c.Codons {
		content = "aa"
	}
	n := rapid.IntRange(2, 7).Draw(t, "nsteps")
	kinds := []string{"stats", "sites", "seqs", "setalpha", "auto", "edit", "sites", "setalpha"}
	if c.Codons {
		kinds = append(kinds, "translate", "translate")
	}
	for k := 0; k < n; k++ {
		var s histStep
		if k == 0 {
			s.Kind = rapid.SampledFrom([]string{"stats", "sites", "seqs"}).Draw(t, "first")
		} else {
			s.Kind = rapid.SampledFrom(kinds).Draw(t, "kind")
		}
		pool := content
		if rapid.Bool().Draw(t, "otherpool") {
			pool = map[string]string{"nt": "aa", "aa": "nt"}[content]
		}
		switch s.Kind {
		case "stats":
			s.IG, s.IN = rapid.Bool().Draw(t, "ig"), rapid.Bool().Draw(t, "in")
		case "sites":
			sc := siteCase{Op: rapid.SampledFrom([]string{"char", "char", "maj", "gap"}).Draw(t, "op")}
			sc.P, sc.Q = genInsideCutoff(t, len(c.Rows))
			if sc.Op == "char" {
				sc.Chars = genCharSet(t, pool, c.Rows)
				sc.IC, sc.Rev = rapid.Bool().Draw(t, "ic"), rapid.IntRange(0, 3).Draw(t, "rev") == 0
			}
			sc.Ends = rapid.IntRange(0, 3).Draw(t, "ends") == 0
			if sc.Op != "gap" {
				sc.IG, sc.IN = rapid.Bool().Draw(t, "ig"), rapid.IntRange(0, 3).Draw(t, "in") != 0
			}
			s.Site = &sc
		case "seqs":
			qc := seqCase{Op: rapid.SampledFrom([]string{"char", "char", "gap"}).Draw(t, "op"), Char: "-"}
			qc.P, qc.Q = genInsideCutoff(t, len(c.Rows[0]))
			if qc.Op == "char" {
				qc.Char = genCharSet(t, pool, c.Rows)[:1]
				qc.IC, qc.IG = rapid.Bool().Draw(t, "ic"), rapid.Bool().Draw(t, "ig")
			}
			qc.IN = rapid.IntRange(0, 3).Draw(t, "in") != 0
			s.Seq = &qc
		case "setalpha":
			s.To = rapid.SampledFrom([]string{"aa", "nt"}).Draw(t, "to")
		case "edit":
			s.I, s.K = rapid.IntRange(0, 11).Draw(t, "i"), rapid.IntRange(0, 23).Draw(t, "k")
			chars := alphaChars(pool)
			s.Ch = string(chars[rapid.IntRange(0, len(chars)-1).Draw(t, "ch")])
		}
		c.Steps = append(c.Steps, s)
	}
	return c
}

func TestCleanHistory(t *testing.T) { pbt.Run(t, genHistory, checkHistory) }
