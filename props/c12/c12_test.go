// C12 - Cleaning removes exactly the sites and sequences that meet the cutoff
package c12

import (
	"fmt"
	"io"
	"log"
	"math/rand"
	"os"
	"strconv"
	"strings"
	"testing"

	"github.com/evolbioinfo/goalign/align"
	"github.com/evolbioinfo/goalign/io/clustal"
	"github.com/evolbioinfo/goalign/io/fasta"
	"github.com/evolbioinfo/goalign/io/phylip"
	"pgregory.net/rapid"
	"verif/internal/gen"
	"verif/internal/pbt"
)

func TestMain(m *testing.M) {
	log.SetOutput(io.Discard)
	pbt.Main(m, "C12")
}

// ---- reference model, exact rational arithmetic -------------------------------------------
//
// The cutoff is the fraction P/Q (Q > 0); the code receives float64(P)/float64(Q).
// A cutoff outside [0,1] counts as 0 (doc comment of RemoveCharacterSites and clean.md).
// Cutoff 0: a site/sequence qualifies iff the count of matching characters is positive.
// Otherwise : iff count/total >= P/Q, i.e. count*Q >= P*total, where total is the number of
// cells not excluded by ignore-gaps ('-') / ignore-N (N,n for nucleotides; X,x for proteins).
//
// Two readings of "count" are accepted (the statement says the fraction is "computed over the
// rows not excluded", the doc comment only says that gaps/N are "ignored in the % computation"):
//   R1 count over all cells (matching cells that are themselves excluded still count)
//   R2 count over the non excluded cells only
// They differ only when a selected character is also an excluded one (e.g. --char - with
// --ignore-gaps, which the command line refuses, or an inverted selection with ignore-gaps).
// Where the two readings decide differently, and where no cell is eligible (total = 0, the
// fraction is undefined) with a positive cutoff, either outcome is accepted.

const (
	stNo     = 0
	stYes    = 1
	stEither = 2
)

func fold(ch byte) byte {
	if ch >= 'a' && ch <= 'z' {
		return ch - 32
	}
	return ch
}

func isWild(alpha string, ch byte) bool {
	if alpha == "aa" {
		return ch == 'X' || ch == 'x'
	}
	return ch == 'N' || ch == 'n'
}

func inSet(chars string, ch byte, ignoreCase bool) bool {
	for i := 0; i < len(chars); i++ {
		if chars[i] == ch || (ignoreCase && fold(chars[i]) == fold(ch)) {
			return true
		}
	}
	return false
}

// effective numerator of the cutoff
func effP(p, q int) int {
	if p < 0 || p > q {
		return 0
	}
	return p
}

func decide(count, total, p, q int) bool {
	if p == 0 {
		return count > 0
	}
	return count*q >= p*total
}

// judgeCells: cells = one column (site cleaning) or one row (sequence cleaning)
func judgeCells(cells []byte, alpha, chars string, p, q int, ignoreCase, ignoreGaps, ignoreN, reverse bool) (state int, tie bool) {
	p = effP(p, q)
	countAll, countElig, total := 0, 0, 0
	for _, ch := range cells {
		sel := inSet(chars, ch, ignoreCase)
		if reverse {
			sel = !sel
		}
		excl := (ignoreGaps && ch == '-') || (ignoreN && isWild(alpha, ch))
		if sel {
			countAll++
		}
		if !excl {
			total++
			if sel {
				countElig++
			}
		}
	}
	if total == 0 && p > 0 {
		return stEither, false
	}
	d1 := decide(countAll, total, p, q)
	d2 := decide(countElig, total, p, q)
	if d1 != d2 {
		return stEither, false
	}
	tie = p > 0 && total > 0 && countAll*q == p*total && countElig*q == p*total
	if d1 {
		return stYes, tie
	}
	return stNo, tie
}

// judgeMajority: fraction of the most abundant character among the non excluded cells.
// The most abundant character is determined on case-folded counts: 'A' and 'a' are one character.
// (The majority clause of C12 anchors MaxCharStats; the statement of C14 defines "the majority /
// consensus character" on case-folded counts, docs/commands/stats.md and consensus.md treat N/n and X/x
// as one character, and the unchanged MaxCharStats upper-cases every cell before counting.)
// No eligible cell: the documented fall-back ("except if only gaps/Ns") leaves the fraction
// undefined: either outcome.
//
// A cutoff outside [0,1] is outside the property's quantifier. The doc comments say it is "set
// to 0"; RemoveCharacterSites/RemoveCharacterSeqs do that (asserted), RemoveMajorityCharacterSites
// does not (it removes nothing, see FINDINGS.md): for the majority variant both are accepted.
func judgeMajority(cells []byte, alpha string, p, q int, ignoreGaps, ignoreN, literal bool) (state int, tie bool) {
	if literal && p < 0 {
		return stNo, false // neither "cutoff > 0 and fraction >= cutoff" nor "cutoff = 0"
	}
	if !literal {
		p = effP(p, q)
	}
	var f [256]int
	total, mf := 0, 0
	for _, ch := range cells {
		if (ignoreGaps && ch == '-') || (ignoreN && isWild(alpha, ch)) {
			continue
		}
		total++
		f[fold(ch)]++
		if f[fold(ch)] > mf {
			mf = f[fold(ch)]
		}
	}
	if total == 0 {
		return stEither, false
	}
	tie = p > 0 && mf*q == p*total
	if decide(mf, total, p, q) {
		return stYes, tie
	}
	return stNo, tie
}

// ---- cases -----------------------------------------------------------------------------------

// siteCase: one call of a site cleaning function
type siteCase struct {
	Alpha string   `json:"alphabet"` // "nt" | "aa"
	Rows  []string `json:"rows"`
	Op    string   `json:"op"`    // "char" RemoveCharacterSites, "gap" RemoveGapSites, "maj" RemoveMajorityCharacterSites
	Chars string   `json:"chars"` // op=char
	P     int      `json:"p"`     // cutoff = P/Q
	Q     int      `json:"q"`
	Ends  bool     `json:"ends"`
	IC    bool     `json:"ignore_case"`
	IG    bool     `json:"ignore_gaps"`
	IN    bool     `json:"ignore_n"`
	Rev   bool     `json:"reverse"`
	// Build: how the alignment is constructed before it is cleaned (see construct); Seed for Sample
	Build string    `json:"build,omitempty"`
	Seed  int64     `json:"seed,omitempty"`
	Plan  *gen.Plan `json:"plan,omitempty"` // Build "plan": the drawn chain of operations (gen.BuildVia)
}

func (c siteCase) optMask() int {
	m := 0
	for i, b := range []bool{c.Ends, c.IC, c.IG, c.IN, c.Rev} {
		if b {
			m |= 1 << uint(i)
		}
	}
	return m
}

func (c siteCase) key() string {
	return c.Alpha + "|" + strings.Join(c.Rows, "/") + "|" + c.Op + "|" + c.Chars + "|" + strconv.Itoa(c.P) + "/" + strconv.Itoa(c.Q) + "|" + strconv.Itoa(c.optMask()) + "|" + c.Build
}

func ali(alpha string, rows []string) gen.Ali {
	a := gen.Ali{Alphabet: alpha}
	for i, s := range rows {
		a.Rows = append(a.Rows, gen.Row{Name: "s" + strconv.Itoa(i), Seq: s})
	}
	return a
}

var optClass [32]string
var optNames = []string{"ends", "icase", "igaps", "iN", "rev"}

func init() {
	for m := 0; m < 32; m++ {
		s := "opts="
		for i, n := range optNames {
			if m&(1<<uint(i)) != 0 {
				s += "+" + n
			}
		}
		if m == 0 {
			s += "none"
		}
		optClass[m] = s
	}
}

func column(rows []string, j int) []byte {
	b := make([]byte, len(rows))
	for i, r := range rows {
		b[i] = r[j]
	}
	return b
}

// siteStates evaluates the reference model on every column
func siteStates(c siteCase, literal bool) (states []int, anyTie bool, nEither int) {
	l := len(c.Rows[0])
	states = make([]int, l)
	for j := 0; j < l; j++ {
		col := column(c.Rows, j)
		var tie bool
		switch c.Op {
		case "char":
			states[j], tie = judgeCells(col, c.Alpha, c.Chars, c.P, c.Q, c.IC, c.IG, c.IN, c.Rev)
		case "gap":
			states[j], tie = judgeCells(col, c.Alpha, "-", c.P, c.Q, false, false, false, false)
		case "maj":
			states[j], tie = judgeMajority(col, c.Alpha, c.P, c.Q, c.IG, c.IN, literal)
		default:
			panic("harness: unknown op " + c.Op)
		}
		if tie {
			anyTie = true
		}
		if states[j] == stEither {
			nEither++
		}
	}
	return
}

// verifySites compares what a site cleaning returned with the reference model
func verifySites(rows []string, ends bool, states []int, first, last int, kept, rm []int, after []gen.Row, lengthAfter int) error {
	return verifySitesNamed(nil, rows, ends, states, first, last, kept, rm, after, lengthAfter)
}

// names: the names of the rows, nil = s0, s1, ...
func verifySitesNamed(names []string, rows []string, ends bool, states []int, first, last int, kept, rm []int, after []gen.Row, lengthAfter int) error {
	l := len(rows[0])
	// kept and rm: ascending, inside [0,L), disjoint, union = [0,L)
	inRm := make([]bool, l)
	seen := make([]bool, l)
	for li, list := range [][]int{kept, rm} {
		name := []string{"kept", "removed"}[li]
		for i, v := range list {
			if v < 0 || v >= l {
				return fmt.Errorf("%s index %d outside [0,%d)", name, v, l)
			}
			if i > 0 && list[i-1] >= v {
				return fmt.Errorf("%s indices not strictly ascending: %v", name, list)
			}
			if seen[v] {
				return fmt.Errorf("index %d reported twice (kept %v removed %v)", v, kept, rm)
			}
			seen[v] = true
			if name == "removed" {
				inRm[v] = true
			}
		}
	}
	if len(kept)+len(rm) != l {
		return fmt.Errorf("kept %v and removed %v do not partition the %d columns", kept, rm, l)
	}
	// maximal removed prefix / suffix
	f := 0
	for f < l && inRm[f] {
		f++
	}
	b := 0
	for b < l && inRm[l-1-b] {
		b++
	}
	if !ends {
		for j := 0; j < l; j++ {
			if states[j] == stYes && !inRm[j] {
				return fmt.Errorf("site %d meets the cutoff but was kept (kept %v removed %v)", j, kept, rm)
			}
			if states[j] == stNo && inRm[j] {
				return fmt.Errorf("site %d does not meet the cutoff but was removed (kept %v removed %v)", j, kept, rm)
			}
		}
	} else {
		for j := 0; j < f; j++ {
			if states[j] == stNo {
				return fmt.Errorf("ends: site %d of the removed prefix does not meet the cutoff (removed %v)", j, rm)
			}
		}
		if f < l && states[f] == stYes {
			return fmt.Errorf("ends: site %d meets the cutoff and continues the removed prefix [0,%d) but was kept", f, f)
		}
		for j := l - b; j < l; j++ {
			if states[j] == stNo {
				return fmt.Errorf("ends: site %d of the removed suffix does not meet the cutoff (removed %v)", j, rm)
			}
		}
		if b < l && states[l-1-b] == stYes {
			return fmt.Errorf("ends: site %d meets the cutoff and continues the removed suffix but was kept", l-1-b)
		}
		if f < l {
			for j := f; j < l-b; j++ {
				if inRm[j] {
					return fmt.Errorf("ends: interior site %d removed (removed %v, prefix %d, suffix %d)", j, rm, f, b)
				}
			}
		}
	}
	if first != f {
		return fmt.Errorf("reported leading count %d, the removed indices %v start with %d consecutive sites", first, rm, f)
	}
	if last != b {
		return fmt.Errorf("reported trailing count %d, the removed indices %v end with %d consecutive sites", last, rm, b)
	}
	// result = selection of the kept columns, names and order intact
	if len(after) != len(rows) {
		return fmt.Errorf("number of sequences changed: %d -> %d", len(rows), len(after))
	}
	for i, r := range rows {
		w := make([]byte, len(kept))
		for k, j := range kept {
			w[k] = r[j]
		}
		want := nameOf(i)
		if names != nil {
			want = names[i]
		}
		if after[i].Name != want {
			return fmt.Errorf("row %d is named %q after cleaning", i, after[i].Name)
		}
		if after[i].Seq != string(w) {
			return fmt.Errorf("row %d after cleaning is %q, the kept columns %v of %q are %q", i, after[i].Seq, kept, r, string(w))
		}
	}
	if lengthAfter >= 0 && lengthAfter != len(kept) {
		return fmt.Errorf("Length() = %d after cleaning, %d columns kept", lengthAfter, len(kept))
	}
	return nil
}

func nameOf(i int) string { return "s" + strconv.Itoa(i) }

// ---- the ways library users obtain an alignment ---------------------------------------------------
//
//	""       rows added with AddSequence (every row owns its bytes)
//	"shared" rows added with AddSequenceChar; identical rows are added from ONE []uint8
//	"append" the first half built as above, the second half appended from another alignment with
//	         Append (which does not copy the rows)
//	"sample" Sample(all rows) of a source alignment: a permutation whose rows are the source's rows
//	"clone"  Clone() of a source alignment
//	"plan"   a drawn chain of public operations ending on the content (gen.DrawPlan / gen.BuildVia)
//
// and objects whose ALPHABET comes from a history instead of a declaration:
//
//	"translate"     a nucleotide alignment (codons chosen so that the standard code gives the content)
//	                translated in place with Translate(0, standard)
//	"parse-fasta" / "parse-clustal" / "parse-phylip"  written with the format's writer and parsed again
//	                (alphabet detected by the parser)
//	"auto"          NewAlign(UNKNOWN), AddSequence, AutoAlphabet()
//	"reauto"        built as nucleotides over a placeholder content, every cell then set with
//	                SetSequenceChar, AutoAlphabet() called after the content changed
//
// For these the model takes the alphabet the CONTENT has, classified independently: protein when a
// letter occurs that is no nucleotide code (E F I L P Q Z), nucleotide when U or O occurs; when
// every letter is compatible with both (detection then answers "nucleotide" on the unchanged tree, a
// choice the documentation does not fix) the two alphabets are both accepted.
//
// The cleaning must give the selection of the kept columns (rows) of what the alignment held, and the
// alignment that was the SOURCE of the Append / Sample / Clone must be unchanged afterwards.
// randomBuildModes: the random run draws from every construction (rapid favours the first entries)
var randomBuildModes = []string{"", "plan", "translate", "parse-clustal", "shared", "auto", "append", "parse-fasta", "reauto", "sample", "parse-phylip", "clone", "plan", "translate"}

var buildModes = []string{"", "shared", "", "append", "", "sample", "clone"}

func alphaCode(alpha string) int {
	if alpha == "aa" {
		return align.AMINOACIDS
	}
	return align.NUCLEOTIDS
}

var codonOf = map[byte]string{'A': "GCT", 'C': "TGT", 'D': "GAT", 'N': "AAT", 'L': "CTT", 'G': "GGT", 'T': "ACT", 'X': "NNN", '-': "---"}

// translatable: the content can be the result of a translation chosen by the harness
func translatable(rows []string) bool {
	for _, r := range rows {
		for i := 0; i < len(r); i++ {
			if _, ok := codonOf[r[i]]; !ok {
				return false
			}
		}
	}
	return true
}

// contentAlphabets: the alphabets the content can have, by the letters it holds
func contentAlphabets(rows []string) []string {
	aa, nt := false, false
	for _, r := range rows {
		for i := 0; i < len(r); i++ {
			switch fold(r[i]) {
			case 'E', 'F', 'I', 'L', 'P', 'Q', 'Z':
				aa = true
			case 'U', 'O':
				nt = true
			}
		}
	}
	switch {
	case aa && !nt:
		return []string{"aa"}
	case nt && !aa:
		return []string{"nt"}
	}
	return []string{"nt", "aa"}
}

func construct(alpha string, rows []string, build string, seed int64, plan *gen.Plan) (al align.Alignment, held []gen.Row, alphas []string, sourceUnchanged func() error) {
	alphas = []string{alpha}
	sourceUnchanged = func() error { return nil }
	must := func(e error) {
		if e != nil {
			panic(fmt.Sprintf("harness: cannot build the alignment (%s): %v", build, e))
		}
	}
	watch := func(what string, src align.Alignment) {
		before := gen.Snapshot(src)
		sourceUnchanged = func() error {
			if now := gen.Snapshot(src); !gen.SameRows(now, before) {
				return fmt.Errorf("the alignment that was the source of the %s changed: %s -> %s", what, gen.Show(before), gen.Show(now))
			}
			return nil
		}
	}
	switch build {
	case "shared":
		al = align.NewAlign(alphaCode(alpha))
		bufs := map[string][]uint8{}
		for i, r := range rows {
			b, ok := bufs[r]
			if !ok {
				b = []uint8(r)
				bufs[r] = b
			}
			must(al.AddSequenceChar(nameOf(i), b, ""))
		}
	case "append":
		k := len(rows) / 2
		al = align.NewAlign(alphaCode(alpha))
		for i := 0; i < k; i++ {
			must(al.AddSequence(nameOf(i), rows[i], ""))
		}
		src := align.NewAlign(alphaCode(alpha))
		for i := k; i < len(rows); i++ {
			must(src.AddSequence(nameOf(i), rows[i], ""))
		}
		must(al.Append(src))
		watch("Append", src)
	case "sample":
		src := gen.MustBuild(ali(alpha, rows))
		rand.Seed(seed)
		var e error
		al, e = src.Sample(len(rows))
		must(e)
		watch("Sample", src)
	case "clone":
		src := gen.MustBuild(ali(alpha, rows))
		var e error
		al, e = src.Clone()
		must(e)
		watch("Clone", src)
	case "plan":
		var ok bool
		if plan != nil {
			al, ok = gen.BuildVia(ali(alpha, rows), *plan)
		}
		if !ok {
			al = gen.MustBuild(ali(alpha, rows))
		}
	case "translate":
		if !translatable(rows) {
			al = gen.MustBuild(ali(alpha, rows))
			break
		}
		al = align.NewAlign(align.NUCLEOTIDS)
		for i, r := range rows {
			var sb strings.Builder
			for k := 0; k < len(r); k++ {
				codon := codonOf[r[k]]
				if (i+k)%3 == 0 && r[k] != '-' {
					codon = strings.ToLower(codon) // soft-masked codons translate like upper-case ones
				}
				sb.WriteString(codon)
			}
			must(al.AddSequence(nameOf(i), sb.String(), ""))
		}
		must(al.Translate(0, align.GENETIC_CODE_STANDARD))
		alphas = contentAlphabets(rows)
	case "parse-fasta", "parse-clustal", "parse-phylip":
		src := gen.MustBuild(ali(alpha, rows))
		var e error
		switch build {
		case "parse-fasta":
			al, e = fasta.NewParser(strings.NewReader(fasta.WriteAlignment(src))).Parse()
		case "parse-clustal":
			al, e = clustal.NewParser(strings.NewReader(clustal.WriteAlignment(src))).Parse()
		default:
			al, e = phylip.NewParser(strings.NewReader(phylip.WriteAlignment(src, false, true, true)), false).Parse()
		}
		must(e)
		alphas = contentAlphabets(rows)
	case "auto":
		al = align.NewAlign(align.UNKNOWN)
		for i, r := range rows {
			must(al.AddSequence(nameOf(i), r, ""))
		}
		al.AutoAlphabet()
		alphas = contentAlphabets(rows)
	case "reauto":
		al = align.NewAlign(align.NUCLEOTIDS)
		for i, r := range rows {
			must(al.AddSequence(nameOf(i), strings.Repeat("A", len(r)), ""))
		}
		for i, r := range rows {
			for k := 0; k < len(r); k++ {
				must(al.SetSequenceChar(i, k, r[k]))
			}
		}
		al.AutoAlphabet()
		alphas = contentAlphabets(rows)
	default:
		al = gen.MustBuild(ali(alpha, rows))
	}
	held = gen.Snapshot(al)
	if len(held) != len(rows) {
		panic("harness: the construction " + build + " does not hold the rows asked for")
	}
	if build != "sample" {
		for i, r := range rows {
			if held[i].Seq != r {
				panic(fmt.Sprintf("harness: the construction %s holds %q for row %d, asked for %q", build, held[i].Seq, i, r))
			}
		}
	}
	return
}

// mergeStates: the model evaluated under every admissible alphabet; where they disagree either
// outcome is accepted
func mergeStates(per [][]int) (states []int, nEither int) {
	states = append([]int{}, per[0]...)
	for _, other := range per[1:] {
		for i := range states {
			if states[i] != other[i] {
				states[i] = stEither
			}
		}
	}
	for _, v := range states {
		if v == stEither {
			nEither++
		}
	}
	return
}

func siteStatesUnder(c siteCase, alphas []string, literal bool) (states []int, anyTie bool, nEither int) {
	var per [][]int
	for _, a := range alphas {
		c2 := c
		c2.Alpha = a
		st, tie, _ := siteStates(c2, literal)
		per = append(per, st)
		anyTie = anyTie || tie
	}
	states, nEither = mergeStates(per)
	return
}

func seqStatesUnder(c seqCase, alphas []string) (states []int, anyTie bool, nEither int) {
	var per [][]int
	for _, a := range alphas {
		c2 := c
		c2.Alpha = a
		st, tie, _ := seqStates(c2)
		per = append(per, st)
		anyTie = anyTie || tie
	}
	states, nEither = mergeStates(per)
	return
}

// byNameView: the cleaned object read by name agrees with the object read by index. before = the rows it
// held before the cleaning, after = the rows it holds now (by index). A remaining sequence is found by
// name with its residues and at its index; a removed one is found by no access path, and can be added
// again under its own name (which is then the name of the new last row). The object is modified by the
// last step: call it last.
func byNameView(al align.Alignment, before, after []gen.Row) error {
	at := map[string]int{}
	for i, r := range after {
		at[r.Name] = i
	}
	for _, r := range before {
		i, remains := at[r.Name]
		s, ok1 := al.GetSequence(r.Name)
		ch, ok2 := al.GetSequenceChar(r.Name)
		sq, ok3 := al.GetSequenceByName(r.Name)
		_, ok4 := al.SequenceByName(r.Name)
		id := al.GetSequenceIdByName(r.Name)
		if remains {
			if !ok1 || !ok2 || !ok3 || !ok4 || s != after[i].Seq || string(ch) != after[i].Seq || sq.Sequence() != after[i].Seq || id != i {
				return fmt.Errorf("the remaining sequence %q (row %d, %q) is read by name as %q,%v / %q,%v / found %v,%v / index %d", r.Name, i, after[i].Seq, s, ok1, string(ch), ok2, ok3, ok4, id)
			}
			continue
		}
		if ok1 || ok2 || ok3 || ok4 || id >= 0 {
			return fmt.Errorf("the removed sequence %q is still found by name (GetSequence %v, GetSequenceChar %v, GetSequenceByName %v, SequenceByName %v, index %d); by index the alignment holds %s", r.Name, ok1, ok2, ok3, ok4, id, gen.Show(after))
		}
	}
	for _, r := range before {
		if _, remains := at[r.Name]; remains {
			continue
		}
		// a removed sequence can come back under its own name
		seq := r.Seq
		if len(after) > 0 {
			seq = strings.Repeat("A", len(after[0].Seq))
		}
		if err := al.AddSequence(r.Name, seq, ""); err != nil {
			return fmt.Errorf("the removed sequence %q cannot be added again: %v", r.Name, err)
		}
		if last, _ := al.GetSequenceNameById(al.NbSequences() - 1); last != r.Name {
			return fmt.Errorf("the removed sequence %q added again is named %q", r.Name, last)
		}
		break
	}
	return nil
}

func seqsOf(held []gen.Row) []string {
	out := make([]string, len(held))
	for i, r := range held {
		out[i] = r.Seq
	}
	return out
}

func cutoffOf(p, q int) float64 { return float64(p) / float64(q) }

func checkSites(c siteCase) (o pbt.Outcome, err error) {
	al, held, alphas, sourceUnchanged := construct(c.Alpha, c.Rows, c.Build, c.Seed, c.Plan)
	names := make([]string, len(held))
	for i, r := range held {
		names[i] = r.Name
	}
	heldRows := seqsOf(held)
	verifySites := func(rows []string, ends bool, states []int, first, last int, kept, rm []int, after []gen.Row, lengthAfter int) error {
		return verifySitesNamed(names, heldRows, ends, states, first, last, kept, rm, after, lengthAfter)
	}
	var first, last int
	var kept, rm []int
	switch c.Op {
	case "char":
		first, last, kept, rm = al.RemoveCharacterSites([]uint8(c.Chars), cutoffOf(c.P, c.Q), c.Ends, c.IC, c.IG, c.IN, c.Rev)
	case "gap":
		first, last, kept, rm = al.RemoveGapSites(cutoffOf(c.P, c.Q), c.Ends)
	case "maj":
		first, last, kept, rm = al.RemoveMajorityCharacterSites(cutoffOf(c.P, c.Q), c.Ends, c.IG, c.IN)
	}
	states, anyTie, nEither := siteStatesUnder(c, alphas, false)
	if e := verifySites(c.Rows, c.Ends, states, first, last, kept, rm, gen.Snapshot(al), al.Length()); e != nil {
		open := false
		if c.Op == "maj" && (c.P < 0 || c.P > c.Q) {
			// outside the quantifier; documented "set to 0", the code compares with the cutoff as given: both accepted
			lit, _, _ := siteStatesUnder(c, alphas, true)
			e2 := verifySites(c.Rows, c.Ends, lit, first, last, kept, rm, gen.Snapshot(al), al.Length())
			open = e2 == nil
			if e2 != nil {
				e = fmt.Errorf("%v; with the cutoff taken as given: %v", e, e2)
			}
		}
		if !open {
			return o, fmt.Errorf("%s cutoff %d/%d: %v", c.Op, c.P, c.Q, e)
		}
		nEither++
		o.Classes = append(o.Classes, "maj:cutoff-outside-[0,1]:nothing-removed-accepted")
	}
	if e := sourceUnchanged(); e != nil {
		return o, fmt.Errorf("%s cutoff %d/%d (kept %v removed %v): %v", c.Op, c.P, c.Q, kept, rm, e)
	}
	if e := byNameView(al, held, gen.Snapshot(al)); e != nil {
		return o, fmt.Errorf("%s cutoff %d/%d (kept %v removed %v): after the cleaning %v", c.Op, c.P, c.Q, kept, rm, e)
	}
	o.Ambiguous = nEither
	o.NonTrivial = (len(rm) > 0 && len(kept) > 0) || anyTie
	if o.NonTrivial {
		o.Key = c.key()
	}
	o.Classes = append(o.Classes, "op="+c.Op, "alphabet="+c.Alpha, optClass[c.optMask()], "build="+buildName(c.Build), alphaClass(c.Build, alphas))
	if anyTie {
		o.Classes = append(o.Classes, "exact-tie")
	}
	if len(rm) > 0 && len(kept) > 0 {
		o.Classes = append(o.Classes, "some-removed-some-kept")
	}
	if c.Ends && len(rm) > 0 && len(kept) > 0 {
		inner := false
		for j := 1; j+1 < len(states); j++ {
			if states[j] == stYes && contains(kept, j) {
				inner = true
			}
		}
		if inner {
			o.Classes = append(o.Classes, "ends:qualifying-interior-site-kept")
		}
	}
	if c.P < 0 || c.P > c.Q {
		o.Classes = append(o.Classes, "cutoff-outside-[0,1]")
	} else if c.P == 0 {
		o.Classes = append(o.Classes, "cutoff=0")
	} else if c.P == c.Q {
		o.Classes = append(o.Classes, "cutoff=1")
	}
	return o, nil
}

func contains(l []int, v int) bool {
	for _, x := range l {
		if x == v {
			return true
		}
	}
	return false
}

// seqCase: one call of a sequence cleaning function
type seqCase struct {
	Alpha string    `json:"alphabet"`
	Rows  []string  `json:"rows"`
	Op    string    `json:"op"`   // "char" RemoveCharacterSeqs, "gap" RemoveGapSeqs
	Char  string    `json:"char"` // one character
	P     int       `json:"p"`
	Q     int       `json:"q"`
	IC    bool      `json:"ignore_case"`
	IG    bool      `json:"ignore_gaps"`
	IN    bool      `json:"ignore_n"`
	Build string    `json:"build,omitempty"`
	Seed  int64     `json:"seed,omitempty"`
	Plan  *gen.Plan `json:"plan,omitempty"`
}

func (c seqCase) optMask() int {
	m := 0
	for i, b := range []bool{c.IC, c.IG, c.IN} {
		if b {
			m |= 2 << uint(i)
		}
	}
	return m
}

func (c seqCase) key() string {
	return "seq|" + c.Alpha + "|" + strings.Join(c.Rows, "/") + "|" + c.Op + "|" + c.Char + "|" + strconv.Itoa(c.P) + "/" + strconv.Itoa(c.Q) + "|" + strconv.Itoa(c.optMask()) + "|" + c.Build
}

func seqStates(c seqCase) (states []int, anyTie bool, nEither int) {
	states = make([]int, len(c.Rows))
	for i, r := range c.Rows {
		var tie bool
		if c.Op == "gap" {
			states[i], tie = judgeCells([]byte(r), c.Alpha, "-", c.P, c.Q, false, false, c.IN, false)
		} else {
			states[i], tie = judgeCells([]byte(r), c.Alpha, c.Char, c.P, c.Q, c.IC, c.IG, c.IN, false)
		}
		if tie {
			anyTie = true
		}
		if states[i] == stEither {
			nEither++
		}
	}
	return
}

// verifySeqs: after = remaining rows; the remaining rows are a sub-sequence of the original
// rows (names, residues, order) containing every row that does not qualify and none that does
func verifySeqs(rows []string, states []int, after []gen.Row, nbRemoved int, checkCount bool) (removed int, err error) {
	return verifySeqsNamed(nil, rows, states, after, nbRemoved, checkCount)
}

func verifySeqsNamed(names []string, rows []string, states []int, after []gen.Row, nbRemoved int, checkCount bool) (removed int, err error) {
	nameOf := func(i int) string {
		if names != nil {
			return names[i]
		}
		return nameOf(i)
	}
	k := 0
	for i, r := range rows {
		present := k < len(after) && after[k].Name == nameOf(i)
		if present {
			if after[k].Seq != r {
				return 0, fmt.Errorf("sequence %s changed: %q -> %q", nameOf(i), r, after[k].Seq)
			}
			k++
		}
		if states[i] == stYes && present {
			return 0, fmt.Errorf("sequence %s (%q) meets the cutoff but was kept", nameOf(i), r)
		}
		if states[i] == stNo && !present {
			return 0, fmt.Errorf("sequence %s (%q) does not meet the cutoff but is missing from the result (or out of order): %s", nameOf(i), r, gen.Show(after))
		}
	}
	if k != len(after) {
		return 0, fmt.Errorf("the result holds rows that are not original rows in original order: %s", gen.Show(after))
	}
	removed = len(rows) - len(after)
	if checkCount && nbRemoved != removed {
		return 0, fmt.Errorf("returned count %d, %d sequences were removed", nbRemoved, removed)
	}
	return removed, nil
}

func checkSeqs(c seqCase) (o pbt.Outcome, err error) {
	al, held, alphas, sourceUnchanged := construct(c.Alpha, c.Rows, c.Build, c.Seed, c.Plan)
	names := make([]string, len(held))
	for i, r := range held {
		names[i] = r.Name
	}
	// the model is evaluated on the rows in the order the alignment holds them
	inOrder := c
	inOrder.Rows = seqsOf(held)
	var n int
	if c.Op == "gap" {
		n = al.RemoveGapSeqs(cutoffOf(c.P, c.Q), c.IN)
	} else {
		n = al.RemoveCharacterSeqs(c.Char[0], cutoffOf(c.P, c.Q), c.IC, c.IG, c.IN)
	}
	states, anyTie, nEither := seqStatesUnder(inOrder, alphas)
	after := gen.Snapshot(al)
	removed, e := verifySeqsNamed(names, inOrder.Rows, states, after, n, true)
	if e != nil {
		return o, fmt.Errorf("sequences, %s %q cutoff %d/%d: %v", c.Op, c.Char, c.P, c.Q, e)
	}
	if e := sourceUnchanged(); e != nil {
		return o, fmt.Errorf("sequences, %s %q cutoff %d/%d: %v", c.Op, c.Char, c.P, c.Q, e)
	}
	if al.NbSequences() != len(c.Rows)-removed {
		return o, fmt.Errorf("NbSequences() = %d after removing %d of %d", al.NbSequences(), removed, len(c.Rows))
	}
	// the result consists of the remaining sequences through EVERY access path
	if e := byNameView(al, held, after); e != nil {
		return o, fmt.Errorf("sequences, %s %q cutoff %d/%d: after the cleaning %v", c.Op, c.Char, c.P, c.Q, e)
	}
	o.Ambiguous = nEither
	o.NonTrivial = (removed > 0 && removed < len(c.Rows)) || anyTie
	if o.NonTrivial {
		o.Key = c.key()
	}
	o.Classes = append(o.Classes, "op=seqs-"+c.Op, "alphabet="+c.Alpha, "seq-"+optClass[c.optMask()], "build="+buildName(c.Build), alphaClass(c.Build, alphas))
	if anyTie {
		o.Classes = append(o.Classes, "exact-tie")
	}
	if removed > 0 && removed < len(c.Rows) {
		o.Classes = append(o.Classes, "some-removed-some-kept")
	}
	return o, nil
}

// ---- bounded-exhaustive enumeration ------------------------------------------------------------

var cutoffs = [][2]int{{-1, 2}, {0, 1}, {1, 4}, {1, 3}, {1, 2}, {2, 3}, {3, 4}, {1, 1}, {3, 2}}

func symbols(alpha string) string {
	if alpha == "aa" {
		return "ACa-Xx"
	}
	return "ACa-Nn"
}

func charSets(alpha string) []string {
	if alpha == "aa" {
		return []string{"-", "A", "AC", "X", "a"}
	}
	return []string{"-", "A", "AC", "N", "a"}
}

func seqChars(alpha string) []string {
	if alpha == "aa" {
		return []string{"-", "A", "X", "a", "x"}
	}
	return []string{"-", "A", "N", "a", "n"}
}

type shape struct {
	alpha      string
	rows, cols int
	drawn      int // number of option combinations per alignment; 0 = all
}

func (s shape) String() string {
	d := "all combinations"
	if s.drawn > 0 {
		d = fmt.Sprintf("%d rotating combinations per alignment", s.drawn)
	}
	return fmt.Sprintf("%s %dx%d (%s)", s.alpha, s.rows, s.cols, d)
}

func pow(b, e int) int {
	r := 1
	for i := 0; i < e; i++ {
		r *= b
	}
	return r
}

func decode(sym string, idx, rows, cols int) []string {
	out := make([]string, rows)
	b := make([]byte, cols)
	for i := 0; i < rows; i++ {
		for j := 0; j < cols; j++ {
			b[j] = sym[idx%len(sym)]
			idx /= len(sym)
		}
		out[i] = string(b)
	}
	return out
}

func shardInfo() (shard, n int) {
	n = 1
	if pbt.Thorough() {
		if v, err := strconv.Atoi(os.Getenv("C12_SHARDS")); err == nil && v > 1 {
			n = v
		}
	}
	if n > 1 {
		shard, _ = strconv.Atoi(os.Getenv("VERIF_SHARD"))
		shard %= n
	}
	return
}

func seedOffset() int {
	v, _ := strconv.Atoi(os.Getenv("VERIF_SEED"))
	if v < 0 {
		v = -v
	}
	return v
}

// siteCombos: every (cutoff, character set, 2^5 options) combination of RemoveCharacterSites
func siteCombos(alpha string) []siteCase {
	var out []siteCase
	for _, cs := range charSets(alpha) {
		for _, pq := range cutoffs {
			for m := 0; m < 32; m++ {
				out = append(out, siteCase{Alpha: alpha, Op: "char", Chars: cs, P: pq[0], Q: pq[1],
					Ends: m&1 != 0, IC: m&2 != 0, IG: m&4 != 0, IN: m&8 != 0, Rev: m&16 != 0})
			}
		}
	}
	return out
}

// variantSiteCombos: RemoveGapSites (cutoff x ends) and RemoveMajorityCharacterSites (cutoff x 2^3)
func variantSiteCombos(alpha string) []siteCase {
	var out []siteCase
	for _, pq := range cutoffs {
		for m := 0; m < 2; m++ {
			out = append(out, siteCase{Alpha: alpha, Op: "gap", P: pq[0], Q: pq[1], Ends: m&1 != 0})
		}
		for m := 0; m < 8; m++ {
			out = append(out, siteCase{Alpha: alpha, Op: "maj", P: pq[0], Q: pq[1], Ends: m&1 != 0, IG: m&2 != 0, IN: m&4 != 0})
		}
	}
	return out
}

func seqCombos(alpha string) []seqCase {
	var out []seqCase
	for _, pq := range cutoffs {
		for m := 0; m < 2; m++ {
			out = append(out, seqCase{Alpha: alpha, Op: "gap", Char: "-", P: pq[0], Q: pq[1], IN: m&1 != 0})
		}
		for _, ch := range seqChars(alpha) {
			for m := 0; m < 8; m++ {
				out = append(out, seqCase{Alpha: alpha, Op: "char", Char: ch, P: pq[0], Q: pq[1], IC: m&1 != 0, IG: m&2 != 0, IN: m&4 != 0})
			}
		}
	}
	return out
}

// enumerate walks the shapes; for each alignment either all combinations or `drawn` of them,
// rotating so that every block of consecutive alignments covers every combination
func enumerate[C any](shapes []shape, combos func(alpha string) []C, with func(c C, rows []string) C, yield func(C) bool) {
	shard, nshards := shardInfo()
	off := seedOffset()
	for _, sh := range shapes {
		cs := combos(sh.alpha)
		n := pow(len(symbols(sh.alpha)), sh.rows*sh.cols)
		for idx := 0; idx < n; idx++ {
			if idx%nshards != shard {
				continue
			}
			rows := decode(symbols(sh.alpha), idx, sh.rows, sh.cols)
			if sh.drawn == 0 || sh.drawn >= len(cs) {
				for _, c := range cs {
					if !yield(with(c, rows)) {
						return
					}
				}
				continue
			}
			stride := len(cs) / sh.drawn
			start := (idx/nshards*(stride+1) + off*7919) % len(cs)
			for k := 0; k < sh.drawn; k++ {
				if !yield(with(cs[(start+k*stride)%len(cs)], rows)) {
					return
				}
			}
		}
	}
}

func shapesText(shapes []shape) string {
	var l []string
	for _, s := range shapes {
		l = append(l, s.String())
	}
	shard, n := shardInfo()
	t := strings.Join(l, "; ")
	if n > 1 {
		t += fmt.Sprintf(" [alignments with index = %d mod %d]", shard, n)
	}
	return t
}

// the enumerations rotate through the constructions (deterministic: the enumeration is sequential)
var buildCounter int64

func nextBuild() (string, int64) {
	buildCounter++
	return buildModes[buildCounter%int64(len(buildModes))], buildCounter
}

func alphaClass(build string, alphas []string) string {
	switch build {
	case "translate", "parse-fasta", "parse-clustal", "parse-phylip", "auto", "reauto":
		if len(alphas) == 1 {
			return "alphabet-from-history:content=" + alphas[0]
		}
		return "alphabet-from-history:content-compatible-with-both"
	}
	return "alphabet-declared"
}

func buildName(b string) string {
	if b == "" {
		return "AddSequence"
	}
	return b
}

func withRowsSite(c siteCase, rows []string) siteCase {
	c.Rows = rows
	c.Build, c.Seed = nextBuild()
	return c
}
func withRowsSeq(c seqCase, rows []string) seqCase {
	c.Rows = rows
	c.Build, c.Seed = nextBuild()
	return c
}

func both(rows, cols, drawn int) []shape {
	return []shape{{"nt", rows, cols, drawn}, {"aa", rows, cols, drawn}}
}

func cat(l ...[]shape) []shape {
	var out []shape
	for _, x := range l {
		out = append(out, x...)
	}
	return out
}

func only(alpha string, l []shape) []shape {
	var out []shape
	for _, s := range l {
		if s.alpha == alpha {
			out = append(out, s)
		}
	}
	return out
}

// all option combinations on every small alignment
func fullShapes() []shape {
	if pbt.Thorough() {
		return cat(both(1, 1, 0), both(1, 2, 0), both(2, 1, 0), both(2, 2, 0), both(3, 1, 0), both(1, 3, 0), both(4, 1, 0), both(1, 4, 0), both(3, 2, 144), both(2, 3, 144))
	}
	return cat(both(1, 1, 0), both(1, 2, 0), both(2, 1, 0), both(2, 2, 0), both(3, 1, 0), both(1, 3, 0))
}

// a rotating subset of the combinations on the larger ones
func drawnShapes() []shape {
	if pbt.Thorough() {
		return cat(both(3, 3, 2), both(4, 2, 6), both(2, 4, 6), both(1, 5, 96), both(5, 1, 96), both(1, 6, 16), both(6, 1, 16))
	}
	return cat(both(3, 2, 12), both(2, 3, 12), both(4, 1, 96), both(1, 4, 96), both(1, 5, 16))
}

func variantShapes() []shape {
	if pbt.Thorough() {
		return cat(both(1, 1, 0), both(1, 2, 0), both(2, 1, 0), both(2, 2, 0), both(3, 1, 0), both(1, 3, 0), both(4, 1, 0), both(1, 4, 0), both(3, 2, 0), both(2, 3, 0), both(1, 5, 0), both(5, 1, 0), both(4, 2, 4), both(2, 4, 4), both(3, 3, 1))
	}
	return cat(both(1, 1, 0), both(1, 2, 0), both(2, 1, 0), both(2, 2, 0), both(3, 1, 0), both(1, 3, 0), both(4, 1, 0), both(1, 4, 0), both(3, 2, 9), both(2, 3, 9), both(1, 5, 18))
}

func seqShapes() []shape {
	if pbt.Thorough() {
		return cat(both(1, 1, 0), both(1, 2, 0), both(2, 1, 0), both(2, 2, 0), both(3, 1, 0), both(1, 3, 0), both(4, 1, 0), both(1, 4, 0), both(3, 2, 63), both(2, 3, 63), both(2, 4, 6), both(3, 3, 1), both(1, 5, 0))
	}
	return cat(both(1, 1, 0), both(1, 2, 0), both(2, 1, 0), both(2, 2, 0), both(3, 1, 0), both(1, 3, 0), both(1, 4, 0), both(3, 2, 9), both(2, 3, 18))
}

func runSiteEnum(t *testing.T, what string, shapes []shape, combos func(string) []siteCase) {
	pbt.Enumerate(t, what+": "+shapesText(shapes), func(yield func(siteCase) bool) {
		enumerate(shapes, combos, withRowsSite, yield)
	}, checkSites)
}

func TestSitesFullNT(t *testing.T) {
	runSiteEnum(t, "RemoveCharacterSites, 9 cutoffs x 5 character sets x 2^5 options", only("nt", fullShapes()), siteCombos)
}
func TestSitesFullAA(t *testing.T) {
	runSiteEnum(t, "RemoveCharacterSites, 9 cutoffs x 5 character sets x 2^5 options", only("aa", fullShapes()), siteCombos)
}
func TestSitesDrawnNT(t *testing.T) {
	runSiteEnum(t, "RemoveCharacterSites, 9 cutoffs x 5 character sets x 2^5 options", only("nt", drawnShapes()), siteCombos)
}
func TestSitesDrawnAA(t *testing.T) {
	runSiteEnum(t, "RemoveCharacterSites, 9 cutoffs x 5 character sets x 2^5 options", only("aa", drawnShapes()), siteCombos)
}
func TestSiteVariants(t *testing.T) {
	runSiteEnum(t, "RemoveGapSites (9 cutoffs x ends) and RemoveMajorityCharacterSites (9 cutoffs x 2^3 options)", variantShapes(), variantSiteCombos)
}
func TestSeqsEnum(t *testing.T) {
	shapes := seqShapes()
	pbt.Enumerate(t, "RemoveGapSeqs (9 cutoffs x ignore-N) and RemoveCharacterSeqs (9 cutoffs x 5 characters x 2^3 options): "+shapesText(shapes), func(yield func(seqCase) bool) {
		enumerate(shapes, seqCombos, withRowsSeq, yield)
	}, checkSeqs)
}

// ---- the float test of the code agrees with the rational one on the whole domain used here ----
// (harness self-check: a failure is an assumption of the oracle that does not hold, not a verdict)

func TestCutoffArithmetic(t *testing.T) {
	n := 0
	for q := 1; q <= 12; q++ {
		for p := 1; p <= q; p++ {
			cut := float64(p) / float64(q)
			for total := 0; total <= 16; total++ {
				for count := 0; count <= 16; count++ {
					fl := float64(count) >= cut*float64(total)
					ra := count*q >= p*total
					if fl != ra {
						t.Fatalf("harness assumption: float and rational tests differ for count=%d total=%d cutoff=%d/%d", count, total, p, q)
					}
					n++
				}
			}
		}
	}
	var o pbt.Outcome
	o.Class("float-vs-rational points checked: %d", n)
	pbt.Note(t, map[string]int{"points": n}, o)
	pbt.Complete(t)
}

// ---- random larger cases -----------------------------------------------------------------------

type randCase struct {
	Site *siteCase `json:"site,omitempty"`
	Seq  *seqCase  `json:"seq,omitempty"`
}

func alphaChars(alpha string) string {
	// N is a residue (asparagine) in proteins, X is no wildcard in nucleotides: both present
	if alpha == "aa" {
		return "ACDNnXx-acdLl"
	}
	return "ACGTNnXx-acgt"
}

func genRows(t *rapid.T, alpha string, maxRows, maxCols int) []string {
	n := rapid.IntRange(1, maxRows).Draw(t, "rows")
	l := rapid.IntRange(1, maxCols).Draw(t, "L")
	chars := alphaChars(alpha)
	switch rapid.IntRange(0, 3).Draw(t, "charset") {
	case 0:
		chars = symbols(alpha)
	case 1:
		if alpha == "aa" {
			chars = "A-Xx"
		} else {
			chars = "A-Nn"
		}
	}
	a := gen.Columnwise(t, chars, n, n, l, l, alpha)
	rows := make([]string, n)
	for i := range rows {
		rows[i] = a.Rows[i].Seq
	}
	return rows
}

// hint: the number of cells a fraction is taken over (rows for sites, columns for sequences):
// cutoffs k/hint make exact ties frequent
func genCutoff(t *rapid.T, hint int) (int, int) {
	if hint > 12 {
		hint = 12
	}
	switch rapid.IntRange(0, 11).Draw(t, "cutkind") {
	case 0, 1, 2, 3:
		if hint > 1 {
			return rapid.IntRange(1, hint-1).Draw(t, "phint"), hint
		}
	case 9:
		return 0, 1
	case 10:
		return 1, 1
	case 11:
		q := rapid.IntRange(1, 12).Draw(t, "q")
		return rapid.SampledFrom([]int{-1, q + 1, -q, 2 * q}).Draw(t, "pout"), q
	}
	q := rapid.SampledFrom([]int{2, 3, 4, 6, 12, 5, 7, 8, 9, 10, 11, 1}).Draw(t, "q")
	return rapid.IntRange(1, q).Draw(t, "p"), q
}

func genCharSet(t *rapid.T, alpha string, rows []string) string {
	pool := alphaChars(alpha)
	switch rapid.IntRange(0, 8).Draw(t, "cskind") {
	case 6, 7, 8:
		// one or two characters that occur in the alignment
		k := rapid.IntRange(1, 2).Draw(t, "npresent")
		b := make([]byte, k)
		for i := range b {
			b[i] = rows[rapid.IntRange(0, len(rows)-1).Draw(t, "pi")][rapid.IntRange(0, len(rows[0])-1).Draw(t, "pj")]
		}
		return string(b)
	case 0:
		return "-"
	case 1:
		if alpha == "aa" {
			return rapid.SampledFrom([]string{"X", "x", "Xx", "N"}).Draw(t, "wild")
		}
		return rapid.SampledFrom([]string{"N", "n", "Nn", "X"}).Draw(t, "wild")
	case 2:
		return string(pool[rapid.IntRange(0, len(pool)-1).Draw(t, "one")])
	case 3:
		// any letters: a chosen character need not be a residue of the alignment
		cs := gen.SeqN(t, "ABCDEFGHIJKLMNOPQRSTUVWXYZabcdefghijklmnopqrstuvwxyz", rapid.IntRange(1, 3).Draw(t, "nany"))
		if cs == "MAJ" || cs == "GAP" {
			cs = "A"
		}
		return cs
	}
	return gen.SeqN(t, pool, rapid.IntRange(1, 4).Draw(t, "ncs"))
}

func genRandom(t *rapid.T) randCase {
	alpha := rapid.SampledFrom([]string{"nt", "aa"}).Draw(t, "alphabet")
	rows := genRows(t, alpha, 12, 15)
	build := rapid.SampledFrom(randomBuildModes).Draw(t, "build")
	seed := rapid.Int64Range(1, 1<<30).Draw(t, "seed")
	var plan *gen.Plan
	switch build {
	case "translate":
		// a content a translation can give: upper-case protein with the residue N and the wildcard X
		alpha = "aa"
		a := gen.Columnwise(t, "ACDNLX-NX", 1, 12, 1, 15, "aa")
		rows = rows[:0]
		for _, r := range a.Rows {
			rows = append(rows, r.Seq)
		}
	case "plan":
		pl := gen.DrawPlan(t, ali(alpha, rows), alphaChars(alpha), 3)
		plan = &pl
	}
	switch build {
	case "translate", "parse-fasta", "parse-clustal", "parse-phylip", "auto", "reauto":
		// a protein content is recognisable as such: it holds a letter that is no nucleotide code
		if alpha == "aa" && len(contentAlphabets(rows)) != 1 && rapid.IntRange(0, 4).Draw(t, "recognisable") != 0 {
			i := rapid.IntRange(0, len(rows)-1).Draw(t, "Li")
			b := []byte(rows[i])
			b[rapid.IntRange(0, len(b)-1).Draw(t, "Lj")] = 'L'
			rows[i] = string(b)
		}
	}
	if build == "shared" {
		// identical rows (they are added from one byte slice)
		for k := rapid.IntRange(1, len(rows)).Draw(t, "ncopies"); k > 0; k-- {
			rows[rapid.IntRange(0, len(rows)-1).Draw(t, "to")] = rows[rapid.IntRange(0, len(rows)-1).Draw(t, "from")]
		}
	}
	kind := rapid.IntRange(0, 9).Draw(t, "kind")
	hint := len(rows)
	if kind >= 7 {
		hint = len(rows[0])
	}
	p, q := genCutoff(t, hint)
	switch {
	case kind <= 4:
		c := siteCase{Alpha: alpha, Op: "char", P: p, Q: q}
		c.Rows = rows
		c.Chars = genCharSet(t, alpha, rows)
		c.Ends, c.IC, c.IG, c.IN, c.Rev = rapid.Bool().Draw(t, "ends"), rapid.Bool().Draw(t, "ic"), rapid.Bool().Draw(t, "ig"), rapid.Bool().Draw(t, "in"), rapid.Bool().Draw(t, "rev")
		c.Build, c.Seed, c.Plan = build, seed, plan
		return randCase{Site: &c}
	case kind == 5:
		c := siteCase{Alpha: alpha, Op: "gap", P: p, Q: q}
		c.Rows = rows
		c.Ends = rapid.Bool().Draw(t, "ends")
		c.Build, c.Seed, c.Plan = build, seed, plan
		return randCase{Site: &c}
	case kind == 6:
		c := siteCase{Alpha: alpha, Op: "maj", P: p, Q: q}
		c.Rows = rows
		c.Ends, c.IG, c.IN = rapid.Bool().Draw(t, "ends"), rapid.Bool().Draw(t, "ig"), rapid.Bool().Draw(t, "in")
		c.Build, c.Seed, c.Plan = build, seed, plan
		return randCase{Site: &c}
	case kind == 7:
		c := seqCase{Alpha: alpha, Op: "gap", Char: "-", P: p, Q: q}
		c.Rows = rows
		c.IN = rapid.Bool().Draw(t, "in")
		c.Build, c.Seed, c.Plan = build, seed, plan
		return randCase{Seq: &c}
	default:
		c := seqCase{Alpha: alpha, Op: "char", P: p, Q: q}
		c.Rows = rows
		c.Char = genCharSet(t, alpha, rows)[:1]
		c.IC, c.IG, c.IN = rapid.Bool().Draw(t, "ic"), rapid.Bool().Draw(t, "ig"), rapid.Bool().Draw(t, "in")
		c.Build, c.Seed, c.Plan = build, seed, plan
		return randCase{Seq: &c}
	}
}

func checkRandom(c randCase) (pbt.Outcome, error) {
	if c.Site != nil {
		o, err := checkSites(*c.Site)
		o.Key = ""
		return o, err
	}
	o, err := checkSeqs(*c.Seq)
	o.Key = ""
	return o, err
}

func TestRandom(t *testing.T) { pbt.Run(t, genRandom, checkRandom) }
