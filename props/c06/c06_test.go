// C06 - Strand, case and un-align transforms are exact and reversible
package c06

import (
	"fmt"
	"io"
	"log"
	"math/rand"
	"os"
	"strings"
	"testing"

	"github.com/evolbioinfo/goalign/align"
	"pgregory.net/rapid"
	"verif/internal/cli"
	"verif/internal/gen"
	"verif/internal/pbt"
)

func TestMain(m *testing.M) {
	log.SetOutput(io.Discard)
	pbt.Main(m, "C06")
}

// ---- oracle: IUPAC complement derived from set complementation ---------------------------

var iupacSets = map[byte]string{
	'A': "A", 'C': "C", 'G': "G", 'T': "T",
	'R': "AG", 'Y': "CT", 'S': "CG", 'W': "AT", 'K': "GT", 'M': "AC",
	'B': "CGT", 'D': "AGT", 'H': "ACT", 'V': "ACG", 'N': "ACGT",
}

func setKey(s string) [4]bool {
	var k [4]bool
	for _, c := range s {
		k[strings.IndexRune("ACGT", c)] = true
	}
	return k
}

var compBase = map[byte]byte{'A': 'T', 'T': 'A', 'C': 'G', 'G': 'C'}

// refComplement: complement of a residue, case preserved; '-', '.', '*' fixed
func refComplement(c byte) (byte, bool) {
	if c == '-' || c == '.' || c == '*' {
		return c, true
	}
	lower := c >= 'a' && c <= 'z'
	u := c
	if lower {
		u = c - 'a' + 'A'
	}
	set, ok := iupacSets[u]
	if !ok {
		return 0, false
	}
	var cs []byte
	for i := 0; i < len(set); i++ {
		cs = append(cs, compBase[set[i]])
	}
	want := setKey(string(cs))
	for l, s := range iupacSets {
		if setKey(s) == want {
			if lower {
				return l - 'A' + 'a', true
			}
			return l, true
		}
	}
	return 0, false
}

func refRevComp(s string) string {
	b := make([]byte, len(s))
	for i := 0; i < len(s); i++ {
		c, ok := refComplement(s[i])
		if !ok {
			panic("harness: residue outside the domain: " + string(s[i]))
		}
		b[len(s)-1-i] = c
	}
	return string(b)
}

// trimShow keeps messages readable on tall inputs: the rows that differ are what matters
func trimShow(rows []gen.Row) []gen.Row {
	if len(rows) > 12 {
		return append(append([]gen.Row{}, rows[:6]...), rows[len(rows)-6:]...)
	}
	return rows
}

func ungapped(s string) string { return strings.ReplaceAll(s, "-", "") }

const dnaChars = "ACGTRYSWKMBDHVNacgtryswkmbdhvn-.*"

// ---- cases -------------------------------------------------------------------------------

type rcCase struct {
	Ali    gen.Ali  `json:"ali"`
	Subset []string `json:"subset"` // nil = whole alignment
	Whole  bool     `json:"whole"`
	Bag    bool     `json:"bag"` // use an unaligned sequence set (rows of different lengths)
	// Plan: the alignment is not freshly built but comes out of a chain of other public operations
	// (clone, renaming, cutting, cleaning, concatenation, re-reading) that ends on the same content
	Plan gen.Plan `json:"plan,omitempty"`
}

func genRC(t *rapid.T) rcCase {
	var c rcCase
	c.Bag = rapid.IntRange(0, 4).Draw(t, "bag") == 0
	n := rapid.IntRange(1, 6).Draw(t, "rows")
	l := rapid.IntRange(0, 25).Draw(t, "L")
	if !c.Bag && l == 0 {
		l = 1
	}
	// a low-rate class of tall inputs (an implementation may treat many rows differently,
	// e.g. in blocks per cpu): every row is still compared with the oracle
	if rapid.IntRange(0, 59).Draw(t, "tall") == 0 {
		n = rapid.IntRange(1000, 1100).Draw(t, "tallrows")
		l = rapid.IntRange(1, 3).Draw(t, "tallL")
	}
	chars := dnaChars
	switch rapid.IntRange(0, 3).Draw(t, "tier") {
	case 0:
		chars = "ACGT-"
	case 1:
		chars = "KMBDHVkmbdhv-."
	}
	c.Ali.Alphabet = "nt"
	for i := 0; i < n; i++ {
		li := l
		if c.Bag {
			li = rapid.IntRange(0, 25).Draw(t, "Li")
		}
		c.Ali.Rows = append(c.Ali.Rows, gen.Row{Name: fmt.Sprintf("s%d", i), Seq: gen.SeqN(t, chars, li)})
	}
	if !c.Bag && n <= 6 && rapid.IntRange(0, 2).Draw(t, "provenance") == 0 {
		c.Plan = gen.DrawPlan(t, c.Ali, chars, 3)
	}
	c.Whole = rapid.Bool().Draw(t, "whole")
	if !c.Whole {
		k := rapid.IntRange(0, 5).Draw(t, "nsub")
		for i := 0; i < k; i++ {
			switch rapid.IntRange(0, 5).Draw(t, "subkind") {
			case 0:
				c.Subset = append(c.Subset, "unknown"+fmt.Sprint(i))
			default:
				c.Subset = append(c.Subset, c.Ali.Rows[rapid.IntRange(0, n-1).Draw(t, "which")].Name)
			}
		}
	}
	return c
}

// withComments builds the container with a distinct comment on every sequence: the
// transforms of this property touch residues only, so names AND comments must survive them
func withComments(a gen.Ali, bag bool) align.SeqBag {
	var sb align.SeqBag
	if bag {
		sb = align.NewSeqBag(alphabetOf(a))
	} else {
		sb = align.NewAlign(alphabetOf(a))
	}
	for i, r := range a.Rows {
		if err := sb.AddSequence(r.Name, r.Seq, commentOf(i)); err != nil {
			panic(fmt.Sprintf("harness: cannot build the container: %v", err))
		}
	}
	return sb
}

func alphabetOf(a gen.Ali) int {
	if a.Alphabet == "aa" {
		return align.AMINOACIDS
	}
	return align.NUCLEOTIDS
}

func commentOf(i int) string { return fmt.Sprintf("comment %d of the row", i) }

// commentsKept compares the comments of a container with the ones given at construction
func commentsKept(sb align.SeqBag, what string) error {
	for i, s := range sb.Sequences() {
		if s.Comment() != commentOf(i) {
			return fmt.Errorf("%s: the comment of row %d (%s) is %q, it was %q", what, i, s.Name(), s.Comment(), commentOf(i))
		}
	}
	return nil
}

// build returns the container and whether it carries the comments of withComments
func build(ali gen.Ali, bag bool, plan gen.Plan) (sb align.SeqBag, comments bool, via string) {
	if !bag && len(plan.Steps) > 0 {
		if al, usable := gen.BuildVia(ali, plan); usable {
			return al, false, "provenance"
		}
		return withComments(ali, bag), true, "provenance-unusable"
	}
	return withComments(ali, bag), true, "fresh"
}

func checkRC(c rcCase) (o pbt.Outcome, err error) {
	sb, comments, via := build(c.Ali, c.Bag, c.Plan)
	before := gen.Snapshot(sb)
	if !gen.SameRows(before, c.Ali.Rows) {
		return o, fmt.Errorf("harness: container does not hold the generated rows: %s", gen.Show(before))
	}
	// expected rows
	want := make([]gen.Row, len(before))
	copy(want, before)
	if c.Whole {
		for i := range want {
			want[i].Seq = refRevComp(want[i].Seq)
		}
	} else {
		for _, name := range c.Subset {
			for i := range want {
				if want[i].Name == name {
					want[i].Seq = refRevComp(want[i].Seq)
				}
			}
		}
	}
	apply := func() error {
		if c.Whole {
			return sb.ReverseComplement()
		}
		return sb.ReverseComplementSequences(c.Subset...)
	}
	if e := apply(); e != nil {
		return o, fmt.Errorf("reverse complement of a nucleotide set returned an error: %v", e)
	}
	got := gen.Snapshot(sb)
	if !gen.SameRows(got, want) {
		return o, fmt.Errorf("reverse complement differs from the set-derived oracle\n got : %s\n want: %s", gen.Show(trimShow(got)), gen.Show(trimShow(want)))
	}
	if comments {
		if e := commentsKept(sb, "reverse complement"); e != nil {
			return o, e
		}
	}
	if al, ok := sb.(align.Alignment); ok {
		if al.Length() != c.Ali.Length() {
			return o, fmt.Errorf("length changed: %d -> %d", c.Ali.Length(), al.Length())
		}
	}
	// access through the other paths agrees
	for i, r := range want {
		if s, ok := sb.GetSequence(r.Name); !ok || s != r.Seq {
			return o, fmt.Errorf("GetSequence(%q) = %q,%v after reverse complement, by index: %q", r.Name, s, ok, got[i].Seq)
		}
	}
	// involution
	if e := apply(); e != nil {
		return o, fmt.Errorf("second reverse complement returned an error: %v", e)
	}
	back := gen.Snapshot(sb)
	if !gen.SameRows(back, before) {
		return o, fmt.Errorf("applying the reverse complement twice does not restore the original\n got : %s\n want: %s", gen.Show(back), gen.Show(before))
	}
	// classes
	changed := !gen.SameRows(want, before)
	asym, mixed := false, false
	for _, r := range before {
		if strings.ContainsAny(r.Seq, "KMBDHVkmbdhvRYry") {
			asym = true
		}
		if strings.ToUpper(r.Seq) != r.Seq && strings.ToLower(r.Seq) != r.Seq {
			mixed = true
		}
	}
	proper := !c.Whole && changed && func() bool {
		for i := range want {
			if want[i].Seq == before[i].Seq && len(before[i].Seq) > 0 {
				return true
			}
		}
		return false
	}()
	o.NonTrivial = changed && (asym || mixed || proper)
	o.Class("whole=%v", c.Whole)
	o.Class("bag=%v", c.Bag)
	if via != "fresh" {
		o.Class("object from: %s", via)
		for _, k := range c.Plan.Kinds() {
			o.Class("provenance step %s", k)
		}
	}
	if proper {
		o.Class("proper-subset")
	}
	if c.Ali.Length()%2 == 1 {
		o.Class("odd-length")
	} else {
		o.Class("even-length")
	}
	if asym {
		o.Class("asymmetric-codes")
	}
	return o, nil
}

func TestRevComp(t *testing.T) { pbt.Run(t, genRC, checkRC) }

// ---- the complement table, exhaustively (35 residues) + every other byte is rejected or fixed

type byteCase struct {
	B int `json:"byte"`
}

func TestComplementTable(t *testing.T) {
	pbt.Enumerate(t, "Complement() of every byte value 0..255", func(yield func(byteCase) bool) {
		for b := 0; b < 256; b++ {
			if !yield(byteCase{b}) {
				return
			}
		}
	}, func(c byteCase) (o pbt.Outcome, err error) {
		in := []uint8{uint8(c.B)}
		e := align.Complement(in)
		want, ok := refComplement(byte(c.B))
		inDomain := ok
		// U/u are outside the DNA alphabet of the quantifier (RNA): any behaviour accepted
		if c.B == 'U' || c.B == 'u' {
			o.Ambiguous++
			return o, nil
		}
		if inDomain {
			if e != nil {
				return o, fmt.Errorf("Complement(%q) fails: %v", rune(c.B), e)
			}
			if in[0] != want {
				return o, fmt.Errorf("Complement(%q) = %q, set complementation gives %q", rune(c.B), rune(in[0]), rune(want))
			}
			o.NonTrivial = true
			o.Key = fmt.Sprint(c.B)
			o.Class("iupac-or-special")
		} else {
			// not a nucleotide: must be reported, or left unchanged; never silently mapped
			if e == nil && in[0] != uint8(c.B) {
				return o, fmt.Errorf("Complement(%q) silently maps a non nucleotide to %q", rune(c.B), rune(in[0]))
			}
			o.Class("non-nucleotide")
		}
		return o, nil
	})
}

// ---- case and un-align ---------------------------------------------------------------------

type caseCase struct {
	Ali  gen.Ali  `json:"ali"`
	Bag  bool     `json:"bag"`
	Plan gen.Plan `json:"plan,omitempty"` // see rcCase
}

func genCase(t *rapid.T) caseCase {
	var c caseCase
	c.Bag = rapid.Bool().Draw(t, "bag")
	n := rapid.IntRange(1, 6).Draw(t, "rows")
	l := rapid.IntRange(1, 25).Draw(t, "L")
	if rapid.IntRange(0, 59).Draw(t, "tall") == 0 {
		n = rapid.IntRange(1000, 1100).Draw(t, "tallrows")
		l = rapid.IntRange(1, 3).Draw(t, "tallL")
	}
	chars := dnaChars
	c.Ali.Alphabet = "nt"
	if rapid.Bool().Draw(t, "protein") {
		chars = gen.BothCases(gen.AA20) + "XxBbZz-*?"
		c.Ali.Alphabet = "aa"
	}
	for i := 0; i < n; i++ {
		li := l
		if c.Bag {
			li = rapid.IntRange(0, 25).Draw(t, "Li")
		}
		c.Ali.Rows = append(c.Ali.Rows, gen.Row{Name: fmt.Sprintf("s%d", i), Seq: gen.SeqN(t, chars, li)})
	}
	if !c.Bag && n <= 6 && rapid.IntRange(0, 2).Draw(t, "provenance") == 0 {
		c.Plan = gen.DrawPlan(t, c.Ali, chars, 3)
	}
	return c
}

func asciiUpper(s string) string {
	b := []byte(s)
	for i, c := range b {
		if c >= 'a' && c <= 'z' {
			b[i] = c - 32
		}
	}
	return string(b)
}

func asciiLower(s string) string {
	b := []byte(s)
	for i, c := range b {
		if c >= 'A' && c <= 'Z' {
			b[i] = c + 32
		}
	}
	return string(b)
}

func checkCase(c caseCase) (o pbt.Outcome, err error) {
	comments, via := true, "fresh"
	mk := func() align.SeqBag {
		var sb align.SeqBag
		sb, comments, via = build(c.Ali, c.Bag, c.Plan)
		return sb
	}
	rows := c.Ali.Rows
	// upper
	sb := mk()
	sb.ToUpper()
	up := gen.Snapshot(sb)
	for i := range rows {
		if up[i].Name != rows[i].Name || up[i].Seq != asciiUpper(rows[i].Seq) {
			return o, fmt.Errorf("ToUpper row %d: got %q want %q", i, up[i].Seq, asciiUpper(rows[i].Seq))
		}
	}
	sb.ToUpper()
	if !gen.SameRows(gen.Snapshot(sb), up) {
		return o, fmt.Errorf("ToUpper is not idempotent")
	}
	if comments {
		if e := commentsKept(sb, "ToUpper"); e != nil {
			return o, e
		}
	}
	// lower
	sb = mk()
	sb.ToLower()
	lo := gen.Snapshot(sb)
	for i := range rows {
		if lo[i].Name != rows[i].Name || lo[i].Seq != asciiLower(rows[i].Seq) {
			return o, fmt.Errorf("ToLower row %d: got %q want %q", i, lo[i].Seq, asciiLower(rows[i].Seq))
		}
	}
	sb.ToLower()
	if !gen.SameRows(gen.Snapshot(sb), lo) {
		return o, fmt.Errorf("ToLower is not idempotent")
	}
	if comments {
		if e := commentsKept(sb, "ToLower"); e != nil {
			return o, e
		}
	}
	// lower then upper = upper
	sb.ToUpper()
	if !gen.SameRows(gen.Snapshot(sb), up) {
		return o, fmt.Errorf("ToUpper after ToLower differs from ToUpper")
	}
	// unalign
	sb = mk()
	un := sb.Unalign()
	ur := gen.Snapshot(un)
	if len(ur) != len(rows) {
		return o, fmt.Errorf("Unalign returns %d sequences for %d", len(ur), len(rows))
	}
	removed := false
	for i := range rows {
		if ur[i].Name != rows[i].Name || ur[i].Seq != ungapped(rows[i].Seq) {
			return o, fmt.Errorf("Unalign row %d: got %q want %q", i, ur[i].Seq, ungapped(rows[i].Seq))
		}
		if ur[i].Seq != rows[i].Seq {
			removed = true
		}
	}
	if !gen.SameRows(gen.Snapshot(sb), rows) {
		return o, fmt.Errorf("Unalign modified its input")
	}
	if comments {
		if e := commentsKept(un, "Unalign (result)"); e != nil {
			return o, e
		}
	}
	if comments {
		if e := commentsKept(sb, "Unalign (input)"); e != nil {
			return o, e
		}
	}
	// the un-aligned set owns its residues: transforming it leaves the source alone, and
	// transforming the source leaves it alone (a gap-free row is the easy one to share)
	un.ToLower()
	un.ToUpper()
	if !gen.SameRows(gen.Snapshot(sb), rows) {
		return o, fmt.Errorf("changing the case of the un-aligned set changed the source:\n got : %s\n want: %s", gen.Show(gen.Snapshot(sb)), gen.Show(rows))
	}
	sb.ToLower()
	for i := range rows {
		if s, _ := un.GetSequenceById(i); s != asciiUpper(ungapped(rows[i].Seq)) {
			return o, fmt.Errorf("changing the case of the source changed the un-aligned set: row %d is %q, want %q", i, s, asciiUpper(ungapped(rows[i].Seq)))
		}
	}
	// the ungapped content is preserved by reverse complement too (as a multiset reversed)
	mixed := false
	for _, r := range rows {
		if asciiUpper(r.Seq) != r.Seq && asciiLower(r.Seq) != r.Seq {
			mixed = true
		}
	}
	o.NonTrivial = mixed && removed
	o.Class("alphabet=%s", c.Ali.Alphabet)
	o.Class("bag=%v", c.Bag)
	if via != "fresh" {
		o.Class("object from: %s", via)
		for _, k := range c.Plan.Kinds() {
			o.Class("provenance step %s", k)
		}
	}
	return o, nil
}

func TestCaseUnalign(t *testing.T) { pbt.Run(t, genCase, checkCase) }

// ---- prior use, then in-place edits, then a transform again ----------------------------------
//
// The transforms are claimed for every alignment / sequence set, whatever was done to the object
// before. Here a transform of the property is first applied (and judged), then the object is edited
// IN PLACE by a drawn sequence of the library's own mutators (no model of the mutators is needed:
// the content they leave is read back), then a transform is applied again and judged by the same
// independent model on that content, as a freshly built object with the same rows would be.

type histEdit struct {
	Kind  string  `json:"kind"`
	Row   int     `json:"row,omitempty"`  // taken modulo the number of rows
	Site  int     `json:"site,omitempty"` // taken modulo the length of the row
	Len   int     `json:"len,omitempty"`
	Char  string  `json:"char,omitempty"` // one residue of the alphabet of the case
	Char2 string  `json:"char2,omitempty"`
	Rate  float64 `json:"rate,omitempty"`
	Flag  bool    `json:"flag,omitempty"`
}

type histRound struct {
	Edits  []histEdit `json:"edits"`
	Op     string     `json:"op"` // transform applied (and judged) after the edits
	Subset []string   `json:"subset,omitempty"`
}

type histCase struct {
	Ali    gen.Ali     `json:"ali"`
	Bag    bool        `json:"bag"`
	Seed   int64       `json:"seed"`
	Rounds []histRound `json:"rounds"` // the first round has no edit: it is the prior use
}

var histEditsAlign = []string{"replacechar", "setchar", "rawwrite-index", "rawwrite-name", "mask", "maskunique", "maskoccurences",
	"mutate", "matchchars", "swap", "replace", "revcomp", "seq-reverse", "seq-complement", "sort"}
var histEditsBag = []string{"setchar", "rawwrite-index", "rawwrite-name", "replace", "revcomp", "seq-reverse", "seq-complement", "sort"}

func genHist(t *rapid.T) histCase {
	var c histCase
	c.Bag = rapid.IntRange(0, 3).Draw(t, "bag") == 0
	c.Seed = rapid.Int64Range(1, 1<<30).Draw(t, "seed")
	n := rapid.IntRange(1, 5).Draw(t, "rows")
	l := rapid.IntRange(1, 15).Draw(t, "L")
	chars := dnaChars
	c.Ali.Alphabet = "nt"
	ops := []string{"toupper", "tolower", "toupper", "tolower", "revcomp", "revcomp-subset", "unalign"}
	if rapid.IntRange(0, 3).Draw(t, "protein") == 0 {
		chars = gen.BothCases(gen.AA20) + "XxBbZz-*"
		c.Ali.Alphabet = "aa"
		ops = []string{"toupper", "tolower", "unalign"}
	}
	for i := 0; i < n; i++ {
		li := l
		if c.Bag {
			li = rapid.IntRange(0, 15).Draw(t, "Li")
		}
		// names in an order that Sort changes
		c.Ali.Rows = append(c.Ali.Rows, gen.Row{Name: fmt.Sprintf("s%d", (i*3+2)%7), Seq: gen.SeqN(t, chars, li)})
	}
	kinds := histEditsAlign
	if c.Bag {
		kinds = histEditsBag
	}
	subset := func() []string {
		var s []string
		for i, k := 0, rapid.IntRange(0, 3).Draw(t, "nsub"); i < k; i++ {
			if rapid.IntRange(0, 5).Draw(t, "unk") == 0 {
				s = append(s, "unknown")
			} else {
				s = append(s, c.Ali.Rows[rapid.IntRange(0, n-1).Draw(t, "which")].Name)
			}
		}
		return s
	}
	rounds := rapid.IntRange(2, 3).Draw(t, "rounds")
	for r := 0; r < rounds; r++ {
		var rd histRound
		if r > 0 {
			for i, k := 0, rapid.IntRange(1, 3).Draw(t, "nedits"); i < k; i++ {
				e := histEdit{Kind: rapid.SampledFrom(kinds).Draw(t, "edit")}
				e.Row = rapid.IntRange(0, 5).Draw(t, "row")
				e.Site = rapid.IntRange(0, 15).Draw(t, "site")
				e.Len = rapid.IntRange(0, 15).Draw(t, "len")
				e.Char = gen.SeqN(t, chars, 1)
				e.Char2 = gen.SeqN(t, chars, 1)
				e.Rate = float64(rapid.IntRange(1, 10).Draw(t, "rate")) / 10
				e.Flag = rapid.Bool().Draw(t, "flag")
				rd.Edits = append(rd.Edits, e)
			}
		}
		rd.Op = rapid.SampledFrom(ops).Draw(t, "op")
		if r > 0 && rapid.Bool().Draw(t, "sameop") {
			rd.Op = c.Rounds[r-1].Op // the transform that was applied before, again
		}
		if rd.Op == "revcomp-subset" {
			rd.Subset = subset()
		}
		c.Rounds = append(c.Rounds, rd)
	}
	return c
}

// applyEdit edits the object in place with one mutator of the library; whether the mutator does
// what ITS documentation says is not judged here
func applyEdit(sb align.SeqBag, e histEdit) error {
	n := sb.NbSequences()
	row := e.Row % n
	seq, ok := sb.Sequence(row)
	if !ok {
		return fmt.Errorf("harness: row %d of %d not found", row, n)
	}
	site := -1
	if seq.Length() > 0 {
		site = e.Site % seq.Length()
	}
	al, isAlign := sb.(align.Alignment)
	ch := e.Char[0]
	switch e.Kind {
	case "setchar":
		if site >= 0 {
			return sb.SetSequenceChar(row, site, ch)
		}
	case "rawwrite-index":
		if site >= 0 {
			seq.SequenceChar()[site] = ch
		}
	case "rawwrite-name":
		s2, ok := sb.SequenceByName(seq.Name())
		if !ok {
			return fmt.Errorf("SequenceByName(%q) does not find row %d", seq.Name(), row)
		}
		if site >= 0 {
			s2.SequenceChar()[site] = ch
		}
	case "replace":
		return sb.Replace(e.Char2, e.Char, false)
	case "revcomp":
		if sb.Alphabet() == align.NUCLEOTIDS {
			return sb.ReverseComplement()
		}
	case "seq-reverse":
		seq.Reverse()
	case "seq-complement":
		if sb.Alphabet() == align.NUCLEOTIDS {
			return seq.Complement()
		}
	case "sort":
		sb.Sort()
	}
	if !isAlign {
		return nil
	}
	switch e.Kind {
	case "replacechar":
		return al.ReplaceChar(seq.Name(), site, ch)
	case "mask":
		rep := e.Char
		if e.Len%5 == 0 {
			rep = []string{"", "AMBIG", "MAJ", "GAP"}[e.Site%4]
		}
		return al.Mask("", e.Site%(al.Length()+1), e.Len, rep, e.Flag, false)
	case "maskunique":
		return al.MaskUnique("", e.Char)
	case "maskoccurences":
		ref := ""
		if e.Flag {
			ref = seq.Name()
		}
		return al.MaskOccurences(ref, 1+e.Len%2, e.Char)
	case "mutate":
		al.Mutate(e.Rate)
	case "matchchars":
		al.ReplaceMatchChars()
	case "swap":
		return al.Swap(e.Rate, float64(e.Site%11)/10)
	}
	return nil
}

func checkHist(c histCase) (o pbt.Outcome, err error) {
	rand.Seed(c.Seed)
	sb := withComments(c.Ali, c.Bag)
	inDomain := func(rows []gen.Row) bool {
		for _, r := range rows {
			if strings.Trim(r.Seq, dnaChars) != "" {
				return false
			}
		}
		return true
	}
	edited, caseEdited := false, false
	for ri, rd := range c.Rounds {
		pre := gen.Snapshot(sb)
		for _, e := range rd.Edits {
			if e := applyEdit(sb, e); e != nil {
				return o, fmt.Errorf("round %d: in-place edit %+v refused: %v", ri, e, e)
			}
			o.Class("edit %s", e.Kind)
		}
		// the content the transform is asked to work on
		content := gen.Snapshot(sb)
		if len(content) != len(c.Ali.Rows) {
			return o, fmt.Errorf("harness: %d rows after the edits, %d before", len(content), len(c.Ali.Rows))
		}
		if ri > 0 && !gen.SameRows(pre, content) {
			edited = true
			for i := range content {
				if i < len(pre) && asciiUpper(pre[i].Seq) == pre[i].Seq && asciiUpper(content[i].Seq) != content[i].Seq ||
					i < len(pre) && asciiLower(pre[i].Seq) == pre[i].Seq && asciiLower(content[i].Seq) != content[i].Seq {
					caseEdited = true
				}
			}
		}
		if strings.HasPrefix(rd.Op, "revcomp") && !inDomain(content) {
			o.Skip = true // a mutator wrote a residue outside the DNA alphabet of the quantifier
			return o, nil
		}
		want := cliExpect(rd.Op, rd.Subset, content)
		var got []gen.Row
		switch rd.Op {
		case "toupper":
			sb.ToUpper()
			got = gen.Snapshot(sb)
		case "tolower":
			sb.ToLower()
			got = gen.Snapshot(sb)
		case "revcomp":
			if e := sb.ReverseComplement(); e != nil {
				return o, fmt.Errorf("round %d: ReverseComplement refused: %v", ri, e)
			}
			got = gen.Snapshot(sb)
		case "revcomp-subset":
			if e := sb.ReverseComplementSequences(rd.Subset...); e != nil {
				return o, fmt.Errorf("round %d: ReverseComplementSequences(%v) refused: %v", ri, rd.Subset, e)
			}
			got = gen.Snapshot(sb)
		case "unalign":
			got = gen.Snapshot(sb.Unalign())
			if now := gen.Snapshot(sb); !gen.SameRows(now, content) {
				return o, fmt.Errorf("round %d: Unalign modified its input\n got : %s\n want: %s", ri, gen.Show(now), gen.Show(content))
			}
		}
		if !gen.SameRows(got, want) {
			return o, fmt.Errorf("round %d: %s %v after %d earlier transform(s) and the in-place edits %+v differs from the model applied to the content of the object\n content: %s\n got    : %s\n want   : %s",
				ri, rd.Op, rd.Subset, ri, rd.Edits, gen.Show(content), gen.Show(got), gen.Show(want))
		}
		for _, r := range want {
			if rd.Op == "unalign" {
				break
			}
			if s, ok := sb.GetSequence(r.Name); !ok || s != r.Seq {
				return o, fmt.Errorf("round %d: GetSequence(%q) = %q,%v after %s, want %q", ri, r.Name, s, ok, rd.Op, r.Seq)
			}
		}
		o.Class("transform %s", rd.Op)
		if ri > 0 && rd.Op == c.Rounds[ri-1].Op {
			o.Class("same transform as before the edits")
		}
	}
	o.NonTrivial = edited
	if caseEdited {
		o.Class("edit brought back the other case after a case folding")
	}
	o.Class("bag=%v", c.Bag)
	o.Class("alphabet=%s", c.Ali.Alphabet)
	return o, nil
}

func TestAfterEdit(t *testing.T) { pbt.Run(t, genHist, checkHist) }

// ---- Sequence level Reverse / Complement --------------------------------------------------

type seqCase struct {
	Seq    string   `json:"seq"`
	Others []string `json:"others,omitempty"` // other rows of the alignment the sequence is taken from
	Via    string   `json:"via"`              // "alone", "index", "name"
}

func TestSequenceLevel(t *testing.T) {
	pbt.Run(t, func(t *rapid.T) seqCase {
		c := seqCase{Seq: gen.SeqOf(dnaChars, 0, 30).Draw(t, "seq")}
		c.Via = rapid.SampledFrom([]string{"alone", "alone", "index", "name"}).Draw(t, "via")
		if c.Via != "alone" {
			if len(c.Seq) == 0 {
				c.Seq = gen.SeqN(t, dnaChars, 1)
			}
			for i, n := 0, rapid.IntRange(0, 3).Draw(t, "others"); i < n; i++ {
				c.Others = append(c.Others, gen.SeqN(t, dnaChars, len(c.Seq)))
			}
		}
		return c
	}, func(c seqCase) (o pbt.Outcome, err error) {
		// the sequence object: built alone, or a row of an alignment reached by index or name
		var s align.Sequence
		var al align.Alignment
		at := 0
		if c.Via == "alone" {
			s = align.NewSequence("x", []uint8(c.Seq), "")
		} else {
			al = align.NewAlign(align.NUCLEOTIDS)
			at = len(c.Others) / 2
			k := 0
			for i := 0; i <= len(c.Others); i++ {
				if i == at {
					if e := al.AddSequence("x", c.Seq, ""); e != nil {
						return o, fmt.Errorf("harness: %v", e)
					}
					continue
				}
				if e := al.AddSequence(fmt.Sprintf("o%d", k), c.Others[k], ""); e != nil {
					return o, fmt.Errorf("harness: %v", e)
				}
				k++
			}
			var ok bool
			if c.Via == "index" {
				s, ok = al.Sequence(at)
			} else {
				s, ok = al.SequenceByName("x")
			}
			if !ok {
				return o, fmt.Errorf("row x of the alignment is not found (%s)", c.Via)
			}
		}
		s.Reverse()
		rev := []byte(c.Seq)
		for i, j := 0, len(rev)-1; i < j; i, j = i+1, j-1 {
			rev[i], rev[j] = rev[j], rev[i]
		}
		if s.Sequence() != string(rev) {
			return o, fmt.Errorf("Reverse(%q) = %q", c.Seq, s.Sequence())
		}
		if e := s.Complement(); e != nil {
			// every character of the property's alphabet (IUPAC in both cases, '-', '.', '*') can be a
			// nucleotide: a sequence over it is never refused (the unchanged code refuses none)
			return o, fmt.Errorf("Complement of %q (a sequence over the IUPAC DNA alphabet, '-', '.', '*') is refused: %v; the sequence is left as %q, want %q", string(rev), e, s.Sequence(), refRevComp(c.Seq))
		}
		if s.Sequence() != refRevComp(c.Seq) {
			return o, fmt.Errorf("Reverse+Complement(%q) = %q want %q", c.Seq, s.Sequence(), refRevComp(c.Seq))
		}
		if al != nil {
			// the row of the alignment is the object that was transformed; the other rows are untouched
			k := 0
			for i := 0; i <= len(c.Others); i++ {
				got, _ := al.GetSequenceById(i)
				want := refRevComp(c.Seq)
				if i != at {
					want = c.Others[k]
					k++
				}
				if got != want {
					return o, fmt.Errorf("after Reverse+Complement of row %d reached by %s, row %d of the alignment is %q, want %q", at, c.Via, i, got, want)
				}
			}
		}
		// twice restores
		s.Reverse()
		if e := s.Complement(); e != nil || s.Sequence() != c.Seq {
			return o, fmt.Errorf("Reverse+Complement twice of %q gives %q (err %v)", c.Seq, s.Sequence(), e)
		}
		o.NonTrivial = strings.ContainsAny(c.Seq, "KMBDHVkmbdhv*.") && len(c.Seq) > 1
		o.Class("len%%2=%d", len(c.Seq)%2)
		o.Class("via=%s", c.Via)
		if strings.Trim(c.Seq, "-.*") == "" {
			o.Class("no-letter")
		}
		return o, nil
	})
}

// ---- command line tier -----------------------------------------------------------------------

type cliCase struct {
	Ali       gen.Ali    `json:"ali"`
	More      []gen.Ali  `json:"more,omitempty"`   // further alignments of the same Phylip file
	Ragged    int        `json:"ragged,omitempty"` // k > 0: the k-th alignment of the file is made ragged
	Cmd       string     `json:"cmd"`
	Subset    []string   `json:"subset"`
	Unaligned bool       `json:"unaligned,omitempty"` // --unaligned: a sequence set, rows of any length
	Format    string     `json:"format,omitempty"`    // "" = fasta, "phylip"
	Layout    cli.Layout `json:"layout,omitempty"`    // presentation of a fasta input
	Out       string     `json:"out,omitempty"`       // "" = standard output, "new" / "stale" = -o file
}

func cliRows(t *rapid.T, n, l int, ragged bool) []gen.Row {
	var rows []gen.Row
	for i := 0; i < n; i++ {
		li := l
		if ragged {
			li = rapid.IntRange(1, l).Draw(t, "Li")
		}
		// at least one unambiguous nucleotide per row so that alphabet detection says nt
		rows = append(rows, gen.Row{Name: fmt.Sprintf("s%d", i), Seq: "A" + gen.SeqN(t, "ACGTRYSWKMBDHVNacgtryswkmbdhvn-.*", li-1)})
	}
	return rows
}

// cliExpect is the transform of one alignment (or sequence set) by the command
func cliExpect(cmd string, subset []string, rows []gen.Row) []gen.Row {
	want := make([]gen.Row, len(rows))
	copy(want, rows)
	switch cmd {
	case "revcomp":
		for i := range want {
			want[i].Seq = refRevComp(want[i].Seq)
		}
	case "revcomp-subset":
		for _, name := range subset {
			for i := range want {
				if want[i].Name == name {
					want[i].Seq = refRevComp(want[i].Seq)
				}
			}
		}
	case "tolower":
		for i := range want {
			want[i].Seq = asciiLower(want[i].Seq)
		}
	case "toupper":
		for i := range want {
			want[i].Seq = asciiUpper(want[i].Seq)
		}
	case "unalign":
		for i := range want {
			want[i].Seq = ungapped(want[i].Seq)
		}
	}
	return want
}

func TestCLI(t *testing.T) {
	if cli.Binary() == "" {
		t.Skip("no goalign binary")
	}
	dir := cli.TempDir("c06cli")
	pbt.Run(t, func(t *rapid.T) cliCase {
		var c cliCase
		c.Cmd = rapid.SampledFrom([]string{"revcomp", "revcomp-subset", "tolower", "toupper", "unalign"}).Draw(t, "cmd")
		n := rapid.IntRange(1, 5).Draw(t, "rows")
		// lengths around the FASTA writer's line width too
		l := rapid.SampledFrom([]int{1, 2, 3, 7, 20, 79, 80, 81, 161}).Draw(t, "L")
		c.Ali.Alphabet = "nt"
		c.Unaligned = c.Cmd != "unalign" && rapid.IntRange(0, 3).Draw(t, "unaligned") == 0
		if !c.Unaligned && rapid.IntRange(0, 2).Draw(t, "phylip") == 0 {
			c.Format = "phylip"
		}
		if c.Format == "" {
			c.Layout = cli.DrawLayout(t)
		}
		c.Out = rapid.SampledFrom([]string{"", "", "new", "stale"}).Draw(t, "out")
		c.Ali.Rows = cliRows(t, n, l, c.Unaligned)
		if c.Format == "phylip" && rapid.Bool().Draw(t, "several") {
			// a Phylip file may hold several alignments: every one of them is transformed
			for k, more := 0, rapid.IntRange(1, 3).Draw(t, "more"); k < more; k++ {
				a := gen.Ali{Alphabet: "nt"}
				a.Rows = cliRows(t, rapid.IntRange(1, 5).Draw(t, "rows2"), rapid.SampledFrom([]int{1, 2, 5, 20, 61}).Draw(t, "L2"), false)
				c.More = append(c.More, a)
			}
			if rapid.IntRange(0, 2).Draw(t, "ragged") == 0 {
				c.Ragged = rapid.IntRange(1, 1+len(c.More)).Draw(t, "raggedwhich")
			}
		}
		if c.Cmd == "revcomp-subset" {
			k := rapid.IntRange(1, 3).Draw(t, "k")
			for i := 0; i < k; i++ {
				if rapid.IntRange(0, 4).Draw(t, "unk") == 0 {
					c.Subset = append(c.Subset, "nosuch")
				} else {
					c.Subset = append(c.Subset, c.Ali.Rows[rapid.IntRange(0, n-1).Draw(t, "w")].Name)
				}
			}
		}
		return c
	}, func(c cliCase) (o pbt.Outcome, err error) {
		alis := [][]gen.Row{c.Ali.Rows}
		for _, a := range c.More {
			alis = append(alis, a.Rows)
		}
		var in string
		var fmtArgs []string
		if c.Format == "phylip" {
			text := ""
			for k, rows := range alis {
				block := cli.Phylip(rows)
				if c.Ragged == k+1 {
					// the last row loses its last residue: not an alignment any more
					block = strings.TrimSuffix(block, "\n")
					block = block[:len(block)-1] + "\n"
				}
				text += block
			}
			in = cli.TempFile(dir, ".phy", text)
			fmtArgs = []string{"-p"}
		} else {
			in = cli.TempFile(dir, ".fa", cli.FastaLayout(c.Ali.Rows, c.Layout))
		}
		var wants [][]gen.Row
		for _, rows := range alis {
			wants = append(wants, cliExpect(c.Cmd, c.Subset, rows))
		}
		sub := c.Cmd
		if sub == "revcomp-subset" {
			sub = "revcomp"
		}
		args := append([]string{sub, "-i", in}, fmtArgs...)
		if c.Unaligned {
			args = append(args, "--unaligned")
		}
		var outFiles []string
		if c.Out != "" {
			prefix := cli.TempFile(dir, ".out", "")
			os.Remove(prefix)
			args = append(args, "-o", prefix)
			outFiles = []string{prefix}
			if c.Cmd == "unalign" {
				// -o is a prefix there: one file per alignment of the input
				outFiles = nil
				for k := range alis {
					outFiles = append(outFiles, fmt.Sprintf("%s_%06d.fa", prefix, k+1))
				}
			}
			if c.Out == "stale" {
				for _, f := range outFiles {
					cli.StaleFile(f, 40)
				}
			}
		}
		if c.Cmd == "revcomp-subset" {
			args = append(args, c.Subset...)
		}
		r := cli.Run("", args...)
		o.Class("cmd=%s", c.Cmd)
		if c.Ragged > 0 {
			// the file does not hold alignments only: the command must say so, whatever it printed
			// for the alignments before the bad one
			if r.Exit == 0 {
				return o, fmt.Errorf("goalign %v: alignment %d of %d of the input has a short row but the exit status is 0 (stderr %q)", args, c.Ragged, len(alis), r.Stderr)
			}
			o.Class("refused: ragged alignment %s of the file", map[bool]string{true: "last", false: "not last"}[c.Ragged == len(alis)])
			o.NonTrivial = true
			return o, nil
		}
		if r.Exit != 0 {
			return o, fmt.Errorf("goalign %v: exit %d, stderr %q", args, r.Exit, r.Stderr)
		}
		texts := []string{r.Stdout}
		if len(outFiles) > 0 {
			if strings.TrimSpace(r.Stdout) != "" {
				return o, fmt.Errorf("goalign %v: output also printed on standard output: %q", args, r.Stdout)
			}
			texts = nil
			for _, f := range outFiles {
				b, rerr := os.ReadFile(f)
				if rerr != nil {
					return o, fmt.Errorf("goalign %v: output file not written: %v", args, rerr)
				}
				texts = append(texts, string(b))
			}
		}
		// the results, one list of rows per alignment of the input
		var gots [][]gen.Row
		switch {
		case c.Format == "phylip" && c.Cmd != "unalign":
			var perr error
			gots, perr = cli.ParsePhylipStream(texts[0])
			if perr != nil {
				return o, fmt.Errorf("goalign %v: unreadable output: %v\n%q", args, perr, texts[0])
			}
		case c.Cmd == "unalign" && len(outFiles) > 0:
			for _, text := range texts {
				g, perr := cli.ParseFasta(text)
				if perr != nil {
					return o, fmt.Errorf("goalign %v: unreadable output: %v\n%q", args, perr, text)
				}
				gots = append(gots, g)
			}
		default:
			// FASTA on one stream: the records of all alignments one after the other
			g, perr := cli.ParseFasta(texts[0])
			if perr != nil {
				return o, fmt.Errorf("goalign %v: unreadable output: %v\n%q", args, perr, texts[0])
			}
			at := 0
			for _, w := range wants {
				e := at + len(w)
				if e > len(g) {
					e = len(g)
				}
				gots = append(gots, g[at:e])
				at = e
			}
			if at != len(g) {
				return o, fmt.Errorf("goalign %v: %d records in the output, %d expected", args, len(g), at)
			}
		}
		if len(gots) != len(wants) {
			return o, fmt.Errorf("goalign %v: %d alignments in the output for %d in the input", args, len(gots), len(wants))
		}
		changed := false
		for k := range wants {
			got := gots[k]
			if c.Cmd == "unalign" {
				// an entirely gapped row may be printed as an empty record
				for i := range got {
					got[i].Seq = strings.TrimSpace(got[i].Seq)
				}
			}
			if !gen.SameRows(got, wants[k]) {
				return o, fmt.Errorf("goalign %v (input layout %+v), alignment %d of %d\n got : %s\n want: %s", args, c.Layout, k+1, len(wants), gen.Show(got), gen.Show(wants[k]))
			}
			if !gen.SameRows(wants[k], alis[k]) {
				changed = true
			}
		}
		o.NonTrivial = changed
		if c.Unaligned {
			o.Class("--unaligned")
		}
		if c.Format != "" {
			o.Class("format=%s", c.Format)
		}
		if len(alis) > 1 {
			o.Class("several alignments in the file")
		}
		if !c.Layout.Plain() {
			o.Class("fasta layout other than one line per sequence")
		}
		if c.Out != "" {
			o.Class("output file: %s", c.Out)
		}
		return o, nil
	})
}
