// C01 - Alignments stay rectangular, uniquely named and index-consistent
//
// Model-based check over operation histories. A case is a start state plus a list of operation
// records whose arguments were all drawn up-front (see opRec); checkHistory interprets it step by
// step against the real container and against the list-of-rows model of model_test.go and compares
// the whole observable state through every access path after every step (observe_test.go).
package c01

import (
	"fmt"
	"io"
	"log"
	"testing"

	"github.com/evolbioinfo/goalign/align"
	"pgregory.net/rapid"
	"verif/internal/gen"
	"verif/internal/pbt"
)

func TestMain(m *testing.M) {
	log.SetOutput(io.Discard) // goalign warns about renamed/ignored duplicates through the std logger
	pbt.Main(m, "C01")
}

type history struct {
	Kind      string   `json:"kind"`   // "alignment" or "seqbag"
	Policy    int      `json:"policy"` // selector, see policyOf
	StartKind string   `json:"start_kind"`
	Profile   string   `json:"profile"`
	Start     gen.Ali  `json:"start"`
	Comments  []string `json:"comments,omitempty"`
	// Plan: the start object is produced by this chain of public operations ending on Start (provenance)
	Plan *gen.Plan `json:"plan,omitempty"`
	Pool string    `json:"pool,omitempty"`
	Ops  []opRec   `json:"ops"`
}

// ---- generator ----------------------------------------------------------------------------------

var nameDict = []string{
	"s0", "s1", "s2", "s3", "s4", "s5", "a", "b", "ab", "ab01", "ab02", "x", "x_0001", "x_0002", "x_0001_0001",
	"7", "0001", "A", "a b", " lead", "trail ", "n:1", "n_1", "q|r", "t(1)", "u.v;w", "S1", "S01", "S2", "Seq0001",
	"Seq0002", "\xc3\xa9t\xc3\xa9", "-", "abcdefghij", "abcdefghijk", "same", "p_a", "N", "a_0", "a_1", "abcd", "abce", "abcd01",
	// names that CleanNames merges (they differ by special characters or outer blanks only)
	"a.b", "a:b", "a|b", "a,b", " a", "a ", "n.1", "a.b", "a:b",
}

const ntChars = "ACGTACGTACGTacgtNnRYKM--"
const aaChars = "ARNDCQEGHILKMFPSTWYVarndXx-*"

// residues excluding one alphabet (U u O / E Q I L F P Z), both (1 ! J) or neither (A C G T N X - *)
const mixedChars = "ACGTACGTUuOEQILFPZJXx1!-*Nn"

type profile struct {
	name string
	ops  []string
}

var allOps = []string{
	"add", "add", "add", "append", "concat", "rename", "rename", "renameregexp", "addid", "cleannames", "trimnames",
	"trimnamesauto", "sort", "shuffle", "filterlength", "dedup", "rmgapseqs", "rmcharseqs", "rmgapsites", "rmcharsites", "rmmajsites",
	"translate", "revcomp", "revcompsome", "toupper", "tolower", "trimseqs", "compress", "replace", "clone", "sample",
	"clear", "setchar", "replacechar", "unalign", "setpolicy", "autoalphabet", "autoalphabet", "setalphabet", "codonalign", "identical",
}

var profiles = []profile{
	{"general", allOps},
	{"general", allOps},
	{"names", []string{"rename", "rename", "renameregexp", "addid", "cleannames", "trimnames", "trimnamesauto", "sort", "add", "add",
		"concat", "replacechar", "revcompsome", "append", "shuffle", "clone", "dedup", "setpolicy", "sample", "codonalign", "identical"}},
	{"columns", []string{"add", "add", "append", "rmgapsites", "rmcharsites", "rmmajsites", "trimseqs", "compress", "translate", "concat", "replace",
		"clear", "rmgapseqs", "filterlength", "setchar", "clone", "sample", "setpolicy", "autoalphabet", "dedup"}},
	{"rows", []string{"add", "add", "add", "append", "filterlength", "filterlength", "dedup", "rmgapseqs", "rmcharseqs", "clear", "sample",
		"clone", "setpolicy", "sort", "shuffle", "unalign", "translate", "rename"}},
}

func drawName(t *rapid.T, label string) string {
	if rapid.IntRange(0, 9).Draw(t, label+"_fresh") == 0 {
		return gen.SeqN(t, "abxS_:01 .", rapid.IntRange(1, 6).Draw(t, label+"_len"))
	}
	return rapid.SampledFrom(nameDict).Draw(t, label)
}

func drawSel(t *rapid.T, label string) int {
	if rapid.IntRange(0, 3).Draw(t, label+"_abs") == 0 {
		return -1
	}
	return rapid.IntRange(0, 7).Draw(t, label)
}

func drawRows(t *rapid.T, chars string, maxRows int) ([]row, []int) {
	k := rapid.IntRange(1, maxRows).Draw(t, "nrows")
	l := rapid.IntRange(0, 8).Draw(t, "len")
	var rows []row
	var sels []int
	for i := 0; i < k; i++ {
		c := ""
		if rapid.IntRange(0, 3).Draw(t, "hascomment") == 0 {
			c = "note" + fmt.Sprint(i)
		}
		rows = append(rows, row{drawName(t, "name"), gen.SeqN(t, chars, l), c})
		sels = append(sels, drawSel(t, "sel"))
	}
	return rows, sels
}

func drawOp(t *rapid.T, menu []string, chars string) opRec {
	op := opRec{Op: rapid.SampledFrom(menu).Draw(t, "op")}
	b := func(label string) bool { return rapid.Bool().Draw(t, label) }
	in := func(lo, hi int, label string) int { return rapid.IntRange(lo, hi).Draw(t, label) }
	switch op.Op {
	case "add":
		op.N = []int{drawSel(t, "name"), rapid.SampledFrom([]int{0, 0, 0, 1, 1, 2}).Draw(t, "mode"), in(0, 7, "row"),
			rapid.SampledFrom([]int{-2, -1, 1, 2, 5}).Draw(t, "delta")}
		c := ""
		if in(0, 3, "hascomment") == 0 {
			c = "cmt"
		}
		op.S = []string{drawName(t, "newname"), gen.SeqN(t, chars, in(0, 12, "len")), c}
		op.B = []bool{b("char")}
	case "append":
		op.Rows, op.N = drawRows(t, chars, 3)
		op.N = append(op.N, rapid.SampledFrom([]int{-1, 1, 2}).Draw(t, "delta"))
		op.B = []bool{in(0, 4, "wrong") == 0}
	case "concat":
		op.Rows, op.N = drawRows(t, chars, 4)
		op.B = []bool{in(0, 9, "otheralphabet") == 0}
	case "rename":
		k := in(1, 3, "pairs")
		for i := 0; i < k; i++ {
			op.N = append(op.N, drawSel(t, "from"), rapid.SampledFrom([]int{-1, -1, -1, 0, 1, 2, 3}).Draw(t, "to"))
			op.S = append(op.S, drawName(t, "fromname"), drawName(t, "toname"))
		}
	case "renameregexp":
		op.N = []int{in(0, len(rxMenu)-1, "rule")}
	case "addid":
		op.S = []string{rapid.SampledFrom([]string{"", "p_", "_0001", "x", " ", "_s", "id|"}).Draw(t, "id")}
		op.B = []bool{b("right")}
	case "cleannames":
		op.B = []bool{b("nilmap")}
	case "trimnames", "trimnamesauto":
		if op.Op == "trimnames" {
			op.N = []int{rapid.SampledFrom([]int{4, 4, 5, 6, 3, 2, 1, 0, -1, 10, 12}).Draw(t, "size")}
		} else {
			op.N = []int{rapid.SampledFrom([]int{1, 1, 0, 5, 9, 10, 98, 99, 100}).Draw(t, "curid")}
		}
		k := rapid.SampledFrom([]int{0, 0, 0, 1, 2}).Draw(t, "given")
		op.N = append(op.N, k)
		for i := 0; i < k; i++ {
			op.N = append(op.N, drawSel(t, "old"))
			op.S = append(op.S, drawName(t, "oldname"), rapid.SampledFrom([]string{"ab01", "S1", "zz", "ab02", "S01", "k9"}).Draw(t, "short"))
		}
	case "shuffle":
		op.Seed = rapid.Int64Range(1, 1<<40).Draw(t, "seed")
	case "filterlength":
		op.N = []int{in(-1, 13, "min"), in(-1, 13, "max"), in(0, 1, "relative")}
	case "dedup":
		op.B = []bool{b("nasgap")}
	case "rmgapseqs":
		op.N = []int{in(0, len(cutoffQuarters)-1, "cutoff")}
		op.B = []bool{b("ignoren")}
	case "rmcharseqs":
		op.N = []int{in(0, len(cutoffQuarters)-1, "cutoff")}
		op.S = []string{gen.SeqN(t, chars, 1)}
		op.B = []bool{b("case"), b("gaps"), b("n")}
	case "rmgapsites":
		op.N = []int{in(0, len(cutoffQuarters)-1, "cutoff")}
		op.B = []bool{b("ends")}
	case "rmmajsites":
		op.N = []int{in(0, len(cutoffQuarters)-1, "cutoff")}
		op.B = []bool{b("ends"), b("gaps"), b("n")}
	case "rmcharsites":
		op.N = []int{in(0, len(cutoffQuarters)-1, "cutoff")}
		op.S = []string{gen.SeqN(t, chars, in(1, 3, "nchars"))}
		op.B = []bool{b("ends"), b("case"), b("gaps"), b("n"), b("reverse")}
	case "translate":
		op.N = []int{rapid.SampledFrom([]int{0, 0, 1, 2, -1, -1}).Draw(t, "phase"), rapid.SampledFrom([]int{0, 0, 1, 2, 3}).Draw(t, "code")}
	case "revcompsome":
		k := in(0, 3, "k")
		for i := 0; i < k; i++ {
			op.N = append(op.N, drawSel(t, "which"))
			op.S = append(op.S, drawName(t, "name"))
		}
	case "trimseqs":
		rel := in(0, 1, "relative")
		if rel == 1 {
			op.N = []int{in(0, 3, "fromL"), 1}
		} else {
			op.N = []int{in(-1, 6, "size"), 0}
		}
		op.B = []bool{b("start")}
	case "replace":
		op.N = []int{in(0, len(replMenu)-1, "rule")}
	case "setalphabet":
		op.N = []int{in(0, 4, "alphabet")}
	case "codonalign":
		op.N = []int{in(0, 7, "extra"), rapid.SampledFrom([]int{-1, -1, -1, -1, 0, 1, 2}).Draw(t, "omit"), in(0, 7, "victim")}
		op.S = []string{gen.SeqN(t, "ACGTacgtN", in(1, 7, "len"))}
		op.B = []bool{in(0, 9, "wrongset") == 0}
	case "identical":
		op.N = []int{in(0, 4, "mode"), in(0, 7, "row"), in(0, 11, "site")}
	case "clone", "unalign", "setpolicy":
		op.N = []int{in(0, 3, "policy")}
		op.B = []bool{in(0, 2, "asbag") == 0} // clone: CloneSeqBag() even on an alignment
	case "sample":
		rel := in(0, 1, "relative")
		if rel == 1 {
			op.N = []int{in(0, 2, "fromN"), 1, in(0, 3, "policy")}
		} else {
			op.N = []int{in(-1, 8, "nb"), 0, in(0, 3, "policy")}
		}
		op.Seed = rapid.Int64Range(1, 1<<40).Draw(t, "seed")
	case "setchar":
		abs := in(0, 4, "absolute") == 0
		op.N = []int{in(-1, 8, "row"), in(-1, 14, "site"), 0}
		if abs {
			op.N[2] = 1
		}
		op.S = []string{gen.SeqN(t, chars, 1)}
	case "replacechar":
		abs := in(0, 4, "absolute") == 0
		op.N = []int{drawSel(t, "name"), in(-1, 14, "site"), 0}
		if abs {
			op.N[2] = 1
		}
		op.S = []string{gen.SeqN(t, chars, 1), drawName(t, "absent")}
	}
	return op
}

func genHistory(t *rapid.T) history {
	var h history
	h.Kind = "alignment"
	if rapid.IntRange(0, 3).Draw(t, "bag") == 0 {
		h.Kind = "seqbag"
	}
	h.Start.Alphabet = "nt"
	chars := ntChars
	if rapid.IntRange(0, 4).Draw(t, "protein") == 0 {
		h.Start.Alphabet = "aa"
		chars = aaChars
	}
	h.Pool = "standard"
	switch rapid.IntRange(0, 9).Draw(t, "pool") {
	case 0, 1: // residues of both alphabets and of none, in any row
		h.Pool = "mixed"
		chars = mixedChars
	case 2: // nucleotide rows and protein rows side by side
		h.Pool = "nt+aa"
	}
	if rapid.IntRange(0, 3).Draw(t, "autoalphabet") == 0 {
		h.Start.Alphabet = "auto" // built as the readers do: unknown alphabet, rows, AutoAlphabet
	}
	h.Policy = rapid.IntRange(0, 3).Draw(t, "policy")
	h.StartKind = rapid.SampledFrom([]string{"empty", "one-row", "one-column", "mixed-case", "hostile-names", "duplicate-names", "clean-merge", "plain", "plain"}).Draw(t, "start")
	maxRows := pbt.Scale(6, 8)
	nrows := rapid.IntRange(2, maxRows).Draw(t, "rows")
	l := rapid.IntRange(1, 12).Draw(t, "L")
	switch h.StartKind {
	case "empty":
		nrows = 0
	case "one-row":
		nrows = 1
	case "one-column":
		l = 1
	case "plain":
		if h.Start.Alphabet == "nt" {
			chars = "ACGT-"
		}
	}
	bagMin := rapid.SampledFrom([]int{0, 0, 5}).Draw(t, "bagmin") // 5: every sequence can be translated in three frames
	for i := 0; i < nrows; i++ {
		name := fmt.Sprintf("s%d", i)
		switch h.StartKind {
		case "hostile-names":
			name = drawName(t, "name")
		case "duplicate-names":
			name = rapid.SampledFrom([]string{"a", "b", "a_0001", "x"}).Draw(t, "name")
		case "clean-merge": // distinct names that CleanNames (or a regexp on the separator) sends to one name
			name = rapid.SampledFrom([]string{"a.b", "a:b", "a|b", "a,b", "a b", " a", "a ", "a", "a-b", "a;b"}).Draw(t, "name")
		}
		li := l
		if h.Kind == "seqbag" {
			li = rapid.IntRange(bagMin, 12).Draw(t, "Li")
		}
		rowChars := chars
		if h.Pool == "nt+aa" {
			rowChars = rapid.SampledFrom([]string{"ACGU", "ACGT-", aaChars, "MKLE", "ACGTN"}).Draw(t, "rowpool")
		}
		seq := gen.SeqN(t, rowChars, li)
		if h.StartKind == "duplicate-names" && i > 0 && rapid.IntRange(0, 2).Draw(t, "sameseq") == 0 {
			seq = h.Start.Rows[0].Seq
			if h.Kind == "seqbag" || len(seq) == li {
				// keep
			} else {
				seq = gen.SeqN(t, chars, li)
			}
		}
		h.Start.Rows = append(h.Start.Rows, gen.Row{Name: name, Seq: seq})
		c := ""
		if rapid.IntRange(0, 3).Draw(t, "hascomment") == 0 {
			c = fmt.Sprintf("comment %d", i)
		}
		h.Comments = append(h.Comments, c)
	}
	p := rapid.SampledFrom(profiles).Draw(t, "profile")
	h.Profile = p.name
	opChars := chars
	if h.Start.Alphabet == "nt" && h.Pool == "standard" {
		opChars = ntChars
	}
	// provenance: for a share of the alignments the start object is not freshly built but produced by
	// a chain of public operations that ends on the same content
	if h.Kind == "alignment" && len(h.Start.Rows) > 0 && len(h.Start.Rows[0].Seq) > 0 && distinct(h.Start.Rows) &&
		rapid.IntRange(0, 1).Draw(t, "provenance") == 0 {
		plan := gen.DrawPlan(t, h.Start, opChars, 3)
		if len(plan.Steps) > 0 {
			h.Plan = &plan
			h.Comments = nil
		}
	}
	// the number of steps is drawn explicitly (rapid's own slice lengths are strongly biased to short
	// lists); shrinking lowers it and simplifies the remaining records
	maxSteps := pbt.Scale(25, 60)
	steps := rapid.SampledFrom([]int{1, 2, 3, 5, 8, 12, 16, 20, maxSteps, maxSteps}).Draw(t, "steps")
	for i := 0; i < steps; i++ {
		h.Ops = append(h.Ops, drawOp(t, p.ops, opChars))
	}
	return h
}

// ---- check --------------------------------------------------------------------------------------

func distinct(rows []gen.Row) bool {
	seen := map[string]bool{}
	for _, r := range rows {
		if seen[r.Name] {
			return false
		}
		seen[r.Name] = true
	}
	return true
}

func alphabetCode(s string) int {
	switch s {
	case "aa":
		return align.AMINOACIDS
	case "auto":
		return align.UNKNOWN
	}
	return align.NUCLEOTIDS
}

func checkHistory(h history) (o pbt.Outcome, err error) {
	m := &model{bag: h.Kind == "seqbag", alphabet: alphabetCode(h.Start.Alphabet), policy: effectivePolicy(policyOf(h.Policy))}
	sb := newContainer(m.bag, m.alphabet)
	sb.IgnoreIdentical(policyOf(h.Policy))
	c := &runCtx{sb: sb, m: m, o: &o}
	if e := observe(c.sb, m); e != nil {
		return o, fmt.Errorf("new container: %v", e)
	}
	startRows := h.Start.Rows
	if h.Plan != nil && !m.bag {
		forced := h.Start
		if forced.Alphabet == "auto" {
			forced.Alphabet = "nt" // gen.Build detects by itself for "auto"; here detection is an explicit, judged step
			m.alphabet = align.NUCLEOTIDS
		}
		if al, usable := gen.BuildVia(forced, *h.Plan); usable {
			al.IgnoreIdentical(policyOf(h.Policy))
			c.sb = al
			for _, r := range startRows {
				m.rows = append(m.rows, row{Name: r.Name, Seq: r.Seq})
			}
			startRows = nil
			o.Class("provenance=chain-of-%d", len(h.Plan.Steps))
			for _, k := range h.Plan.Kinds() {
				o.Class("provenance-step=%s", k)
			}
			if e := observe(c.sb, m); e != nil {
				return o, fmt.Errorf("start object produced by %s: %v", h.Plan.String(), e)
			}
		} else {
			o.Class("provenance-unusable")
			if h.Start.Alphabet == "auto" {
				m.alphabet = align.UNKNOWN
			}
		}
	} else {
		o.Class("provenance=fresh")
	}
	// the start rows are inserted one by one under the policy: they are insertions like any other
	for i, r := range startRows {
		cm := ""
		if i < len(h.Comments) {
			cm = h.Comments[i]
		}
		st, either := m.classifyAdd(r.Name, r.Seq)
		if st == addUnmodelled {
			continue
		}
		e := c.sb.AddSequence(r.Name, r.Seq, cm)
		what := fmt.Sprintf("start row %d AddSequence(%q,%q) policy %d", i, r.Name, r.Seq, m.policy)
		switch st {
		case addAdded:
			err = c.checkErr(what, e, wantNoErr)
			m.doAdd(r.Name, r.Seq, cm)
		case addIgnored:
			w := wantNoErr
			if either {
				w = wantEither
			}
			err = c.checkErr(what, e, w)
			o.Class("add:ignored-policy-%d", m.policy)
		case addRejected:
			err = c.checkErr(what+" (wrong length)", e, wantErr)
		}
		if err != nil {
			return o, err
		}
		if e := observe(c.sb, m); e != nil {
			return o, fmt.Errorf("after %s: %v", what, e)
		}
	}
	if h.Start.Alphabet == "auto" {
		if _, e := c.autoAlphabet(opRec{Op: "autoalphabet"}); e != nil {
			return o, fmt.Errorf("AutoAlphabet on the start rows: %v", e)
		}
		if e := observe(c.sb, m); e != nil {
			return o, fmt.Errorf("after AutoAlphabet on the start rows: %v", e)
		}
	}
	if h.Pool == "" {
		h.Pool = "fixed"
	}
	o.Class("pool=%s", h.Pool)
	prev := "start"
	lookups0 := collisionLookups
	for k, op := range h.Ops {
		before := m.names()
		collBefore := m.collided()
		executed, e := c.step(op)
		if e != nil {
			return o, fmt.Errorf("step %d (%s after %v): %v", k, op.Op, c.executed, e)
		}
		if c.ended {
			break
		}
		if !executed {
			continue
		}
		for _, name := range before {
			if !m.has(name) {
				m.bury(name)
			}
		}
		if e := observe(c.sb, m); e != nil {
			return o, fmt.Errorf("after step %d (%s, history %v): %v", k, op.Op, c.executed, e)
		}
		// a clone is an independent list: the container it was made from never changes afterwards
		if c.srcSb != nil && op.Op != "clone" && op.Op != "unalign" {
			if e := observe(c.srcSb, c.srcM); e != nil {
				return o, fmt.Errorf("after step %d (%s, history %v) the container that was cloned at step %d changed: %v", k, op.Op, c.executed, c.srcStep, e)
			}
			if inPlaceEdits[op.Op] {
				c.invalidations++
				o.Class("inv:clone>in-place-edit>source-reread")
			}
		}
		c.executed = append(c.executed, op.Op)
		o.Class("op=%s", op.Op)
		o.Class("pair=%s>%s", prev, op.Op)
		if collBefore {
			o.Class("step-in-collision-state")
		}
		prev = op.Op
	}
	o.NonTrivial = c.invalidations > 0
	if collisionLookups > lookups0 {
		// a name shared by several rows was looked up through every by-name path (all must reach the same row)
		o.Class("collision-state-lookups-compared")
	}
	o.Class("kind=%s", h.Kind)
	o.Class("alphabet=%s", h.Start.Alphabet)
	o.Class("policy=%d", effectivePolicy(policyOf(h.Policy)))
	o.Class("start=%s", h.StartKind)
	o.Class("profile=%s", h.Profile)
	o.Class("executed-steps=%s", bucket(len(c.executed)))
	if m.bag && h.Kind == "alignment" {
		o.Class("became-seqbag")
	}
	o.Classes = uniq(o.Classes)
	return o, nil
}

// operations that edit residues or names in place (they can expose rows shared between a clone and its source)
var inPlaceEdits = map[string]bool{"toupper": true, "tolower": true, "setchar": true, "replacechar": true, "revcomp": true,
	"revcompsome": true, "rename": true, "renameregexp": true, "addid": true, "cleannames": true, "trimnames": true, "trimnamesauto": true, "compress": true}

func (m *model) bury(name string) {
	for _, g := range m.grave {
		if g == name {
			return
		}
	}
	m.grave = append(m.grave, name)
	if len(m.grave) > 40 {
		m.grave = m.grave[len(m.grave)-40:]
	}
}

func bucket(n int) string {
	switch {
	case n == 0:
		return "0"
	case n <= 3:
		return "1-3"
	case n <= 10:
		return "4-10"
	case n <= 25:
		return "11-25"
	}
	return "26+"
}

func uniq(in []string) []string {
	seen := map[string]bool{}
	var out []string
	for _, s := range in {
		if !seen[s] {
			seen[s] = true
			out = append(out, s)
		}
	}
	return out
}

func TestHistories(t *testing.T) { pbt.Run(t, genHistory, checkHistory) }

// ---- every ordered pair of operations, from fixed start states, under each policy ---------------

func canonicalOps() []opRec {
	r2 := []row{{"ab", "ACGTAC", "n0"}, {"fresh", "TTGACA", ""}}
	return []opRec{
		{Op: "add", N: []int{-1, 0, 0, 1}, S: []string{"new", "ACGTTGCA", "cm"}},
		{Op: "add", N: []int{0, 1, 0, 1}, S: []string{"new", "ACGT", ""}, B: []bool{true}},
		{Op: "add", N: []int{1, 0, 0, 1}, S: []string{"new", "TTGACATT", ""}},
		{Op: "add", N: []int{-1, 2, 0, 1}, S: []string{"x_0001", "ACGT", ""}},
		{Op: "append", Rows: r2, N: []int{0, -1, 1}, B: []bool{false}},
		{Op: "append", Rows: r2, N: []int{-1, -1, 1}, B: []bool{true}},
		{Op: "concat", Rows: r2, N: []int{1, -1}, B: []bool{false}},
		{Op: "rename", N: []int{0, -1}, S: []string{"", "z"}},
		{Op: "rename", N: []int{0, 1, 1, 0}, S: []string{"", "", "", ""}},
		{Op: "rename", N: []int{0, 1}, S: []string{"", ""}},
		{Op: "rename", N: []int{-1, -1}, S: []string{"nosuch", "z"}},
		{Op: "renameregexp", N: []int{0}},
		{Op: "renameregexp", N: []int{2}},
		{Op: "renameregexp", N: []int{4}},
		{Op: "addid", S: []string{"p_"}, B: []bool{false}},
		{Op: "addid", S: []string{"_0001"}, B: []bool{true}},
		{Op: "cleannames"},
		{Op: "trimnames", N: []int{4, 0}},
		{Op: "trimnames", N: []int{5, 0}},
		{Op: "trimnamesauto", N: []int{1, 0}},
		{Op: "sort"},
		{Op: "shuffle", Seed: 7},
		{Op: "filterlength", N: []int{0, 1, 1}},
		{Op: "filterlength", N: []int{3, -1, 0}},
		{Op: "filterlength", N: []int{-1, 6, 0}},
		{Op: "dedup", B: []bool{false}},
		{Op: "dedup", B: []bool{true}},
		{Op: "rmgapseqs", N: []int{1}, B: []bool{false}},
		{Op: "rmgapseqs", N: []int{5}, B: []bool{true}},
		{Op: "rmgapsites", N: []int{1}, B: []bool{false}},
		{Op: "rmgapsites", N: []int{2}, B: []bool{true}},
		{Op: "rmcharsites", N: []int{5}, S: []string{"A"}, B: []bool{false, true, false, false, false}},
		{Op: "rmmajsites", N: []int{3}, B: []bool{true}},
		{Op: "rmmajsites", N: []int{5}, B: []bool{true}},
		{Op: "rmmajsites", N: []int{5}, B: []bool{false}},
		{Op: "translate", N: []int{0, 0}},
		{Op: "translate", N: []int{1, 1}},
		{Op: "translate", N: []int{-1, 0}},
		{Op: "revcomp"},
		{Op: "revcompsome", N: []int{0, 2}, S: []string{"", ""}},
		{Op: "toupper"},
		{Op: "tolower"},
		{Op: "trimseqs", N: []int{1, 0}, B: []bool{true}},
		{Op: "trimseqs", N: []int{1, 1}, B: []bool{false}},
		{Op: "trimseqs", N: []int{0, 1}, B: []bool{false}},
		{Op: "compress"},
		{Op: "replace", N: []int{0}},
		{Op: "replace", N: []int{5}},
		{Op: "clone", N: []int{0}},
		{Op: "clone", N: []int{2}},
		{Op: "clone", N: []int{0}, B: []bool{true}},
		{Op: "sample", N: []int{0, 1, 1}, Seed: 11},
		{Op: "sample", N: []int{1, 0, 0}, Seed: 12},
		{Op: "clear"},
		{Op: "setchar", N: []int{1, 2, 0}, S: []string{"G"}},
		{Op: "replacechar", N: []int{1, 3, 0}, S: []string{"T", "nosuch"}},
		{Op: "replacechar", N: []int{-1, 0, 0}, S: []string{"T", "nosuch"}},
		{Op: "unalign", N: []int{0}},
		{Op: "codonalign", N: []int{3, -1, 1}, S: []string{"ACGTTA"}},
		{Op: "codonalign", N: []int{4, -1, 1}, S: []string{"ACGTTA"}},
		{Op: "identical", N: []int{0, 0, 0}},
		{Op: "identical", N: []int{1, 1, 2}},
		{Op: "autoalphabet"},
		{Op: "setalphabet", N: []int{0}},
		{Op: "setalphabet", N: []int{1}},
		{Op: "setpolicy", N: []int{0}},
		{Op: "setpolicy", N: []int{1}},
		{Op: "setpolicy", N: []int{2}},
	}
}

func pairStarts() []history {
	mk := func(kind, alpha, sk string, rows ...gen.Row) history {
		return history{Kind: kind, StartKind: sk, Profile: "pairs", Start: gen.Ali{Rows: rows, Alphabet: alpha}}
	}
	return []history{
		mk("alignment", "nt", "hostile-names", gen.Row{Name: "ab", Seq: "AC-GTAtt-"}, gen.Row{Name: "ab01", Seq: "ACNGTAtt-"}, gen.Row{Name: "x", Seq: "AC-GTAtt-"}, gen.Row{Name: "a b", Seq: "---GTCAAG"}),
		mk("seqbag", "nt", "plain", gen.Row{Name: "s0", Seq: "ACGTACG"}, gen.Row{Name: "s1", Seq: "ACGTA"}, gen.Row{Name: "s2", Seq: "ACGTACGTAC"}, gen.Row{Name: "s3", Seq: "ACGTA"}),
		mk("alignment", "nt", "empty"),
		mk("alignment", "nt", "duplicate-names", gen.Row{Name: "a", Seq: "ACGT"}, gen.Row{Name: "a", Seq: "ACGT"}, gen.Row{Name: "a", Seq: "TTTT"}, gen.Row{Name: "a_0001", Seq: "GG-A"}),
		mk("alignment", "nt", "clean-merge", gen.Row{Name: "a.b", Seq: "ACGTA"}, gen.Row{Name: "x", Seq: "AC-TA"}, gen.Row{Name: "a:b", Seq: "TTGCA"}, gen.Row{Name: " x", Seq: "GGGCA"}),
		mk("seqbag", "auto", "mixed-alphabets", gen.Row{Name: "r", Seq: "ACGUACG"}, gen.Row{Name: "p", Seq: "MKXLE"}, gen.Row{Name: "q", Seq: "MK-LE"}, gen.Row{Name: "d", Seq: "ACGTNCG"}),
		mk("alignment", "aa", "mixed-case", gen.Row{Name: "S1", Seq: "MKXx-L"}, gen.Row{Name: "S2", Seq: "mkXX-L"}, gen.Row{Name: "n:1", Seq: "MK---L"}),
	}
}

func TestOperationPairs(t *testing.T) {
	ops := canonicalOps()
	pbt.Enumerate(t, fmt.Sprintf("every ordered pair of %d canonical operation variants x 7 start states x 3 duplicate-name policies", len(ops)),
		func(yield func(history) bool) {
			for _, st := range pairStarts() {
				for p := 0; p < 3; p++ {
					for _, a := range ops {
						for _, b := range ops {
							h := st
							h.Policy = p
							h.Ops = []opRec{a, b}
							if !yield(h) {
								return
							}
						}
					}
				}
			}
		},
		func(h history) (pbt.Outcome, error) {
			o, err := checkHistory(h)
			if o.NonTrivial {
				o.Key = fmt.Sprintf("%s|%d|%+v", h.StartKind, h.Policy, h.Ops)
			}
			return o, err
		})
}
