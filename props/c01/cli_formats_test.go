// C01 - command-line tier, second part: the duplicate-name policy of --ignore-identical must act on
// every input format (FASTA, Phylip, Nexus, Clustal, Stockholm, with the format flag or with
// --auto-detect), both when a file is read (duplicate names inside one file) and when rows are
// inserted into the alignment that was read (goalign append). Files are written by the small writers
// below; every output is converted to FASTA by `goalign reformat fasta` and read by the independent
// FASTA reader; the oracle is the same list-of-rows model (readModel + insertion under the policy).
package c01

import (
	"fmt"
	"strconv"
	"strings"
	"testing"

	"pgregory.net/rapid"
	"verif/internal/cli"
	"verif/internal/gen"
	"verif/internal/pbt"
)

type fmtCase struct {
	Format string    `json:"format"`
	Auto   bool      `json:"auto_detect"`
	Policy int       `json:"ignore_identical"` // -1: flag absent
	Cmd    string    `json:"cmd"`              // read | append | append-sort
	Rows   []gen.Row `json:"rows"`
	Other  []gen.Row `json:"other"`
	Sel    []int     `json:"sel"` // per row of Other: >= 0 takes the name of that row of the input
	Wrong  bool      `json:"wrong_length"`
	// Broken: for Cmd "stream-error", how the second alignment of the Phylip stream is malformed, and the command run on it
	Broken int    `json:"broken,omitempty"`
	On     string `json:"on,omitempty"`
}

var fmtFlag = map[string]string{"fasta": "", "phylip": "-p", "nexus": "-x", "clustal": "-u", "stockholm": "-k"}

var fmtNames = []string{"s0", "s1", "s2", "a", "b", "x", "x_0001", "x_0002", "Seq1", "t7", "A"}

func writeFormat(format string, rows []gen.Row) string {
	var sb strings.Builder
	switch format {
	case "fasta":
		return cli.Fasta(rows)
	case "phylip":
		return cli.Phylip(rows)
	case "nexus":
		l := 0
		if len(rows) > 0 {
			l = len(rows[0].Seq)
		}
		fmt.Fprintf(&sb, "#NEXUS\nbegin data;\ndimensions ntax=%d nchar=%d;\nformat datatype=dna;\nmatrix\n", len(rows), l)
		for _, r := range rows {
			sb.WriteString(r.Name + " " + r.Seq + "\n")
		}
		sb.WriteString(";\nend;\n")
	case "clustal":
		sb.WriteString("CLUSTAL W (1.82) multiple sequence alignment\n\n")
		for _, r := range rows {
			sb.WriteString(r.Name + "   " + r.Seq + " " + strconv.Itoa(len(r.Seq)) + "\n")
		}
		sb.WriteString("        \n") // the conservation line that closes a block
	case "stockholm":
		sb.WriteString("# STOCKHOLM 1.0\n")
		for _, r := range rows {
			sb.WriteString(r.Name + " " + r.Seq + "\n")
		}
		sb.WriteString("//\n")
	}
	return sb.String()
}

func genFmt(t *rapid.T) fmtCase {
	var c fmtCase
	c.Format = rapid.SampledFrom([]string{"fasta", "phylip", "nexus", "clustal", "stockholm"}).Draw(t, "format")
	// --auto-detect tries FASTA, Nexus, Clustal, Phylip (docs/index.md); Stockholm needs its flag
	c.Auto = c.Format != "stockholm" && rapid.IntRange(0, 2).Draw(t, "auto") == 0
	c.Policy = rapid.IntRange(-1, 2).Draw(t, "policy")
	c.Cmd = rapid.SampledFrom([]string{"read", "append", "append", "append-sort"}).Draw(t, "cmd")
	n := rapid.IntRange(1, 5).Draw(t, "rows")
	l := rapid.IntRange(1, 12).Draw(t, "L")
	dup := c.Format != "nexus" && rapid.IntRange(0, 1).Draw(t, "dup") == 0 // a Nexus matrix is keyed by name
	for i := 0; i < n; i++ {
		name := rapid.SampledFrom(fmtNames).Draw(t, "name")
		if !dup {
			for k := range c.Rows {
				if c.Rows[k].Name == name {
					name = fmt.Sprintf("r%d", i)
				}
			}
		}
		seq := gen.SeqN(t, "ACGTN-", l)
		if i > 0 && rapid.IntRange(0, 2).Draw(t, "repeat") == 0 {
			seq = c.Rows[rapid.IntRange(0, i-1).Draw(t, "of")].Seq
		}
		c.Rows = append(c.Rows, gen.Row{Name: name, Seq: seq})
	}
	k := rapid.IntRange(1, 3).Draw(t, "others")
	for i := 0; i < k; i++ {
		c.Other = append(c.Other, gen.Row{Name: fmt.Sprintf("o%d", i), Seq: gen.SeqN(t, "ACGTN-", l)})
		c.Sel = append(c.Sel, rapid.SampledFrom([]int{-1, 0, 1, 2, 3}).Draw(t, "sel"))
	}
	c.Wrong = rapid.IntRange(0, 5).Draw(t, "wrong") == 0
	if rapid.IntRange(0, 3).Draw(t, "stream") == 0 {
		c.Format, c.Auto = "phylip", false
		// a Phylip file may hold several alignments: the first one is fine, a later one is malformed
		c.Cmd = "stream-error"
		c.Broken = rapid.IntRange(0, 2).Draw(t, "broken")
		c.On = rapid.SampledFrom(streamCommands).Draw(t, "on")
	}
	return c
}

// commands of C01's contract that process every alignment of a Phylip stream
var streamCommands = []string{"sort", "addid -n p_", "dedup", "subset s0", "clean seqs -q", "rename --clean-names", "rename --regexp s --replace t",
	"trim name -a", "trim name -n 6", "concat", "append"}

func TestCLIFormats(t *testing.T) {
	if cli.Binary() == "" {
		t.Skip("no goalign binary")
	}
	dir := cli.TempDir("c01fmt")
	pbt.Run(t, genFmt, func(c fmtCase) (pbt.Outcome, error) { return checkFmt(dir, c) })
}

func checkFmt(dir string, c fmtCase) (o pbt.Outcome, err error) {
	if _, ok := fmtFlag[c.Format]; !ok {
		return o, fmt.Errorf("harness: unknown format %q", c.Format)
	}
	policy := 0
	if c.Policy > 0 {
		policy = effectivePolicy(c.Policy)
	}
	var flags []string
	if c.Policy >= 0 {
		flags = append(flags, "--ignore-identical", strconv.Itoa(c.Policy))
	}
	inFlag := fmtFlag[c.Format]
	if c.Auto {
		inFlag = "--auto-detect"
	}
	if inFlag != "" {
		flags = append(flags, inFlag)
	}
	a := cli.TempFile(dir, "."+c.Format, writeFormat(c.Format, c.Rows))
	m, readable := readModel(toRows(c.Rows), policy)
	if !readable {
		return o, fmt.Errorf("harness: start rows not readable")
	}
	// toFasta converts a file in the case's format to rows (explicit format flag, no policy: names
	// of an alignment that was read are distinct)
	toFasta := func(path, what string) ([]row, error) {
		args := []string{"reformat", "fasta", "-i", path}
		if fmtFlag[c.Format] != "" {
			args = append(args, fmtFlag[c.Format])
		}
		r := cli.RunIn(dir, "", args...)
		if r.Exit != 0 {
			return nil, fmt.Errorf("%s: the output cannot be read back in its own format (goalign %s: exit %d, %q)", what, strings.Join(args, " "), r.Exit, r.Stderr)
		}
		rows, perr := cli.ParseFasta(r.Stdout)
		if perr != nil {
			return nil, fmt.Errorf("%s: %v", what, perr)
		}
		return toRows(rows), nil
	}
	if m.length() != len(c.Rows[0].Seq) {
		return o, fmt.Errorf("harness: model length")
	}
	o.Class("fmt=%s", c.Format)
	o.Class("fmt-policy=%d", c.Policy)
	o.Class("fmt-auto-detect=%v", c.Auto)
	o.Class("fmt-cmd=%s", c.Cmd)
	if len(m.rows) < len(c.Rows) {
		o.Class("fmt-duplicates-ignored-on-read")
	}
	if c.Cmd == "stream-error" {
		// an input that cannot be read is an error of every command (exit status != 0), also when the
		// unreadable part is a later alignment of the stream
		l := len(c.Rows[0].Seq)
		var second string
		switch c.Broken {
		case 0: // a row is missing
			second = fmt.Sprintf("  2  %d\nzz1  %s\n", l, fit("ACGT", l))
		case 1: // a row is too short
			second = fmt.Sprintf("  2  %d\nzz1  %s\nzz2  %s\n", l+1, fit("ACGT", l+1), fit("ACGT", l))
		default: // the header is not numeric
			second = fmt.Sprintf("  x  %d\nzz1  %s\nzz2  %s\n", l, fit("ACGT", l), fit("ACGT", l))
		}
		file := cli.TempFile(dir, ".phy", writeFormat("phylip", c.Rows)+second)
		args := append(strings.Fields(c.On), "-p", "-i", file)
		if c.Policy >= 0 {
			args = append(args, "--ignore-identical", strconv.Itoa(c.Policy))
		}
		r := cli.RunIn(dir, "", args...)
		if r.Exit == 0 {
			return o, fmt.Errorf("goalign %s: exit status 0 although the second alignment of the Phylip stream is malformed (%q); stdout %q", strings.Join(args, " "), second, r.Stdout)
		}
		o.Class("fmt-stream-error:%s", strings.Fields(c.On)[0])
		o.NonTrivial = true
		return o, nil
	}
	if c.Cmd == "read" {
		args := append([]string{"reformat", "fasta", "-i", a}, flags...)
		r := cli.RunIn(dir, "", args...)
		what := fmt.Sprintf("goalign %s on %s", strings.Join(args, " "), showRows(toRows(c.Rows)))
		if r.Exit != 0 {
			return o, fmt.Errorf("%s: exit %d, %q", what, r.Exit, r.Stderr)
		}
		got, perr := cli.ParseFasta(r.Stdout)
		if perr != nil {
			return o, fmt.Errorf("%s: %v", what, perr)
		}
		if !sameRows(toRows(got), m.rows) {
			return o, fmt.Errorf("%s\n got : %s\n want: %s", what, showRows(toRows(got)), showRows(m.rows))
		}
		o.NonTrivial = len(m.rows) != len(c.Rows) || namesDiffer(m.rows, c.Rows)
		return o, nil
	}
	// append: the rows of a second file are inserted into the alignment read from the first one
	l := m.length()
	target := l
	if c.Wrong {
		target = l + 1
	}
	var other []gen.Row
	seen := map[string]bool{}
	for i, r := range c.Other {
		name := r.Name
		if i < len(c.Sel) && c.Sel[i] >= 0 {
			name = m.rows[mod(c.Sel[i], len(m.rows))].Name
		}
		if seen[name] {
			continue
		}
		seen[name] = true
		other = append(other, gen.Row{Name: name, Seq: fit(r.Seq, target)})
	}
	b := cli.TempFile(dir, "."+c.Format, writeFormat(c.Format, other))
	om, _ := readModel(toRows(other), policy)
	want := wantNoErr
	out := m.clone()
	effective := false
	for _, r := range om.rows {
		st, either := out.classifyAdd(r.Name, r.Seq)
		if st == addRejected {
			want = wantErr
			break
		}
		if st == addIgnored {
			effective = true
			if either && want == wantNoErr {
				want = wantEither
			}
		}
		if st == addAdded {
			if out.has(r.Name) {
				effective = true
			}
			out.doAdd(r.Name, r.Seq, "")
		}
	}
	args := append([]string{"append", "-i", a, b}, flags...)
	r := cli.RunIn(dir, "", args...)
	what := fmt.Sprintf("goalign %s\n input: %s\n other: %s", strings.Join(args, " "), showRows(toRows(c.Rows)), showRows(toRows(other)))
	if want == wantErr {
		if r.Exit == 0 {
			return o, fmt.Errorf("%s: exit status 0 although the rows to append have another length", what)
		}
		o.Class("fmt-append-rejected")
		return o, nil
	}
	if r.Exit != 0 {
		if want == wantEither {
			o.Ambiguous++
			return o, nil
		}
		return o, fmt.Errorf("%s: exit %d, %q", what, r.Exit, r.Stderr)
	}
	outFile := cli.TempFile(dir, "."+c.Format, r.Stdout)
	expected := out.rows
	if c.Cmd == "append-sort" {
		args2 := append([]string{"sort", "-i", outFile}, flags...)
		r2 := cli.RunIn(dir, "", args2...)
		if r2.Exit != 0 {
			return o, fmt.Errorf("%s, then goalign %s: exit %d, %q", what, strings.Join(args2, " "), r2.Exit, r2.Stderr)
		}
		outFile = cli.TempFile(dir, "."+c.Format, r2.Stdout)
		expected = sortedRows(out.rows)
		what += ", then sort"
	}
	got, e := toFasta(outFile, what)
	if e != nil {
		return o, e
	}
	if !sameRows(got, expected) {
		return o, fmt.Errorf("%s\n got : %s\n want: %s", what, showRows(got), showRows(expected))
	}
	o.NonTrivial = effective
	if effective {
		o.Class("fmt-append-hits-existing-name")
	}
	return o, nil
}

func namesDiffer(a []row, b []gen.Row) bool {
	for i := range a {
		if i < len(b) && a[i].Name != b[i].Name {
			return true
		}
	}
	return false
}
