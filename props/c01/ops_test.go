// C01 - interpreter: executes one operation record against the real container and the model
package c01

import (
	"fmt"
	"math/rand"
	"regexp"
	"sort"
	"strconv"
	"strings"

	"github.com/evolbioinfo/goalign/align"
	"verif/internal/pbt"
)

// opRec is one operation of a history. All arguments are drawn up-front; arguments that refer to
// the current state (an existing name, a row, a position) are selectors resolved modulo the
// current size, so that every shrunk history stays executable.
type opRec struct {
	Op   string   `json:"op"`
	N    []int    `json:"n,omitempty"`
	S    []string `json:"s,omitempty"`
	B    []bool   `json:"b,omitempty"`
	Rows []row    `json:"rows,omitempty"`
	Seed int64    `json:"seed,omitempty"`
}

func (o opRec) n(i int) int {
	if i < len(o.N) {
		return o.N[i]
	}
	return 0
}
func (o opRec) s(i int) string {
	if i < len(o.S) {
		return o.S[i]
	}
	return ""
}
func (o opRec) b(i int) bool {
	if i < len(o.B) {
		return o.B[i]
	}
	return false
}

func mod(k, n int) int {
	if n <= 0 {
		return 0
	}
	k %= n
	if k < 0 {
		k += n
	}
	return k
}

// fit repeats the material cyclically to exactly l residues
func fit(s string, l int) string {
	if l <= 0 {
		return ""
	}
	if s == "" {
		s = "A"
	}
	b := make([]byte, l)
	for i := range b {
		b[i] = s[i%len(s)]
	}
	return string(b)
}

func policyOf(k int) int {
	switch mod(k, 4) {
	case 0:
		return align.IGNORE_NONE
	case 1:
		return align.IGNORE_NAME
	case 2:
		return align.IGNORE_SEQUENCE
	}
	return 17 // an unknown value: documented to mean IGNORE_NONE
}

func effectivePolicy(p int) int {
	if p == align.IGNORE_NAME || p == align.IGNORE_SEQUENCE {
		return p
	}
	return align.IGNORE_NONE
}

// run state -------------------------------------------------------------------------------------

type runCtx struct {
	sb align.SeqBag
	m  *model
	o  *pbt.Outcome
	// bookkeeping for the non-triviality rule
	nameEdited    bool // a renaming operation changed at least one name
	emptied       bool // the container went from non-empty to empty
	widthEdited   bool // a column edit changed the length
	invalidations int
	curOp         string
	// the container the current one was cloned (or un-aligned) from, with its model at that time
	srcSb    align.SeqBag
	srcM     *model
	srcStep  int
	ended    bool
	executed []string
}

func (c *runCtx) al() align.Alignment {
	if c.m.bag {
		return nil
	}
	return c.sb.(align.Alignment)
}

func newContainer(bag bool, alphabet int) align.SeqBag {
	if bag {
		return align.NewSeqBag(alphabet)
	}
	return align.NewAlign(alphabet)
}

type errWant int

const (
	wantNoErr errWant = iota
	wantErr
	wantEither
)

func (c *runCtx) checkErr(what string, err error, want errWant) error {
	switch want {
	case wantNoErr:
		if err != nil {
			return fmt.Errorf("%s: unexpected error %q on a valid call (model %s)", what, err.Error(), showRows(c.m.rows))
		}
	case wantErr:
		if err == nil {
			return fmt.Errorf("%s: no error returned although the documentation demands one (model %s)", what, showRows(c.m.rows))
		}
	case wantEither:
		c.o.Ambiguous++
	}
	return nil
}

// afterError: the statement constrains the state after successful operations only (and after a
// rejected insertion, handled by the callers). If a failed operation left the container different
// from the model, the container is rebuilt from the model through the public constructors.
func (c *runCtx) afterError() {
	if observe(c.sb, c.m) == nil {
		return
	}
	if c.m.collided() {
		c.ended = true
		c.o.Class("ended-after-failed-op")
		return
	}
	sb := newContainer(c.m.bag, c.m.alphabet)
	for _, r := range c.m.rows {
		if err := sb.AddSequence(r.Name, r.Seq, r.Comment); err != nil {
			c.ended = true
			return
		}
	}
	sb.IgnoreIdentical(c.m.policy)
	c.sb = sb
	c.o.Class("rebuilt-after-failed-op")
}

func (c *runCtx) skip(op, why string) (bool, error) {
	c.o.Class("corner-avoided:%s:%s", op, why)
	return false, nil
}

// buildOther makes the argument alignment of Append/Concat from an operation record
func (c *runCtx) otherRows(op opRec, target int) []row {
	var out []row
	seen := map[string]bool{}
	n := len(c.m.rows)
	for i, r := range op.Rows {
		name := r.Name
		if sel := op.n(i); sel >= 0 && n > 0 {
			name = c.m.rows[mod(sel, n)].Name
		}
		if seen[name] {
			continue
		}
		seen[name] = true
		out = append(out, row{name, fit(r.Seq, target), r.Comment})
	}
	return out
}

func cutoffOf(k int) (quarters int, value float64) {
	q := cutoffQuarters[mod(k, len(cutoffQuarters))]
	return q, float64(q) / 4
}

// step executes one operation. It returns executed=false when the operation was drawn out
// (a corner that neither the documentation nor the pinned tests define).
func (c *runCtx) step(op opRec) (executed bool, err error) {
	c.curOp = op.Op
	m := c.m
	n := len(m.rows)
	l := m.length()
	coll := m.collided()
	switch op.Op {

	case "add":
		name := op.s(0)
		byExisting := false
		if op.n(0) >= 0 && n > 0 {
			name = m.rows[mod(op.n(0), n)].Name
			byExisting = true
		}
		var seq string
		switch mod(op.n(1), 3) {
		case 0:
			seq = op.s(1)
			if !m.bag && l >= 0 {
				seq = fit(op.s(1), l)
			}
		case 1:
			seq = op.s(1)
			if n > 0 {
				seq = m.rows[mod(op.n(2), n)].Seq
			}
		case 2:
			seq = op.s(1)
			if !m.bag && l >= 0 {
				t := l + op.n(3)
				if t < 0 || t == l {
					t = l + 1
				}
				seq = fit(op.s(1), t)
			}
		}
		st, either := m.classifyAdd(name, seq)
		if st == addUnmodelled {
			return c.skip("add", "colliding-rows-disagree")
		}
		var e error
		if op.b(0) {
			e = c.sb.AddSequenceChar(name, []uint8(seq), op.s(2))
		} else {
			e = c.sb.AddSequence(name, seq, op.s(2))
		}
		what := fmt.Sprintf("AddSequence(%q,%q) policy %d", name, seq, m.policy)
		switch st {
		case addAdded:
			if err = c.checkErr(what, e, wantNoErr); err != nil {
				return true, err
			}
			wasEmpty := n == 0
			m.doAdd(name, seq, op.s(2))
			if wasEmpty && c.emptied {
				c.invalidations++
				c.o.Class("inv:emptied>add")
			}
			if byExisting && c.nameEdited {
				c.invalidations++
				c.o.Class("inv:rename>add-existing-name")
			}
			if c.widthEdited && !m.bag {
				c.invalidations++
				c.o.Class("inv:column-edit>add")
			}
			c.o.Class("add:added")
		case addIgnored:
			w := wantNoErr
			if either {
				w = wantEither
			}
			if err = c.checkErr(what, e, w); err != nil {
				return true, err
			}
			c.o.Class("add:ignored-policy-%d", m.policy)
		case addRejected:
			if err = c.checkErr(what+" (wrong length)", e, wantErr); err != nil {
				return true, err
			}
			c.o.Class("add:rejected-wrong-length")
			if c.widthEdited {
				c.invalidations++
				c.o.Class("inv:column-edit>rejected-add")
			}
			// the main loop verifies that the state is unchanged
		}
		return true, nil

	case "append":
		if m.bag {
			return c.skip("append", "not-an-alignment")
		}
		if n > 14 {
			return c.skip("append", "size-bound")
		}
		target := l
		if l < 0 {
			target = 0
			if len(op.Rows) > 0 {
				target = len(op.Rows[0].Seq)
			}
		} else if op.b(0) {
			target = l + op.n(len(op.Rows))
			if target < 0 || target == l {
				target = l + 1
			}
		}
		rows := c.otherRows(op, target)
		other := align.NewAlign(m.alphabet)
		for _, r := range rows {
			if e := other.AddSequence(r.Name, r.Seq, r.Comment); e != nil {
				return true, fmt.Errorf("harness: cannot build the alignment to append: %v", e)
			}
		}
		// model: insert each row in order, stop at the first rejected one
		want := wantNoErr
		sim := m.clone()
		for _, r := range rows {
			st, either := sim.classifyAdd(r.Name, r.Seq)
			if st == addUnmodelled {
				return c.skip("append", "colliding-rows-disagree")
			}
			if st == addRejected {
				want = wantErr
				break
			}
			if st == addIgnored && either && want == wantNoErr {
				want = wantEither
			}
			if st == addAdded {
				sim.doAdd(r.Name, r.Seq, r.Comment)
			}
		}
		e := c.al().Append(other)
		if err = c.checkErr(fmt.Sprintf("Append(%s)", showRows(rows)), e, want); err != nil {
			return true, err
		}
		if len(sim.rows) > n && n == 0 && c.emptied {
			c.invalidations++
			c.o.Class("inv:emptied>append")
		}
		if want == wantErr {
			c.o.Class("append:rejected")
		}
		m.rows = sim.rows
		return true, nil

	case "concat":
		if m.bag {
			return c.skip("concat", "not-an-alignment")
		}
		if coll {
			return c.skip("concat", "name-collision")
		}
		if n == 0 || len(op.Rows) == 0 {
			// Concat documents nothing for an empty side (never-filled receiver: Length() is -1)
			return c.skip("concat", "empty-side")
		}
		if n > 14 || l > 40 {
			return c.skip("concat", "size-bound")
		}
		rows := c.otherRows(op, len(op.Rows[0].Seq))
		lc := len(rows[0].Seq)
		alpha := m.alphabet
		if op.b(0) {
			alpha = align.NUCLEOTIDS
			if m.alphabet == align.NUCLEOTIDS {
				alpha = align.AMINOACIDS
			}
		}
		other := align.NewAlign(alpha)
		for _, r := range rows {
			if e := other.AddSequence(r.Name, r.Seq, r.Comment); e != nil {
				return true, fmt.Errorf("harness: cannot build the alignment to concatenate: %v", e)
			}
		}
		e := c.al().Concat(other)
		what := fmt.Sprintf("Concat(%s)", showRows(rows))
		if alpha != m.alphabet {
			if err = c.checkErr(what+" different alphabets", e, wantErr); err != nil {
				return true, err
			}
			c.o.Class("concat:alphabet-error")
			c.afterError()
			return true, nil
		}
		if err = c.checkErr(what, e, wantNoErr); err != nil {
			return true, err
		}
		inOther := map[string]string{}
		for _, r := range rows {
			inOther[r.Name] = r.Seq
		}
		var out []row
		for _, r := range m.rows {
			if s, ok := inOther[r.Name]; ok {
				out = append(out, row{r.Name, r.Seq + s, r.Comment})
			} else {
				out = append(out, row{r.Name, r.Seq + strings.Repeat("-", lc), r.Comment})
			}
		}
		for _, r := range rows {
			if !m.has(r.Name) {
				out = append(out, row{r.Name, strings.Repeat("-", l) + r.Seq, r.Comment})
			}
		}
		m.rows = out
		if c.nameEdited {
			c.invalidations++
			c.o.Class("inv:rename>concat")
		}
		return true, nil

	case "rename":
		nm := map[string]string{}
		for k := 0; 2*k+1 < len(op.N) || 2*k+1 < len(op.S); k++ {
			from, to := op.s(2*k), op.s(2*k+1)
			if op.n(2*k) >= 0 && n > 0 {
				from = m.rows[mod(op.n(2*k), n)].Name
			}
			if op.n(2*k+1) >= 0 && n > 0 {
				to = m.rows[mod(op.n(2*k+1), n)].Name
			}
			nm[from] = to
		}
		c.sb.Rename(nm)
		changed := false
		for i, r := range m.rows {
			if to, ok := nm[r.Name]; ok {
				if to != r.Name {
					changed = true
				}
				m.rows[i].Name = to
			}
		}
		c.noteRename(changed, coll)
		return true, nil

	case "renameregexp":
		rule := rxMenu[mod(op.n(0), len(rxMenu))]
		nm := map[string]string{}
		e := c.sb.RenameRegexp(rule.re, rule.repl, nm)
		what := fmt.Sprintf("RenameRegexp(%q,%q)", rule.re, rule.repl)
		if _, ok := rxApply(rule, "x"); !ok {
			if err = c.checkErr(what+" malformed expression", e, wantErr); err != nil {
				return true, err
			}
			c.afterError()
			return true, nil
		}
		if err = c.checkErr(what, e, wantNoErr); err != nil {
			return true, err
		}
		changed := false
		for i, r := range m.rows {
			to, _ := rxApply(rule, r.Name)
			if got, ok := nm[r.Name]; !ok || (got != to && !coll) {
				return true, fmt.Errorf("%s: name map holds %q->%q,%v, expected %q", what, r.Name, got, ok, to)
			}
			if to != r.Name {
				changed = true
			}
			m.rows[i].Name = to
		}
		c.noteRename(changed, coll)
		return true, nil

	case "addid":
		c.sb.AppendSeqIdentifier(op.s(0), op.b(0))
		for i, r := range m.rows {
			if op.b(0) {
				m.rows[i].Name = r.Name + op.s(0)
			} else {
				m.rows[i].Name = op.s(0) + r.Name
			}
		}
		c.noteRename(op.s(0) != "" && n > 0, coll)
		return true, nil

	case "cleannames":
		var nm map[string]string
		if !op.b(0) {
			nm = map[string]string{}
		}
		c.sb.CleanNames(nm)
		changed := false
		for i, r := range m.rows {
			to := cleanName(r.Name)
			if nm != nil {
				if got, ok := nm[r.Name]; !ok || (got != to && !coll) {
					return true, fmt.Errorf("CleanNames: name map holds %q->%q,%v, expected %q", r.Name, got, ok, to)
				}
			}
			if to != r.Name {
				changed = true
			}
			m.rows[i].Name = to
		}
		c.noteRename(changed, coll)
		return true, nil

	case "trimnames":
		return c.trimNames(op)

	case "trimnamesauto":
		return c.trimNamesAuto(op)

	case "sort":
		if coll {
			return c.skip("sort", "name-collision")
		}
		c.sb.Sort()
		m.rows = sortedRows(m.rows)
		if c.nameEdited {
			c.invalidations++
			c.o.Class("inv:rename>sort")
		}
		return true, nil

	case "shuffle":
		if coll {
			// which of several rows sharing a name the name designates after a reordering is not
			// defined (the name index keeps its row, GetSequenceIdByName finds the first in the new order)
			return c.skip("shuffle", "name-collision")
		}
		rand.Seed(op.Seed)
		c.sb.ShuffleSequences()
		got := snapshot(c.sb)
		if e := isPermutation(got, m.rows); e != nil {
			return true, fmt.Errorf("ShuffleSequences: %v\n got : %s\n was : %s", e, showRows(got), showRows(m.rows))
		}
		m.rows = got
		return true, nil

	case "filterlength":
		if coll {
			return c.skip("filterlength", "name-collision")
		}
		min, max := op.n(0), op.n(1)
		if op.n(2) == 1 && n > 0 {
			a, b := len(m.rows[mod(op.n(0), n)].Seq), len(m.rows[mod(op.n(1), n)].Seq)
			if a > b {
				a, b = b, a
			}
			min, max = a, b
		}
		var out []row
		for _, r := range m.rows {
			if (min < 0 || len(r.Seq) >= min) && (max < 0 || len(r.Seq) <= max) {
				out = append(out, r)
			}
		}
		e := c.sb.FilterLength(min, max)
		if err = c.checkErr(fmt.Sprintf("FilterLength(%d,%d)", min, max), e, wantNoErr); err != nil {
			return true, err
		}
		if min >= 0 && max >= 0 {
			c.o.Class("filterlength:both-bounds")
			if len(out) > 0 && len(out) < n {
				c.invalidations++
				c.o.Class("inv:filter-both-bounds-effective")
			}
		}
		c.noteShrink(len(out))
		m.rows = out
		return true, nil

	case "dedup":
		if coll {
			return c.skip("dedup", "name-collision")
		}
		nAsGap := op.b(0)
		// the wildcard that counts as a gap: N for nucleotides, X for proteins; with an unknown alphabet
		// the documentation designates none: every choice (none, N, X, both) is accepted. Whether the lower
		// case wildcard counts too is left open as well. The first reading is the preferred one.
		wild := []string{"N"}
		switch {
		case !nAsGap:
			wild = []string{""}
		case m.alphabet == align.AMINOACIDS:
			wild = []string{"X"}
		case m.alphabet != align.NUCLEOTIDS:
			wild = []string{"", "N", "X", "NX"}
		}
		groupsFor := func(w string, lowerToo bool) ([]row, [][]string) {
			var out []row
			var groups [][]string
			pos := map[string]int{}
			for _, r := range m.rows {
				k := r.Seq
				for i := 0; i < len(w); i++ {
					k = strings.ReplaceAll(k, w[i:i+1], "-")
					if lowerToo {
						k = strings.ReplaceAll(k, asciiLower(w[i:i+1]), "-")
					}
				}
				if g, ok := pos[k]; ok {
					groups[g] = append(groups[g], r.Name)
				} else {
					pos[k] = len(groups)
					groups = append(groups, []string{r.Name})
					out = append(out, r)
				}
			}
			return out, groups
		}
		id, e := c.sb.Deduplicate(nAsGap)
		if err = c.checkErr("Deduplicate", e, wantNoErr); err != nil {
			return true, err
		}
		got := snapshot(c.sb)
		out, groups := groupsFor(wild[0], false)
		matched := false
	readings:
		for wi, w := range wild {
			for _, lowerToo := range []bool{false, true} {
				o2, g2 := groupsFor(w, lowerToo)
				if sameRows(got, o2) && sameGroups(id, g2) {
					if wi > 0 || lowerToo {
						c.o.Ambiguous++
					}
					out, matched = o2, true
					break readings
				}
				if w == "" {
					break
				}
			}
		}
		if !matched {
			return true, fmt.Errorf("Deduplicate(nAsGap=%v, alphabet %d)\n got : %s groups %v\n want: %s groups %v\n from: %s", nAsGap, m.alphabet, showRows(got), id, showRows(out), groups, showRows(m.rows))
		}
		m.rows = out
		return true, nil

	case "rmgapseqs", "rmcharseqs":
		if m.bag {
			return c.skip(op.Op, "not-an-alignment")
		}
		if coll {
			return c.skip(op.Op, "name-collision")
		}
		q, cut := cutoffOf(op.n(0))
		cs := charSel{chars: "-", aa: m.alphabet == align.AMINOACIDS}
		var removed int
		if op.Op == "rmgapseqs" {
			cs.ignoreN = op.b(0)
			removed = c.al().RemoveGapSeqs(cut, cs.ignoreN)
		} else {
			ch := op.s(0)
			if ch == "" {
				ch = "A"
			}
			cs.chars = ch[:1]
			cs.ignoreCase, cs.ignoreGaps, cs.ignoreN = op.b(0), op.b(1), op.b(2)
			removed = c.al().RemoveCharacterSeqs(ch[0], cut, cs.ignoreCase, cs.ignoreGaps, cs.ignoreN)
		}
		got := snapshot(c.sb)
		var out []row
	seqReadings:
		for ai, aa := range m.wildcardReadings() { // N/n or X/x "depending on alphabet": both under an unknown one
			cs.aa = aa
			for _, zz := range []bool{true, false} {
				out = nil
				for _, r := range m.rows {
					cnt, tot := cs.counts(r.Seq)
					if !reaches(cnt, tot, q, zz) {
						out = append(out, r)
					}
				}
				if sameRows(got, out) {
					if !zz || ai > 0 {
						c.o.Ambiguous++
					}
					break seqReadings
				}
			}
		}
		if !sameRows(got, out) {
			return true, fmt.Errorf("%s(cutoff %.2f, %+v)\n got : %s\n want: %s\n from: %s", op.Op, cut, cs, showRows(got), showRows(out), showRows(m.rows))
		}
		if removed != n-len(out) {
			return true, fmt.Errorf("%s returns %d removed sequences, %d were removed", op.Op, removed, n-len(out))
		}
		c.noteShrink(len(out))
		m.rows = out
		return true, nil

	case "rmgapsites", "rmcharsites", "rmmajsites":
		if m.bag {
			return c.skip(op.Op, "not-an-alignment")
		}
		if n == 0 {
			return c.skip(op.Op, "empty")
		}
		q, cut := cutoffOf(op.n(0))
		cs := charSel{chars: "-", aa: m.alphabet == align.AMINOACIDS}
		ends := op.b(0)
		var kept, rm []int
		var first, last int
		if op.Op == "rmgapsites" {
			first, last, kept, rm = c.al().RemoveGapSites(cut, ends)
		} else if op.Op == "rmmajsites" {
			// the ignore flags (and their "except if only gaps/Ns" clause) belong to C12: they are
			// passed only when the alignment holds no gap / no N, i.e. when they cannot matter
			all := ""
			for _, r := range m.rows {
				all += r.Seq
			}
			ig := op.b(1) && !strings.Contains(all, "-")
			in := op.b(2) && !strings.ContainsAny(all, "NnXx")
			first, last, kept, rm = c.al().RemoveMajorityCharacterSites(cut, ends, ig, in)
		} else {
			cs.chars = op.s(0)
			if cs.chars == "" {
				cs.chars = "A"
			}
			cs.ignoreCase, cs.ignoreGaps, cs.ignoreN, cs.reverse = op.b(1), op.b(2), op.b(3), op.b(4)
			first, last, kept, rm = c.al().RemoveCharacterSites([]uint8(cs.chars), cut, ends, cs.ignoreCase, cs.ignoreGaps, cs.ignoreN, cs.reverse)
		}
		got := snapshot(c.sb)
		var out []row
		var keep []bool
		var wantFirst, wantLast int
		ok := false
		readings := []int{0, 1}
		if op.Op == "rmmajsites" && (q < 0 || q > 4) {
			// documented "otherwise set to 0" (every site removed); the majority variant leaves an out of
			// range cutoff as it is and removes nothing (C12/FINDINGS.md): both accepted here
			readings = append(readings, 2)
		}
		if aas := m.wildcardReadings(); len(aas) > 1 && cs.ignoreN {
			readings = append(readings, 10, 11) // the same two readings with X/x as the wildcard
		}
		for _, reading := range readings {
			cs.aa = m.alphabet == align.AMINOACIDS
			if reading >= 10 {
				cs.aa = true
				reading -= 10
			}
			zz := reading == 0
			hit := make([]bool, l)
			for j := 0; j < l; j++ {
				cnt, tot := cs.counts(column(m.rows, j))
				if op.Op == "rmmajsites" {
					// occurrences of the most abundant character of the site; whether upper and
					// lower case count as one character is not documented: zz = together
					col := column(m.rows, j)
					if zz {
						col = asciiUpper(col)
					}
					occ := map[byte]int{}
					cnt, tot = 0, len(col)
					for k := 0; k < len(col); k++ {
						occ[col[k]]++
						if occ[col[k]] > cnt {
							cnt = occ[col[k]]
						}
					}
				}
				hit[j] = reaches(cnt, tot, q, zz) && reading != 2
			}
			wantFirst, wantLast = 0, 0
			for wantFirst < l && hit[wantFirst] {
				wantFirst++
			}
			for wantLast < l && hit[l-1-wantLast] {
				wantLast++
			}
			keep = make([]bool, l)
			for j := 0; j < l; j++ {
				keep[j] = !hit[j]
				if ends && j >= wantFirst && j < l-wantLast {
					keep[j] = true
				}
			}
			out = keepColumns(m.rows, keep)
			if sameRows(got, out) {
				ok = true
				if !zz {
					c.o.Ambiguous++
				}
				break
			}
		}
		if !ok {
			return true, fmt.Errorf("%s(cutoff %.2f, ends %v, %+v)\n got : %s\n want: %s\n from: %s", op.Op, cut, ends, cs, showRows(got), showRows(out), showRows(m.rows))
		}
		var wk, wr []int
		for j := 0; j < l; j++ {
			if keep[j] {
				wk = append(wk, j)
			} else {
				wr = append(wr, j)
			}
		}
		if !sameInts(kept, wk) || !sameInts(rm, wr) {
			return true, fmt.Errorf("%s: kept %v removed %v, expected kept %v removed %v", op.Op, kept, rm, wk, wr)
		}
		if first != wantFirst || last != wantLast {
			return true, fmt.Errorf("%s: reports %d leading and %d trailing removed sites, expected %d and %d", op.Op, first, last, wantFirst, wantLast)
		}
		if len(wr) > 0 {
			c.widthEdited = true
			c.invalidations++
			c.o.Class("inv:column-edit>Length")
		}
		m.rows = out
		return true, nil

	case "translate":
		return c.translate(op)

	case "revcomp", "revcompsome":
		valid := m.alphabet == align.NUCLEOTIDS
		target := map[int]bool{}
		var names []string
		if op.Op == "revcomp" {
			for i := range m.rows {
				target[i] = true
			}
		} else {
			for k := 0; k < len(op.N); k++ {
				name := op.s(k)
				if op.n(k) >= 0 && n > 0 {
					name = m.rows[mod(op.n(k), n)].Name
				}
				names = append(names, name)
			}
			d := m.dups()
			for _, name := range names {
				if d[name] {
					return c.skip("revcompsome", "name-collision")
				}
			}
		}
		out := append([]row(nil), m.rows...)
		apply := func(i int) {
			rc, ok := revComp(out[i].Seq)
			if !ok {
				valid = false
				return
			}
			out[i].Seq = rc
		}
		if op.Op == "revcomp" {
			for i := range out {
				apply(i)
			}
		} else {
			for _, name := range names {
				if i := m.indexOf(name); i >= 0 {
					apply(i)
				}
			}
		}
		var e error
		if op.Op == "revcomp" {
			e = c.sb.ReverseComplement()
		} else {
			e = c.sb.ReverseComplementSequences(names...)
		}
		if !valid {
			if err = c.checkErr(op.Op+" on a set that is not nucleotidic", e, wantErr); err != nil {
				return true, err
			}
			c.afterError()
			return true, nil
		}
		if err = c.checkErr(op.Op, e, wantNoErr); err != nil {
			return true, err
		}
		m.rows = out
		if op.Op == "revcompsome" && c.nameEdited {
			c.invalidations++
			c.o.Class("inv:rename>by-name-edit")
		}
		return true, nil

	case "toupper":
		c.sb.ToUpper()
		for i := range m.rows {
			m.rows[i].Seq = asciiUpper(m.rows[i].Seq)
		}
		return true, nil

	case "tolower":
		c.sb.ToLower()
		for i := range m.rows {
			m.rows[i].Seq = asciiLower(m.rows[i].Seq)
		}
		return true, nil

	case "trimseqs":
		if m.bag {
			return c.skip("trimseqs", "not-an-alignment")
		}
		size := op.n(0)
		if op.n(1) == 1 {
			size = l - mod(op.n(0), 4)
		}
		e := c.al().TrimSequences(size, op.b(0))
		what := fmt.Sprintf("TrimSequences(%d,%v) on length %d", size, op.b(0), l)
		if n == 0 {
			// Length() is -1: nothing to trim, error or not is left open
			if err = c.checkErr(what, e, wantEither); err != nil {
				return true, err
			}
			return true, nil
		}
		if size < 0 || size >= l {
			if err = c.checkErr(what, e, wantErr); err != nil {
				return true, err
			}
			c.o.Class("trimseqs:rejected")
			c.afterError()
			return true, nil
		}
		if err = c.checkErr(what, e, wantNoErr); err != nil {
			return true, err
		}
		for i, r := range m.rows {
			if op.b(0) {
				m.rows[i].Seq = r.Seq[size:]
			} else {
				m.rows[i].Seq = r.Seq[:l-size]
			}
		}
		if size > 0 {
			c.widthEdited = true
			c.invalidations++
			c.o.Class("inv:column-edit>Length")
		}
		return true, nil

	case "compress":
		if m.bag {
			return c.skip("compress", "not-an-alignment")
		}
		if n == 0 {
			// nothing documented for a container without rows
			return c.skip("compress", "empty")
		}
		w := c.al().Compress()
		got := snapshot(c.sb)
		// documented: identical sites removed, number of occurrences returned, order may change
		cnt := map[string]int{}
		for j := 0; j < l; j++ {
			cnt[column(m.rows, j)]++
		}
		if len(got) != n {
			return true, fmt.Errorf("Compress changed the number of rows: %s", showRows(got))
		}
		gl := 0
		if n > 0 {
			gl = len(got[0].Seq)
		}
		for i, r := range got {
			if r.Name != m.rows[i].Name || len(r.Seq) != gl {
				return true, fmt.Errorf("Compress: row %d is %q/%d residues, expected name %q and %d residues", i, r.Name, len(r.Seq), m.rows[i].Name, gl)
			}
		}
		if gl != len(cnt) || len(w) != len(cnt) {
			return true, fmt.Errorf("Compress: %d sites and %d weights for %d distinct patterns\n got : %s\n from: %s", gl, len(w), len(cnt), showRows(got), showRows(m.rows))
		}
		seen := map[string]bool{}
		for j := 0; j < gl; j++ {
			p := column(got, j)
			if cnt[p] == 0 || seen[p] || w[j] != cnt[p] {
				return true, fmt.Errorf("Compress: site %d is pattern %q with weight %d; pattern occurs %d times in the input (repeated: %v)", j, p, w[j], cnt[p], seen[p])
			}
			seen[p] = true
		}
		if gl != l {
			c.widthEdited = true
			c.invalidations++
			c.o.Class("inv:column-edit>Length")
		}
		for i := range got {
			got[i].Comment = m.rows[i].Comment
		}
		m.rows = got
		return true, nil

	case "replace":
		return c.replace(op)

	case "clone":
		if coll {
			return c.skip("clone", "name-collision")
		}
		var cl align.SeqBag
		var e error
		asBag := m.bag || op.b(0)
		if asBag {
			cl, e = c.sb.CloneSeqBag()
		} else {
			cl, e = c.al().Clone()
		}
		if err = c.checkErr("Clone", e, wantNoErr); err != nil {
			return true, err
		}
		if cl == nil {
			return true, fmt.Errorf("Clone returned nil")
		}
		if e := observe(c.sb, m); e != nil {
			return true, fmt.Errorf("the original changed while being cloned: %v", e)
		}
		if _, isAl := cl.(align.Alignment); isAl == asBag {
			return true, fmt.Errorf("Clone returns an object of the other kind (alignment=%v)", isAl)
		}
		c.srcSb, c.srcM, c.srcStep = c.sb, m.clone(), len(c.executed)
		m.bag = asBag
		c.sb = cl
		m.policy = effectivePolicy(policyOf(op.n(0)))
		cl.IgnoreIdentical(policyOf(op.n(0)))
		return true, nil

	case "sample":
		if coll {
			return c.skip("sample", "name-collision")
		}
		nb := op.n(0)
		if op.n(1) == 1 {
			nb = n - mod(op.n(0), 3)
		}
		rand.Seed(op.Seed)
		var smp align.SeqBag
		var e error
		if m.bag {
			smp, e = c.sb.SampleSeqBag(nb)
		} else {
			var a align.Alignment
			a, e = c.al().Sample(nb)
			if a != nil {
				smp = a
			}
		}
		what := fmt.Sprintf("Sample(%d) of %d", nb, n)
		if nb < 1 || nb > n {
			if err = c.checkErr(what, e, wantErr); err != nil {
				return true, err
			}
			c.o.Class("sample:rejected")
			c.afterError()
			return true, nil
		}
		if err = c.checkErr(what, e, wantNoErr); err != nil {
			return true, err
		}
		if smp == nil {
			return true, fmt.Errorf("%s returned nil", what)
		}
		got := snapshot(smp)
		if len(got) != nb {
			return true, fmt.Errorf("%s has %d rows: %s", what, len(got), showRows(got))
		}
		seen := map[string]bool{}
		for _, r := range got {
			i := m.indexOf(r.Name)
			if i < 0 || m.rows[i] != r || seen[r.Name] {
				return true, fmt.Errorf("%s: row %q=%q is not a distinct row of the source\n got : %s\n from: %s", what, r.Name, r.Seq, showRows(got), showRows(m.rows))
			}
			seen[r.Name] = true
		}
		c.sb = smp
		m.rows = got
		m.policy = effectivePolicy(policyOf(op.n(2)))
		smp.IgnoreIdentical(policyOf(op.n(2)))
		return true, nil

	case "clear":
		c.sb.Clear()
		c.noteShrink(0)
		m.rows = nil
		return true, nil

	case "setchar":
		i, j := op.n(0), op.n(1)
		if op.n(2) == 0 && n > 0 {
			i = mod(i, n)
			if len(m.rows[i].Seq) > 0 {
				j = mod(j, len(m.rows[i].Seq))
			}
		}
		ch := op.s(0)
		if ch == "" {
			ch = "A"
		}
		e := c.sb.SetSequenceChar(i, j, ch[0])
		what := fmt.Sprintf("SetSequenceChar(%d,%d,%q)", i, j, ch[0])
		if i < 0 || i >= n || j < 0 || j >= len(m.rows[i].Seq) {
			if err = c.checkErr(what+" out of range", e, wantErr); err != nil {
				return true, err
			}
			c.o.Class("setchar:rejected")
			c.afterError()
			return true, nil
		}
		if err = c.checkErr(what, e, wantNoErr); err != nil {
			return true, err
		}
		b := []byte(m.rows[i].Seq)
		b[j] = ch[0]
		m.rows[i].Seq = string(b)
		return true, nil

	case "replacechar":
		if m.bag {
			return c.skip("replacechar", "not-an-alignment")
		}
		name := op.s(1)
		if op.n(0) >= 0 && n > 0 {
			name = m.rows[mod(op.n(0), n)].Name
		}
		if m.dups()[name] {
			return c.skip("replacechar", "name-collision")
		}
		j := op.n(1)
		if op.n(2) == 0 && l > 0 {
			j = mod(j, l)
		}
		ch := op.s(0)
		if ch == "" {
			ch = "A"
		}
		e := c.al().ReplaceChar(name, j, ch[0])
		what := fmt.Sprintf("ReplaceChar(%q,%d,%q)", name, j, ch[0])
		i := m.indexOf(name)
		if i < 0 || j < 0 || j >= l {
			if err = c.checkErr(what+" unknown name or site outside", e, wantErr); err != nil {
				return true, err
			}
			c.o.Class("replacechar:rejected")
			c.afterError()
			return true, nil
		}
		if err = c.checkErr(what, e, wantNoErr); err != nil {
			return true, err
		}
		b := []byte(m.rows[i].Seq)
		b[j] = ch[0]
		m.rows[i].Seq = string(b)
		if c.nameEdited {
			c.invalidations++
			c.o.Class("inv:rename>by-name-edit")
		}
		return true, nil

	case "unalign":
		if coll {
			return c.skip("unalign", "name-collision")
		}
		un := c.sb.Unalign()
		if un == nil {
			return true, fmt.Errorf("Unalign returned nil")
		}
		if e := observe(c.sb, m); e != nil {
			return true, fmt.Errorf("Unalign modified its receiver: %v", e)
		}
		if _, isAl := un.(align.Alignment); isAl {
			return true, fmt.Errorf("Unalign returns an alignment")
		}
		c.srcSb, c.srcM, c.srcStep = c.sb, m.clone(), len(c.executed)
		for i, r := range m.rows {
			m.rows[i].Seq = strings.ReplaceAll(r.Seq, "-", "")
		}
		m.bag = true
		c.sb = un
		m.policy = effectivePolicy(policyOf(op.n(0)))
		un.IgnoreIdentical(policyOf(op.n(0)))
		return true, nil

	case "autoalphabet":
		return c.autoAlphabet(op)

	case "codonalign":
		return c.codonAlign(op)

	case "identical":
		// Identical doc: same number of sequences and each sequence has a sequence of the same name and
		// the same residues in the other set; the order may differ
		if coll {
			return c.skip("identical", "name-collision")
		}
		comp := append([]row(nil), m.rows...)
		for i, j := 0, len(comp)-1; i < j; i, j = i+1, j-1 {
			comp[i], comp[j] = comp[j], comp[i]
		}
		want := true
		k := mod(op.n(1), n)
		switch mode := mod(op.n(0), 5); {
		case mode == 1 && n > 0 && len(comp[k].Seq) > 0:
			b := []byte(comp[k].Seq)
			b[mod(op.n(2), len(b))] ^= 0x20 // another case of the same letter, or another character
			comp[k].Seq = string(b)
			want = false
		case mode == 2 && n > 0:
			comp[k].Name += "'"
			want = false
		case mode == 3 && n > 0:
			comp = append(comp[:k], comp[k+1:]...)
			want = false
		case mode == 4:
			comp = append(comp, row{Name: absentProbe, Seq: "A"})
			want = false
		}
		other := align.NewSeqBag(m.alphabet)
		for _, r := range comp {
			other.AddSequence(r.Name, r.Seq, "")
		}
		if got := c.sb.Identical(other); got != want {
			return true, fmt.Errorf("Identical(%s) = %v, expected %v (receiver %s)", showRows(comp), got, want, showRows(m.rows))
		}
		if c.nameEdited {
			c.invalidations++
			c.o.Class("inv:rename>identical")
		}
		c.o.Class("identical=%v", want)
		return true, nil

	case "setalphabet":
		req := []int{align.NUCLEOTIDS, align.AMINOACIDS, align.BOTH, align.UNKNOWN, 9}[mod(op.n(0), 5)]
		e := c.sb.SetAlphabet(req)
		what := fmt.Sprintf("SetAlphabet(%d) on %s", req, showRows(m.rows))
		if req != align.NUCLEOTIDS && req != align.AMINOACIDS {
			if err = c.checkErr(what+" (not an alphabet a container can have)", e, wantErr); err != nil {
				return true, err
			}
			c.afterError()
			return true, nil
		}
		// succeeds iff the content is compatible with the requested alphabet
		nts, aas := alphabetReadings(m.rows)
		compat := nts
		if req == align.AMINOACIDS {
			compat = aas
		}
		switch {
		case len(compat) == 2:
			c.o.Ambiguous++
			if e == nil {
				m.alphabet = req
			} else {
				c.afterError()
			}
		case compat[0]:
			if err = c.checkErr(what, e, wantNoErr); err != nil {
				return true, err
			}
			m.alphabet = req
		default:
			if err = c.checkErr(what+" (content not compatible)", e, wantErr); err != nil {
				return true, err
			}
			c.o.Class("setalphabet:rejected")
			c.afterError()
		}
		return true, nil

	case "setpolicy":
		c.sb.IgnoreIdentical(policyOf(op.n(0)))
		m.policy = effectivePolicy(policyOf(op.n(0)))
		return true, nil
	}
	return false, fmt.Errorf("harness: unknown operation %q", op.Op)
}

func (c *runCtx) noteRename(changed, collBefore bool) {
	if changed {
		c.nameEdited = true
		c.invalidations++ // the comparison that follows looks the new and the old names up
		c.o.Class("inv:rename>by-name-lookup")
	}
	if !collBefore && c.m.collided() {
		c.o.Class("collision-created")
		c.o.Class("collision-created-by=%s", c.curOp)
	}
}

func (c *runCtx) noteShrink(after int) {
	if len(c.m.rows) > 0 && after == 0 {
		c.emptied = true
		c.o.Class("emptied")
	}
}

func isPermutation(got, was []row) error {
	if len(got) != len(was) {
		return fmt.Errorf("%d rows became %d", len(was), len(got))
	}
	a := append([]row(nil), got...)
	b := append([]row(nil), was...)
	less := func(x []row) func(i, j int) bool {
		return func(i, j int) bool {
			if x[i].Name != x[j].Name {
				return x[i].Name < x[j].Name
			}
			if x[i].Seq != x[j].Seq {
				return x[i].Seq < x[j].Seq
			}
			return x[i].Comment < x[j].Comment
		}
	}
	sort.Slice(a, less(a))
	sort.Slice(b, less(b))
	if !sameRows(a, b) {
		return fmt.Errorf("not a permutation of the rows")
	}
	return nil
}

func sameInts(a, b []int) bool {
	if len(a) != len(b) {
		return false
	}
	for i := range a {
		if a[i] != b[i] {
			return false
		}
	}
	return true
}

func sameGroups(a, b [][]string) bool {
	if len(a) != len(b) {
		return false
	}
	for i := range a {
		if len(a[i]) != len(b[i]) {
			return false
		}
		for j := range a[i] {
			if a[i][j] != b[i][j] {
				return false
			}
		}
	}
	return true
}

// ---- TrimNames ----------------------------------------------------------------------------------

// prepopulated name map of TrimNames / TrimNamesAuto: entries old name -> short name
func (c *runCtx) prepopulated(op opRec, from int) map[string]string {
	nm := map[string]string{}
	n := len(c.m.rows)
	for k := 0; k < op.n(from); k++ {
		old := op.s(2 * k)
		if sel := op.n(from + 1 + k); sel >= 0 && n > 0 {
			old = c.m.rows[mod(sel, n)].Name
		}
		if short := op.s(2*k + 1); short != "" {
			nm[old] = short
		}
	}
	return nm
}

func (c *runCtx) trimNames(op opRec) (bool, error) {
	m := c.m
	n := len(m.rows)
	size := op.n(0)
	nm := c.prepopulated(op, 1)
	given := map[string]string{}
	for k, v := range nm {
		given[k] = v
	}
	before := append([]row(nil), m.rows...)
	collBefore := m.collided()
	what := fmt.Sprintf("TrimNames(size %d, map %v)", size, given)
	// documented (doc comment, docs/commands/trim.md and its example Seq0000 -> S01 for -n 3): names
	// are shortened to size characters, the last two being a two digit identifier that makes them
	// unique; the map receives old name -> new name; names already in the map are reused.
	// Not documented: the treatment of ':' and '_', the padding of names shorter than size-2, and the
	// sizes for which the call is refused. Those cases are judged on structure only.
	precise := size >= 4
	for _, r := range m.rows {
		if _, ok := given[r.Name]; ok {
			continue
		}
		if strings.ContainsAny(r.Name, ":_") || len(r.Name) < size-2 {
			precise = false
		}
	}
	e := c.sb.TrimNames(nm, size)
	if e != nil {
		if precise && n <= 99 {
			return true, fmt.Errorf("%s: unexpected error %v", what, e)
		}
		c.o.Ambiguous++
		c.o.Class("trimnames:refused")
		c.afterError()
		return true, nil
	}
	got := snapshot(c.sb)
	if len(got) != n {
		return true, fmt.Errorf("%s changed the number of rows: %s", what, showRows(got))
	}
	used := map[string]bool{}
	for _, v := range given {
		used[v] = true
	}
	assigned := map[string]string{}
	changed := false
	for i, r := range before {
		g := got[i]
		if g.Seq != r.Seq || g.Comment != r.Comment {
			return true, fmt.Errorf("%s changed the residues of row %d: %q -> %q", what, i, r.Seq, g.Seq)
		}
		want, fixed := given[r.Name]
		if !fixed {
			want, fixed = assigned[r.Name]
		}
		if fixed {
			if g.Name != want {
				return true, fmt.Errorf("%s: row %q renamed %q, the map says %q", what, r.Name, g.Name, want)
			}
		} else {
			if precise {
				prefix := r.Name[:size-2]
				id := 1
				for used[fmt.Sprintf("%s%02d", prefix, id)] {
					id++
				}
				want = fmt.Sprintf("%s%02d", prefix, id)
				if g.Name != want {
					return true, fmt.Errorf("%s: row %q renamed %q, expected %q\n got : %s", what, r.Name, g.Name, want, showRows(got))
				}
			} else {
				c.o.Ambiguous++
				if used[g.Name] {
					return true, fmt.Errorf("%s: new name %q given twice\n got : %s\n from: %s", what, g.Name, showRows(got), showRows(before))
				}
				// a name that needs no padding is cut to exactly size characters; how a shorter
				// name is padded is not documented ("it will add 000 at the end"): at most size
				stripped := strings.NewReplacer(":", "", "_", "").Replace(r.Name)
				if size >= 2 && (len(g.Name) > size || (len(stripped) >= size-2 && len(r.Name) >= size-2 && len(g.Name) != size && !strings.ContainsAny(r.Name, ":_"))) {
					return true, fmt.Errorf("%s: new name %q has %d characters", what, g.Name, len(g.Name))
				}
			}
			used[g.Name] = true
			assigned[r.Name] = g.Name
		}
		if v, ok := nm[r.Name]; !ok || v != g.Name {
			return true, fmt.Errorf("%s: the name map holds %q->%q,%v but the row is now %q", what, r.Name, v, ok, g.Name)
		}
		if g.Name != r.Name {
			changed = true
		}
		m.rows[i].Name = g.Name
	}
	c.noteRename(changed, collBefore)
	if precise {
		c.o.Class("trimnames:precise")
	} else {
		c.o.Class("trimnames:structural")
	}
	return true, nil
}

func (c *runCtx) trimNamesAuto(op opRec) (bool, error) {
	m := c.m
	n := len(m.rows)
	start := op.n(0)
	if start < 0 {
		start = 0
	}
	curid := start
	nm := c.prepopulated(op, 1)
	given := map[string]string{}
	for k, v := range nm {
		given[k] = v
	}
	before := append([]row(nil), m.rows...)
	collBefore := m.collided()
	e := c.sb.TrimNamesAuto(nm, &curid)
	what := fmt.Sprintf("TrimNamesAuto(curid %d, map %v)", start, given)
	if err := c.checkErr(what, e, wantNoErr); err != nil {
		return true, err
	}
	// documented (cmd/name.go: names generated with the pattern "S000<i>"; doc comment: the map is
	// updated, curid is the identifier of the next name and is incremented): new names are 'S'
	// followed by the decimal identifier (number of leading zeros not specified), in row order
	got := snapshot(c.sb)
	if len(got) != n {
		return true, fmt.Errorf("%s changed the number of rows: %s", what, showRows(got))
	}
	next := start
	assigned := map[string]string{}
	changed := false
	for i, r := range before {
		g := got[i]
		if g.Seq != r.Seq || g.Comment != r.Comment {
			return true, fmt.Errorf("%s changed the residues of row %d", what, i)
		}
		want, fixed := given[r.Name]
		if !fixed {
			want, fixed = assigned[r.Name]
		}
		if fixed {
			if g.Name != want {
				return true, fmt.Errorf("%s: row %q renamed %q, the map says %q", what, r.Name, g.Name, want)
			}
		} else {
			if len(g.Name) < 2 || g.Name[0] != 'S' {
				return true, fmt.Errorf("%s: generated name %q is not S<number>", what, g.Name)
			}
			v, perr := strconv.Atoi(g.Name[1:])
			if perr != nil || strings.ContainsAny(g.Name[1:], "+- ") || v != next {
				return true, fmt.Errorf("%s: generated name %q, expected identifier %d\n got : %s", what, g.Name, next, showRows(got))
			}
			next++
			assigned[r.Name] = g.Name
		}
		if v, ok := nm[r.Name]; !ok || v != g.Name {
			return true, fmt.Errorf("%s: the name map holds %q->%q,%v but the row is now %q", what, r.Name, v, ok, g.Name)
		}
		if g.Name != r.Name {
			changed = true
		}
		m.rows[i].Name = g.Name
	}
	if curid != next {
		return true, fmt.Errorf("%s: curid is %d after generating identifiers %d..%d", what, curid, start, next-1)
	}
	c.noteRename(changed, collBefore)
	return true, nil
}

// ---- AutoAlphabet -----------------------------------------------------------------------------------

// autoAlphabet: DetectAlphabet / AutoAlphabet against the independent classification of the whole
// content, plus the relations that hold for any content-based detection: idempotence, independence
// of the row order (a container built from the same rows in reverse order), and decomposition (an
// alphabet is compatible with the set iff it is compatible with every residue taken alone)
func (c *runCtx) autoAlphabet(op opRec) (bool, error) {
	m := c.m
	acc := acceptableDetect(m.rows)
	det := c.sb.DetectAlphabet()
	if !acc[det] {
		return true, fmt.Errorf("DetectAlphabet()=%d, the residues admit %v (0 aa, 1 nt, 2 both, 3 unknown); rows %s", det, keysOf(acc), showRows(m.rows))
	}
	if len(acc) > 1 {
		c.o.Ambiguous++
	}
	c.sb.AutoAlphabet()
	a := c.sb.Alphabet()
	if a != autoOf(det) {
		return true, fmt.Errorf("AutoAlphabet sets %d although DetectAlphabet()=%d; rows %s", a, det, showRows(m.rows))
	}
	c.sb.AutoAlphabet()
	if c.sb.Alphabet() != a {
		return true, fmt.Errorf("AutoAlphabet is not idempotent: %d then %d; rows %s", a, c.sb.Alphabet(), showRows(m.rows))
	}
	// same rows, reverse order, fresh container
	rev := newContainer(true, align.UNKNOWN)
	for i := len(m.rows) - 1; i >= 0; i-- {
		rev.AddSequence(fmt.Sprintf("r%d", i), m.rows[i].Seq, "")
	}
	if d := rev.DetectAlphabet(); d != det {
		return true, fmt.Errorf("DetectAlphabet()=%d, but %d for the same rows in reverse order; rows %s", det, d, showRows(m.rows))
	}
	// residue by residue
	isnt, isaa := true, true
	seen := map[byte]bool{}
	for _, r := range m.rows {
		for i := 0; i < len(r.Seq); i++ {
			ch := r.Seq[i]
			if seen[ch] {
				continue
			}
			seen[ch] = true
			one := newContainer(true, align.UNKNOWN)
			one.AddSequence("x", string(ch), "")
			switch one.DetectAlphabet() {
			case align.NUCLEOTIDS:
				isaa = false
			case align.AMINOACIDS:
				isnt = false
			case align.UNKNOWN:
				isnt, isaa = false, false
			}
		}
	}
	if want := detectCode(isnt, isaa); want != det {
		return true, fmt.Errorf("DetectAlphabet()=%d for the set, but its residues taken one by one give %d; rows %s", det, want, showRows(m.rows))
	}
	m.alphabet = a
	c.o.Class("autoalphabet=%d", a)
	if len(seen) > 0 {
		c.o.Class("autoalphabet:detected=%d", det)
	}
	return true, nil
}

func keysOf(m map[int]bool) []int {
	var k []int
	for v := range m {
		k = append(k, v)
	}
	sort.Ints(k)
	return k
}

// ---- CodonAlign -------------------------------------------------------------------------------------

// codonAlign: CodonAlign looks the nucleotide sequence of every row up BY NAME in another set and
// returns a new alignment (doc comment: error if the receiver is not amino acids or the set not
// nucleotides; gaps are added where the protein has gaps; at most two trailing bases are dropped;
// a nucleotide sequence that is shorter, or longer by more than two, is an error; a name that is
// absent from the set is an error). The receiver must stay as it is.
func (c *runCtx) codonAlign(op opRec) (bool, error) {
	m := c.m
	if m.bag {
		return c.skip("codonalign", "not-an-alignment")
	}
	if m.collided() {
		return c.skip("codonalign", "name-collision")
	}
	n := len(m.rows)
	extra := []int{0, 0, 1, 2, 3, 5, -1, -3}[mod(op.n(0), 8)]
	victim := mod(op.n(2), n)
	omit := -1
	if op.n(1) >= 0 && n > 0 {
		omit = mod(op.n(1), n)
	}
	ntAlpha := align.NUCLEOTIDS
	if op.b(0) {
		ntAlpha = align.AMINOACIDS
	}
	nts := align.NewSeqBag(ntAlpha)
	valid := m.alphabet == align.AMINOACIDS && ntAlpha == align.NUCLEOTIDS
	var want []row
	for i := n - 1; i >= 0; i-- { // the set is filled in another order than the alignment
		r := m.rows[i]
		need := 3 * (len(r.Seq) - strings.Count(r.Seq, "-"))
		l := need
		if i == victim {
			l += extra
			if l < 0 {
				l = 0
			}
			if l < need || l > need+2 {
				valid = false
			}
		}
		if i == omit {
			valid = false
			continue
		}
		nts.AddSequence(r.Name, fit(op.s(0), l), "")
	}
	for _, r := range m.rows {
		nt := fit(op.s(0), 3*len(r.Seq))
		var b strings.Builder
		k := 0
		for j := 0; j < len(r.Seq); j++ {
			if r.Seq[j] == '-' {
				b.WriteString("---")
			} else if k+3 <= len(nt) {
				b.WriteString(nt[k : k+3])
				k += 3
			}
		}
		want = append(want, row{r.Name, b.String(), r.Comment})
	}
	res, e := c.al().CodonAlign(nts)
	what := fmt.Sprintf("CodonAlign(extra %d on row %d, omitted row %d, set alphabet %d) on %s", extra, victim, omit, ntAlpha, showRows(m.rows))
	if !valid {
		if err := c.checkErr(what, e, wantErr); err != nil {
			return true, err
		}
		c.o.Class("codonalign:rejected")
		c.afterError()
		return true, nil
	}
	if err := c.checkErr(what, e, wantNoErr); err != nil {
		return true, err
	}
	if res == nil {
		return true, fmt.Errorf("%s returned nil", what)
	}
	rm := &model{rows: want, alphabet: align.NUCLEOTIDS, policy: align.IGNORE_NONE}
	if e := observe(res, rm); e != nil {
		return true, fmt.Errorf("%s: result: %v", what, e)
	}
	if c.nameEdited {
		c.invalidations++
		c.o.Class("inv:rename>codonalign")
	}
	c.o.Class("codonalign:done")
	return true, nil
}

// ---- Translate ----------------------------------------------------------------------------------

func (c *runCtx) translate(op opRec) (bool, error) {
	m := c.m
	n := len(m.rows)
	phase, code := op.n(0), op.n(1)
	if phase == -1 && !m.bag {
		// three-frame translation of an alignment gives rows of three lengths: drawn out (DESIGN 3)
		return c.skip("translate", "three-frames-on-alignment")
	}
	if m.collided() {
		return c.skip("translate", "name-collision")
	}
	if phase < -1 || phase > 2 {
		return c.skip("translate", "phase-outside-documented-range")
	}
	if n > 14 {
		return c.skip("translate", "size-bound")
	}
	minLen := 3 + phase
	if phase == -1 {
		minLen = 5
	}
	valid := code >= 0 && code <= 2 && m.alphabet == align.NUCLEOTIDS
	for _, r := range m.rows {
		if len(r.Seq) < minLen {
			valid = false
		}
		for i := 0; i < len(r.Seq); i++ {
			if !couldBeNt(r.Seq[i]) {
				valid = false
			}
		}
	}
	e := c.sb.Translate(phase, code)
	what := fmt.Sprintf("Translate(phase %d, code %d)", phase, code)
	if !valid {
		if err := c.checkErr(what+" on a set that cannot be translated", e, wantErr); err != nil {
			return true, err
		}
		c.o.Class("translate:rejected")
		c.afterError()
		return true, nil
	}
	if err := c.checkErr(what, e, wantNoErr); err != nil {
		return true, err
	}
	type exp struct {
		name    string
		pat     []byte
		comment string
	}
	var want []exp
	for _, r := range m.rows {
		if phase >= 0 {
			want = append(want, exp{r.Name, translatePattern(r.Seq, phase, code), r.Comment})
		} else {
			for p := 0; p < 3; p++ {
				want = append(want, exp{fmt.Sprintf("%s_%d", r.Name, p), translatePattern(r.Seq, p, code), r.Comment})
			}
		}
	}
	got := snapshot(c.sb)
	if len(got) != len(want) {
		return true, fmt.Errorf("%s gives %d rows, expected %d\n got : %s\n from: %s", what, len(got), len(want), showRows(got), showRows(m.rows))
	}
	both := true
	for i, w := range want {
		if got[i].Name != w.name || got[i].Comment != w.comment || !matchesPattern(got[i].Seq, w.pat) {
			return true, fmt.Errorf("%s row %d is %q=%q, expected %q=%q (0 = not judged here)\n from: %s", what, i, got[i].Name, got[i].Seq, w.name, string(w.pat), showRows(m.rows))
		}
		for k := 0; k < len(got[i].Seq); k++ {
			if !couldBeNt(got[i].Seq[k]) {
				both = false
			}
		}
	}
	// "replaced with aminoacid sequences": the alphabet becomes amino acids; the implementation
	// re-detects it, and a peptide made of letters that are also nucleotide codes is detected as
	// nucleotides. Both are accepted when the residues are compatible with both alphabets.
	a := c.sb.Alphabet()
	if a != align.AMINOACIDS {
		if !(both && a == align.NUCLEOTIDS) {
			return true, fmt.Errorf("%s: alphabet is %d afterwards, rows %s", what, a, showRows(got))
		}
		c.o.Ambiguous++
	}
	m.alphabet = a
	if !m.bag && n > 0 && len(got[0].Seq) != len(m.rows[0].Seq) {
		c.widthEdited = true
		c.invalidations++
		c.o.Class("inv:column-edit>Length")
	}
	m.rows = got
	c.o.Class("translate:phase=%d", phase)
	return true, nil
}

// ---- Replace ------------------------------------------------------------------------------------

type replRule struct {
	old, new string
	regex    bool
}

var replMenu = []replRule{
	{"A", "C", false}, {"AC", "GT", false}, {"-", "N", false}, {"[CG]", "S", true}, {"(A)(C)", "$2$1", true},
	{"-+", "", true}, {"A", "", false}, {"(", "x", true}, {"(", "x", false}, {"a", "A", false}, {"N", "-", false}, {"T", "TT", false},
}

func (c *runCtx) replace(op opRec) (bool, error) {
	m := c.m
	rule := replMenu[mod(op.n(0), len(replMenu))]
	e := c.sb.Replace(rule.old, rule.new, rule.regex)
	what := fmt.Sprintf("Replace(%q,%q,regex=%v)", rule.old, rule.new, rule.regex)
	var re *regexp.Regexp
	if rule.regex {
		var cerr error
		if re, cerr = regexp.Compile(rule.old); cerr != nil {
			if err := c.checkErr(what+" malformed expression", e, wantErr); err != nil {
				return true, err
			}
			c.afterError()
			return true, nil
		}
	}
	out := append([]row(nil), m.rows...)
	lengthChanged := false
	for i, r := range out {
		if rule.regex {
			out[i].Seq = re.ReplaceAllString(r.Seq, rule.new)
		} else {
			out[i].Seq = strings.ReplaceAll(r.Seq, rule.old, rule.new)
		}
		if len(out[i].Seq) != len(r.Seq) {
			lengthChanged = true
		}
	}
	if !m.bag && lengthChanged {
		// documented: an error, and the alignment is changed anyway
		if err := c.checkErr(what+" changing the length of aligned sequences", e, wantErr); err != nil {
			return true, err
		}
		c.o.Class("replace:length-error")
		c.afterError()
		return true, nil
	}
	if err := c.checkErr(what, e, wantNoErr); err != nil {
		return true, err
	}
	m.rows = out
	return true, nil
}
