// C01 - command-line tier (DESIGN 2.6): pipelines of 2-4 goalign commands, each re-reading the
// previous command's output, compared with the same list-of-rows model. Flag semantics from
// docs/commands/*.md. Output is read with the independent FASTA reader of internal/cli.
package c01

import (
	"fmt"
	"os"
	"path/filepath"
	"regexp"
	"sort"
	"strconv"
	"strings"
	"testing"

	"github.com/evolbioinfo/goalign/align"
	"pgregory.net/rapid"
	"verif/internal/cli"
	"verif/internal/gen"
	"verif/internal/pbt"
)

type cliCmd struct {
	Cmd  string    `json:"cmd"`
	N    []int     `json:"n,omitempty"`
	S    []string  `json:"s,omitempty"`
	B    []bool    `json:"b,omitempty"`
	Rows []gen.Row `json:"rows,omitempty"`
}

func (o cliCmd) n(i int) int {
	if i < len(o.N) {
		return o.N[i]
	}
	return 0
}
func (o cliCmd) s(i int) string {
	if i < len(o.S) {
		return o.S[i]
	}
	return ""
}
func (o cliCmd) b(i int) bool {
	if i < len(o.B) {
		return o.B[i]
	}
	return false
}

type cliCase struct {
	Rows   []gen.Row  `json:"rows"`
	Policy int        `json:"ignore_identical"` // value of --ignore-identical given to every command
	Layout cli.Layout `json:"layout"`           // presentation of the FASTA files the harness writes
	Stale  bool       `json:"stale,omitempty"`  // map/log output files exist beforehand with longer stale content
	// Unaligned: the rows have different lengths and every command gets --unaligned (sequence sets)
	Unaligned bool `json:"unaligned,omitempty"`
	// Stdin: inputs that may come from standard input do (the alignment without -i; the name file of subset as "-f -")
	Stdin bool     `json:"stdin,omitempty"`
	Cmds  []cliCmd `json:"cmds"`
}

// names that FASTA can carry unchanged (no leading/trailing blank, no tab) including the special
// characters that --clean-names rewrites and names that collide with the _0001 series
var cliNames = []string{
	"s0", "s1", "s2", "s3", "s4", "a", "b", "ab", "ab01", "x", "x_0001", "x_0002", "7", "Seq0001", "Seq0002", "a b", "n:1",
	"n_1", "q|r", "t(1)", "u.v;w", "S1", "S01", "abcdefghijk", "same", "A", "abcd", "abce",
}

const cliChars = "ACGTACGTN--"

var cliRx = []rxRule{{`^s`, "t"}, {`\d+`, "N"}, {`(.)$`, "$1$1"}, {`_`, ""}, {`.*`, "same"}, {`^`, "p_"}, {`(`, "x"}, {`Seq(\d+)`, "New$1"}, {`_0001$`, ""}, {`[ab]`, "x"}}

var cliCmds = []string{"rename-map", "rename-map", "rename-regexp", "rename-clean", "addid", "sort", "trim-name", "trim-auto", "subset", "subset", "dedup", "clean-seqs", "append", "append", "concat", "identical", "reformat-clean"}

// commands that accept --unaligned (sequence sets); the others need an alignment
var cliUnaligned = map[string]bool{"rename-map": true, "rename-regexp": true, "rename-clean": true, "addid": true, "sort": true,
	"trim-name": true, "trim-auto": true, "subset": true, "dedup": true, "reformat-clean": true}

func genCLI(t *rapid.T) cliCase {
	var c cliCase
	c.Unaligned = rapid.IntRange(0, 3).Draw(t, "unaligned") == 0
	c.Stdin = rapid.IntRange(0, 3).Draw(t, "stdin") == 0
	n := rapid.IntRange(1, 6).Draw(t, "rows")
	l := rapid.SampledFrom([]int{1, 2, 3, 5, 8, 12, 81}).Draw(t, "L")
	dupNames := rapid.IntRange(0, 3).Draw(t, "dupnames") == 0
	for i := 0; i < n; i++ {
		name := rapid.SampledFrom(cliNames).Draw(t, "name")
		if !dupNames {
			for k := 0; k < len(c.Rows); k++ {
				if c.Rows[k].Name == name {
					name = fmt.Sprintf("r%d", i)
				}
			}
		}
		li := l
		if c.Unaligned {
			li = rapid.IntRange(1, 12).Draw(t, "Li")
		}
		seq := gen.SeqN(t, cliChars, li)
		if i > 0 && rapid.IntRange(0, 3).Draw(t, "repeat") == 0 {
			seq = c.Rows[rapid.IntRange(0, i-1).Draw(t, "of")].Seq
		}
		c.Rows = append(c.Rows, gen.Row{Name: name, Seq: seq})
	}
	c.Policy = rapid.IntRange(0, 2).Draw(t, "policy")
	c.Layout = cli.DrawLayout(t)
	c.Stale = rapid.IntRange(0, 2).Draw(t, "stale") == 0
	k := rapid.IntRange(2, 4).Draw(t, "ncmds")
	for i := 0; i < k; i++ {
		c.Cmds = append(c.Cmds, drawCLICmd(t))
	}
	return c
}

func drawCLICmd(t *rapid.T) cliCmd {
	o := cliCmd{Cmd: rapid.SampledFrom(cliCmds).Draw(t, "cmd")}
	b := func(label string) bool { return rapid.Bool().Draw(t, label) }
	in := func(lo, hi int, label string) int { return rapid.IntRange(lo, hi).Draw(t, label) }
	name := func(label string) string { return rapid.SampledFrom(cliNames).Draw(t, label) }
	switch o.Cmd {
	case "rename-map":
		k := in(1, 3, "pairs")
		for i := 0; i < k; i++ {
			o.N = append(o.N, drawSel(t, "from"), rapid.SampledFrom([]int{-1, -1, -1, 0, 1, 2}).Draw(t, "to"))
			o.S = append(o.S, name("fromname"), name("toname"))
		}
		o.B = []bool{b("revert")}
	case "rename-regexp":
		o.N = []int{in(0, len(cliRx)-1, "rule")}
		o.B = []bool{b("mapfile")}
	case "rename-clean":
		o.B = []bool{b("mapfile")}
	case "addid":
		o.S = []string{rapid.SampledFrom([]string{"p_", "_0001", "x", "_s", "id|", ""}).Draw(t, "id")}
		o.B = []bool{b("right")}
	case "trim-name":
		o.N = []int{rapid.SampledFrom([]int{4, 4, 5, 6, 3, 2, 1, 12}).Draw(t, "size")}
		o.B = []bool{b("mapfile")}
	case "trim-auto":
		o.B = []bool{b("mapfile")}
	case "subset":
		o.N = []int{in(0, 3, "mode")} // 0 arguments, 1 name file, 2 indices, 3 regexp
		k := in(1, 3, "k")
		for i := 0; i < k; i++ {
			o.N = append(o.N, drawSel(t, "which"))
			o.S = append(o.S, name("name"))
		}
		o.B = []bool{b("revert"), b("commas")}
	case "dedup":
		o.B = []bool{b("nasgap"), b("log")}
	case "clean-seqs":
		o.N = []int{in(0, len(cutoffQuarters)-1, "cutoff")}
		o.B = []bool{b("ignoren"), b("ignorecase")}
		o.S = []string{rapid.SampledFrom([]string{"", "", "GAP", "-", "N", "A", "a", "t"}).Draw(t, "char")}
	case "identical":
		o.N = []int{in(0, 4, "mode"), in(0, 7, "row"), in(0, 11, "site")}
	case "reformat-clean":
		o.N = []int{in(0, 3, "format")}
	case "append", "concat":
		k := in(1, 3, "k")
		l := in(1, 6, "len")
		for i := 0; i < k; i++ {
			o.Rows = append(o.Rows, gen.Row{Name: name("name"), Seq: gen.SeqN(t, cliChars, l)})
			o.N = append(o.N, drawSel(t, "sel"))
		}
		o.B = []bool{in(0, 3, "wronglength") == 0}
	}
	return o
}

// readModel is what reading a FASTA file means: every record is inserted in order under the policy
// of --ignore-identical; no record, a record without name or without residues is an error
func readModel(rows []row, policy int) (*model, bool) { return readModelKind(rows, policy, false) }

// readModelKind: bag = the file is read as a set of unaligned sequences (--unaligned): no length rule
func readModelKind(rows []row, policy int, bag bool) (*model, bool) {
	m := &model{alphabet: align.NUCLEOTIDS, policy: policy, bag: bag}
	if len(rows) == 0 {
		return m, false
	}
	for _, r := range rows {
		if r.Name == "" || r.Seq == "" {
			return m, false
		}
		st, _ := m.classifyAdd(r.Name, r.Seq)
		switch st {
		case addAdded:
			m.doAdd(r.Name, r.Seq, "")
		case addRejected, addUnmodelled:
			return m, false
		}
	}
	return m, true
}

func toRows(in []gen.Row) []row {
	out := make([]row, len(in))
	for i, r := range in {
		out[i] = row{Name: r.Name, Seq: r.Seq}
	}
	return out
}

func fastaOf(rows []row) string {
	var sb strings.Builder
	for _, r := range rows {
		sb.WriteString(">" + r.Name + "\n" + r.Seq + "\n")
	}
	return sb.String()
}

func readPairs(path string) (map[string]string, error) {
	b, err := os.ReadFile(path)
	if err != nil {
		return nil, err
	}
	out := map[string]string{}
	for _, line := range strings.Split(string(b), "\n") {
		if line == "" {
			continue
		}
		f := strings.Split(line, "\t")
		if len(f) != 2 {
			return nil, fmt.Errorf("map file line %q does not have two tab separated fields", line)
		}
		out[f[0]] = f[1]
	}
	return out, nil
}

func TestCLI(t *testing.T) {
	if cli.Binary() == "" {
		t.Skip("no goalign binary")
	}
	dir := cli.TempDir("c01cli")
	pbt.Run(t, genCLI, func(c cliCase) (pbt.Outcome, error) { return checkCLI(dir, c) })
}

func checkCLI(dir string, c cliCase) (o pbt.Outcome, err error) {
	// content of the file the next command reads, as rows (what was printed by the previous command)
	file := toRows(c.Rows)
	content := cli.FastaLayout(c.Rows, c.Layout)
	fresh := func(path string) { // an output file: absent, or present with stale content
		os.Remove(path)
		if c.Stale {
			cli.StaleFile(path, 40)
		}
	}
	policy := effectivePolicy(c.Policy)
	prev := "start"
	steps := 0
	renamed := false
	for k, cmd := range c.Cmds {
		in := cli.TempFile(dir, ".fa", content)
		m, readable := readModelKind(file, policy, c.Unaligned)
		if c.Unaligned && !cliUnaligned[cmd.Cmd] {
			o.Class("cli-skipped-needs-alignment:%s", cmd.Cmd)
			continue
		}
		n := len(m.rows)
		l := m.length()
		args := []string{}
		wantFail := wantNoErr // exit status != 0 ?
		if !readable {
			wantFail = wantErr
		}
		var mapOut string       // name map written by the command
		var wantMap [][2]string // expected content (as a set)
		structural := false     // names judged on structure, adopted from the output
		var logFile string
		reformatTo := "" // the command prints another format than FASTA: converted back before the comparison
		var wantGroups [][]string
		out := m.clone()
		switch cmd.Cmd {
		case "rename-map":
			var lines []string
			nm := map[string]string{}
			for i := 0; 2*i+1 < len(cmd.S); i++ {
				from, to := cmd.s(2*i), cmd.s(2*i+1)
				if cmd.n(2*i) >= 0 && n > 0 {
					from = m.rows[mod(cmd.n(2*i), n)].Name
				}
				if cmd.n(2*i+1) >= 0 && n > 0 {
					to = m.rows[mod(cmd.n(2*i+1), n)].Name
				}
				if _, dup := nm[from]; dup {
					continue // one line per key: which of two lines wins is not documented
				}
				nm[from] = to
				if cmd.b(0) {
					lines = append(lines, to+"\t"+from)
				} else {
					lines = append(lines, from+"\t"+to)
				}
			}
			if cmd.b(0) {
				// reverted file: the second column is the key; two lines with one key are ambiguous
				seen := map[string]bool{}
				ok := true
				for _, ln := range lines {
					key := strings.Split(ln, "\t")[1]
					if seen[key] {
						ok = false
					}
					seen[key] = true
				}
				if !ok {
					o.Class("cli-corner-avoided:rename-map:two-lines-one-key")
					continue
				}
			}
			mf := cli.TempFile(dir, ".map", strings.Join(lines, "\n")+"\n")
			args = []string{"rename", "-i", in, "-m", mf}
			if cmd.b(0) {
				args = append(args, "-r")
			}
			for i, r := range out.rows {
				if to, ok := nm[r.Name]; ok {
					out.rows[i].Name = to
					renamed = true
				}
			}
		case "rename-regexp":
			rule := cliRx[mod(cmd.n(0), len(cliRx))]
			args = []string{"rename", "-i", in, "--regexp", rule.re, "--replace", rule.repl}
			if cmd.b(0) {
				mapOut = filepath.Join(dir, fmt.Sprintf("map%d_%d.txt", k, len(content)))
				fresh(mapOut)
				args = append(args, "-m", mapOut)
			}
			if _, ok := rxApply(rule, "x"); !ok {
				wantFail = wantErr
				break
			}
			for i, r := range out.rows {
				to, _ := rxApply(rule, r.Name)
				wantMap = append(wantMap, [2]string{r.Name, to})
				out.rows[i].Name = to
				renamed = true
			}
		case "rename-clean":
			args = []string{"rename", "-i", in, "--clean-names"}
			if cmd.b(0) {
				mapOut = filepath.Join(dir, fmt.Sprintf("map%d_%d.txt", k, len(content)))
				fresh(mapOut)
				args = append(args, "-m", mapOut)
			}
			for i, r := range out.rows {
				to := cleanName(r.Name)
				wantMap = append(wantMap, [2]string{r.Name, to})
				out.rows[i].Name = to
			}
			renamed = true
		case "reformat-clean":
			// goalign reformat <format> --clean-names: the CleanNames rule applied before writing, for every
			// reformat sub-command whose output can be read back (paml and tnt have no reader)
			reformatTo = []string{"fasta", "phylip", "nexus", "clustal"}[mod(cmd.n(0), 4)]
			for i, r := range out.rows {
				out.rows[i].Name = cleanName(r.Name)
			}
			if c.Unaligned || out.collided() {
				reformatTo = "fasta" // sequence sets are FASTA only; merged names are not representable elsewhere
			}
			args = []string{"reformat", reformatTo, "-i", in, "--clean-names"}
			renamed = true
		case "addid":
			args = []string{"addid", "-i", in, "-n", cmd.s(0)}
			if cmd.b(0) {
				args = append(args, "-r")
			}
			for i, r := range out.rows {
				if cmd.b(0) {
					out.rows[i].Name = r.Name + cmd.s(0)
				} else {
					out.rows[i].Name = cmd.s(0) + r.Name
				}
			}
			renamed = renamed || cmd.s(0) != ""
		case "sort":
			args = []string{"sort", "-i", in}
			out.rows = sortedRows(out.rows)
			if renamed {
				o.Class("cli-inv:rename>sort")
			}
		case "trim-name":
			size := cmd.n(0)
			args = []string{"trim", "name", "-i", in, "-n", strconv.Itoa(size)}
			if cmd.b(0) {
				mapOut = filepath.Join(dir, fmt.Sprintf("map%d_%d.txt", k, len(content)))
				fresh(mapOut)
				args = append(args, "-m", mapOut)
			}
			precise := size >= 4
			for _, r := range m.rows {
				if strings.ContainsAny(r.Name, ":_") || len(r.Name) < size-2 {
					precise = false
				}
			}
			if !precise {
				structural = true
				if readable {
					wantFail = wantEither
				}
				break
			}
			used := map[string]bool{}
			for i, r := range out.rows {
				id := 1
				for used[fmt.Sprintf("%s%02d", r.Name[:size-2], id)] {
					id++
				}
				to := fmt.Sprintf("%s%02d", r.Name[:size-2], id)
				used[to] = true
				wantMap = append(wantMap, [2]string{r.Name, to})
				out.rows[i].Name = to
			}
			renamed = true
		case "trim-auto":
			args = []string{"trim", "name", "-i", in, "-a"}
			if cmd.b(0) {
				mapOut = filepath.Join(dir, fmt.Sprintf("map%d_%d.txt", k, len(content)))
				fresh(mapOut)
				args = append(args, "-m", mapOut)
			}
			structural = true
			renamed = true
		case "subset":
			mode := mod(cmd.n(0), 4)
			var keys []string
			for i := 0; i < len(cmd.S); i++ {
				name := cmd.s(i)
				sel := cmd.n(i + 1)
				if sel >= 0 && n > 0 {
					name = m.rows[mod(sel, n)].Name
				}
				switch mode {
				case 2:
					if sel < 0 {
						sel = 9
					}
					keys = append(keys, strconv.Itoa(sel))
				case 3:
					keys = append(keys, "^"+regexp.QuoteMeta(name)+"$")
				default:
					keys = append(keys, name)
				}
			}
			match := func(i int, name string) bool {
				for _, key := range keys {
					switch mode {
					case 2:
						if v, _ := strconv.Atoi(key); v == i {
							return true
						}
					case 3:
						if regexp.MustCompile(key).MatchString(name) {
							return true
						}
					default:
						if key == name {
							return true
						}
					}
				}
				return false
			}
			args = []string{"subset", "-i", in}
			if cmd.b(0) {
				args = append(args, "-r")
			}
			switch mode {
			case 2:
				args = append(args, "--indices")
			case 3:
				args = append(args, "-e")
			}
			if mode == 1 {
				sep := "\n"
				if cmd.b(1) {
					sep = ","
				}
				bad := false
				for _, key := range keys {
					if strings.Contains(key, ",") {
						bad = true
					}
				}
				if bad {
					o.Class("cli-corner-avoided:subset:comma-in-name")
					continue
				}
				nf := cli.TempFile(dir, ".names", strings.Join(keys, sep)+"\n")
				args = append(args, "-f", nf)
			} else {
				args = append(args, "--")
				args = append(args, keys...)
			}
			var kept []row
			for i, r := range out.rows {
				if match(i, r.Name) != cmd.b(0) {
					kept = append(kept, r)
				}
			}
			out.rows = kept
			if renamed && mode != 2 {
				o.Class("cli-inv:rename>subset-by-name")
			}
		case "dedup":
			args = []string{"dedup", "-i", in}
			if cmd.b(0) {
				args = append(args, "--n-as-gap")
			}
			if cmd.b(1) {
				logFile = filepath.Join(dir, fmt.Sprintf("log%d_%d.txt", k, len(content)))
				fresh(logFile)
				args = append(args, "-l", logFile)
			}
			pos := map[string]int{}
			var kept []row
			for _, r := range out.rows {
				key := r.Seq
				if cmd.b(0) {
					key = strings.ReplaceAll(key, "N", "-")
				}
				if g, ok := pos[key]; ok {
					wantGroups[g] = append(wantGroups[g], r.Name)
				} else {
					pos[key] = len(wantGroups)
					wantGroups = append(wantGroups, []string{r.Name})
					kept = append(kept, r)
				}
			}
			out.rows = kept
		case "clean-seqs":
			q, cut := cutoffOf(cmd.n(0))
			args = []string{"clean", "seqs", "-i", in, "-q", "--cutoff=" + strconv.FormatFloat(cut, 'f', -1, 64)}
			if cmd.b(0) {
				args = append(args, "--ignore-n")
			}
			cs := charSel{chars: "-", ignoreN: cmd.b(0)}
			// --char: GAP or - (default) or one other character, --ignore-case for it (docs/commands/clean.md)
			if ch := cmd.s(0); ch != "" {
				args = append(args, "--char="+ch)
				if ch != "GAP" && ch != "-" {
					cs.chars = ch
					if cmd.b(1) {
						cs.ignoreCase = true
						args = append(args, "--ignore-case")
					}
				}
			}
			var kept []row
			zeroOfZero := false
			for _, r := range out.rows {
				cnt, tot := cs.counts(r.Seq)
				if tot == 0 && q > 0 && q <= 4 {
					zeroOfZero = true
				}
				if !reaches(cnt, tot, q, true) {
					kept = append(kept, r)
				}
			}
			if zeroOfZero {
				// a sequence made of N only with --ignore-n: 0 of 0, left open by the documentation
				o.Class("cli-corner-avoided:clean-seqs:zero-of-zero")
				continue
			}
			out.rows = kept
		case "identical":
			// goalign identical -i a -c b prints true or false (Identical: same names and residues, any order)
			if !readable || n == 0 {
				continue
			}
			comp := append([]row(nil), m.rows...)
			for i, j := 0, len(comp)-1; i < j; i, j = i+1, j-1 {
				comp[i], comp[j] = comp[j], comp[i]
			}
			wantTrue := true
			kk := mod(cmd.n(1), n)
			switch mod(cmd.n(0), 4) {
			case 1:
				b := []byte(comp[kk].Seq)
				pos := mod(cmd.n(2), len(b))
				if b[pos] == 'A' {
					b[pos] = 'C'
				} else {
					b[pos] = 'A'
				}
				comp[kk].Seq = string(b)
				wantTrue = false
			case 2:
				comp[kk].Name += "z"
				wantTrue = false
			case 3:
				if n > 1 {
					comp = append(comp[:kk], comp[kk+1:]...)
					wantTrue = false
				}
			}
			cf := cli.TempFile(dir, ".fa", fastaOf(comp))
			iargs := []string{"identical", "-i", in, "-c", cf}
			if c.Policy != 0 {
				iargs = append([]string{"--ignore-identical", strconv.Itoa(c.Policy)}, iargs...)
			}
			ir := cli.RunIn(dir, "", iargs...)
			iwhat := fmt.Sprintf("command %d: goalign %s\n input: %s\n compared: %s", k, strings.Join(iargs, " "), showRows(m.rows), showRows(comp))
			if ir.Exit != 0 {
				return o, fmt.Errorf("%s: exit status %d, stderr %q", iwhat, ir.Exit, ir.Stderr)
			}
			if got := strings.TrimSpace(ir.Stdout); got != strconv.FormatBool(wantTrue) {
				return o, fmt.Errorf("%s: prints %q, expected %v", iwhat, ir.Stdout, wantTrue)
			}
			steps++
			o.Class("cli=identical")
			o.Class("cli-identical=%v", wantTrue)
			if renamed {
				o.Class("cli-inv:rename>identical")
			}
			continue
		case "append", "concat":
			if len(cmd.Rows) == 0 {
				continue
			}
			target := len(cmd.Rows[0].Seq)
			if cmd.Cmd == "append" && l >= 0 {
				target = l
				if cmd.b(0) {
					target = l + 1
				}
			}
			var other []row
			for i, r := range cmd.Rows {
				name := r.Name
				if sel := cmd.n(i); sel >= 0 && n > 0 {
					name = m.rows[mod(sel, n)].Name
				}
				other = append(other, row{Name: name, Seq: fit(r.Seq, target)})
			}
			var otherG []gen.Row
			for _, r := range other {
				otherG = append(otherG, gen.Row{Name: r.Name, Seq: r.Seq})
			}
			of := cli.TempFile(dir, ".fa", cli.FastaLayout(otherG, c.Layout))
			args = []string{cmd.Cmd, "-i", in, of}
			om, oreadable := readModel(other, policy)
			if !oreadable {
				wantFail = wantErr
				break
			}
			if cmd.Cmd == "append" {
				for _, r := range om.rows {
					st, either := out.classifyAdd(r.Name, r.Seq)
					if st == addUnmodelled {
						wantFail = wantEither
						break
					}
					if st == addRejected {
						wantFail = wantErr
						break
					}
					if st == addIgnored && either && wantFail == wantNoErr {
						wantFail = wantEither
					}
					if st == addAdded {
						out.doAdd(r.Name, r.Seq, "")
					}
				}
				if renamed {
					o.Class("cli-inv:rename>append")
				}
			} else {
				if n == 0 {
					break
				}
				lc := om.length()
				var res []row
				for _, r := range out.rows {
					if i := om.indexOf(r.Name); i >= 0 {
						res = append(res, row{Name: r.Name, Seq: r.Seq + om.rows[i].Seq})
					} else {
						res = append(res, row{Name: r.Name, Seq: r.Seq + strings.Repeat("-", lc)})
					}
				}
				for _, r := range om.rows {
					if !out.has(r.Name) {
						res = append(res, row{Name: r.Name, Seq: strings.Repeat("-", l) + r.Seq})
					}
				}
				out.rows = res
				if renamed {
					o.Class("cli-inv:rename>concat")
				}
			}
		default:
			return o, fmt.Errorf("harness: unknown command %q", cmd.Cmd)
		}
		if !readable {
			wantFail = wantErr
		}
		full := []string{}
		if c.Policy != 0 || k%2 == 0 {
			full = append(full, "--ignore-identical", strconv.Itoa(c.Policy))
		}
		if c.Unaligned {
			at := 1
			if args[0] == "trim" || args[0] == "reformat" {
				at = 2
			}
			args = append(append(append([]string{}, args[:at]...), "--unaligned"), args[at:]...)
		}
		stdin := ""
		if c.Stdin {
			nameFile := -1
			for i := 0; i+1 < len(args); i++ {
				if args[i] == "-f" {
					nameFile = i + 1
				}
			}
			if nameFile >= 0 {
				// the name file of subset from standard input
				b, rerr := os.ReadFile(args[nameFile])
				if rerr != nil {
					return o, fmt.Errorf("harness: %v", rerr)
				}
				stdin = string(b)
				args[nameFile] = "-"
				o.Class("cli-name-file-from-stdin")
			} else {
				// the alignment from standard input (the default of -i)
				for i := 0; i+1 < len(args); i++ {
					if args[i] == "-i" && args[i+1] == in {
						args = append(append([]string{}, args[:i]...), args[i+2:]...)
						stdin = content
						o.Class("cli-alignment-from-stdin")
						break
					}
				}
			}
		}
		full = append(full, args...)
		r := cli.RunIn(dir, stdin, full...)
		what := fmt.Sprintf("command %d: goalign %s\n input: %s", k, strings.Join(full, " "), showRows(file))
		if r.TimedOut {
			return o, fmt.Errorf("%s: no answer within the time limit", what)
		}
		steps++
		o.Class("cli=%s", cmd.Cmd)
		o.Class("cli-pair=%s>%s", prev, cmd.Cmd)
		prev = cmd.Cmd
		if wantFail == wantErr {
			if r.Exit == 0 {
				return o, fmt.Errorf("%s: exit status 0 although the model predicts an error; stdout %q", what, r.Stdout)
			}
			o.Class("cli-error-exit:%s", cmd.Cmd)
			break
		}
		if r.Exit != 0 {
			if wantFail == wantEither {
				o.Ambiguous++
				o.Class("cli-refused:%s", cmd.Cmd)
				break
			}
			return o, fmt.Errorf("%s: exit status %d, stderr %q", what, r.Exit, r.Stderr)
		}
		if reformatTo != "" && reformatTo != "fasta" {
			flag := map[string]string{"phylip": "-p", "nexus": "-x", "clustal": "-u"}[reformatTo]
			tmp := cli.TempFile(dir, "."+reformatTo, r.Stdout)
			conv := cli.RunIn(dir, "", "reformat", "fasta", flag, "-i", tmp)
			if conv.Exit != 0 {
				return o, fmt.Errorf("%s: the %s output cannot be read back (%q): %q", what, reformatTo, conv.Stderr, r.Stdout)
			}
			r.Stdout = conv.Stdout
			o.Class("cli-reformat-clean=%s", reformatTo)
		} else if reformatTo == "fasta" {
			o.Class("cli-reformat-clean=fasta")
		}
		got, perr := cli.ParseFasta(r.Stdout)
		if perr != nil {
			return o, fmt.Errorf("%s: unreadable output %q: %v", what, r.Stdout, perr)
		}
		gotRows := toRows(got)
		if structural {
			// names are adopted from the output after structural checks
			if len(gotRows) != len(out.rows) {
				return o, fmt.Errorf("%s: %d rows printed, expected %d", what, len(gotRows), len(out.rows))
			}
			seen := map[string]bool{}
			for i, g := range gotRows {
				if g.Seq != out.rows[i].Seq {
					return o, fmt.Errorf("%s: row %d residues %q, expected %q", what, i, g.Seq, out.rows[i].Seq)
				}
				if seen[g.Name] || g.Name == "" {
					return o, fmt.Errorf("%s: new name %q given twice or empty: %s", what, g.Name, showRows(gotRows))
				}
				seen[g.Name] = true
				if cmd.Cmd == "trim-auto" {
					v, e := strconv.Atoi(strings.TrimPrefix(g.Name, "S"))
					if e != nil || !strings.HasPrefix(g.Name, "S") || v != i+1 {
						return o, fmt.Errorf("%s: generated name %q, expected S<%d>", what, g.Name, i+1)
					}
				} else if len(g.Name) > cmd.n(0) && cmd.n(0) >= 2 {
					return o, fmt.Errorf("%s: name %q longer than %d", what, g.Name, cmd.n(0))
				}
				wantMap = append(wantMap, [2]string{out.rows[i].Name, g.Name})
				out.rows[i].Name = g.Name
			}
			o.Ambiguous++
		}
		if !sameRows(gotRows, out.rows) {
			return o, fmt.Errorf("%s\n got : %s\n want: %s", what, showRows(gotRows), showRows(out.rows))
		}
		if mapOut != "" {
			pairs, e := readPairs(mapOut)
			if e != nil {
				return o, fmt.Errorf("%s: name map file: %v", what, e)
			}
			// old names are distinct after reading, so the map is a function
			if len(pairs) != len(wantMap) {
				return o, fmt.Errorf("%s: name map file has %d entries %v, expected %v", what, len(pairs), pairs, wantMap)
			}
			for _, p := range wantMap {
				if v, ok := pairs[p[0]]; !ok || v != p[1] {
					return o, fmt.Errorf("%s: name map file says %q -> %q,%v, expected %q", what, p[0], v, ok, p[1])
				}
			}
			o.Class("cli-mapfile-checked")
		}
		if logFile != "" {
			b, e := os.ReadFile(logFile)
			if e != nil {
				return o, fmt.Errorf("%s: log file: %v", what, e)
			}
			var lines []string
			for _, ln := range strings.Split(string(b), "\n") {
				if ln != "" {
					lines = append(lines, ln)
				}
			}
			var all, multi []string
			for _, g := range wantGroups {
				all = append(all, strings.Join(g, ","))
				if len(g) > 1 {
					multi = append(multi, strings.Join(g, ","))
				}
			}
			if strings.Join(lines, "\n") != strings.Join(all, "\n") {
				// whether groups of one sequence are listed is not documented
				if strings.Join(lines, "\n") != strings.Join(multi, "\n") {
					return o, fmt.Errorf("%s: log of identical sequences %q, expected %q", what, lines, all)
				}
				o.Ambiguous++
			}
			o.Class("cli-dedup-log-checked")
		}
		file = gotRows
		content = r.Stdout
		if len(gotRows) == 0 {
			o.Class("cli-empty-output")
		}
	}
	dup := map[string]bool{}
	hasDup := false
	for _, r := range c.Rows {
		if dup[r.Name] {
			hasDup = true
		}
		dup[r.Name] = true
	}
	if hasDup {
		o.Class("cli-start-duplicate-names")
	}
	o.Class("cli-ignore-identical=%d", c.Policy)
	if !c.Layout.Plain() {
		o.Class("cli-layout-varied")
	}
	if c.Stale {
		o.Class("cli-stale-output-files")
	}
	if c.Unaligned {
		o.Class("cli-unaligned")
	}
	o.Class("cli-commands-run=%d", steps)
	o.NonTrivial = steps >= 2 && renamed
	o.Classes = uniq(o.Classes)
	sort.Strings(o.Classes)
	return o, nil
}
