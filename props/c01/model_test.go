// C01 - reference model: a plain list of (name, sequence, comment) rows with an alphabet and a
// duplicate-name policy. Everything in this file is written from the doc comments of
// align/seqbag.go, align/align.go, docs/commands/*.md and the property statement; nothing here
// calls the container under test.
package c01

import (
	"fmt"
	"regexp"
	"sort"
	"strings"

	"github.com/evolbioinfo/goalign/align"
)

type row struct {
	Name    string `json:"n"`
	Seq     string `json:"s"`
	Comment string `json:"c,omitempty"`
}

type model struct {
	rows     []row
	bag      bool // unaligned sequence set (no length constraint)
	alphabet int  // align.NUCLEOTIDS or align.AMINOACIDS
	policy   int  // align.IGNORE_NONE / IGNORE_NAME / IGNORE_SEQUENCE
	grave    []string
}

func (m *model) clone() *model {
	c := *m
	c.rows = append([]row(nil), m.rows...)
	c.grave = append([]string(nil), m.grave...)
	return &c
}

// length of an alignment: number of columns, -1 when there is no row
func (m *model) length() int {
	if len(m.rows) == 0 {
		return -1
	}
	return len(m.rows[0].Seq)
}

func (m *model) has(name string) bool {
	for _, r := range m.rows {
		if r.Name == name {
			return true
		}
	}
	return false
}

func (m *model) indexOf(name string) int {
	for i, r := range m.rows {
		if r.Name == name {
			return i
		}
	}
	return -1
}

// dups returns the names carried by more than one row
func (m *model) dups() map[string]bool {
	cnt := map[string]int{}
	for _, r := range m.rows {
		cnt[r.Name]++
	}
	d := map[string]bool{}
	for k, v := range cnt {
		if v > 1 {
			d[k] = true
		}
	}
	return d
}

func (m *model) knownAlphabet() bool {
	return m.alphabet == align.NUCLEOTIDS || m.alphabet == align.AMINOACIDS
}

// wildcardReadings: is the "any residue" character X (true) or N (false)? Documented as "N/n (or X/x
// if protein)"; under an unknown alphabet both readings are accepted, N first
func (m *model) wildcardReadings() []bool {
	if m.knownAlphabet() {
		return []bool{m.alphabet == align.AMINOACIDS}
	}
	return []bool{false, true}
}

func (m *model) collided() bool { return len(m.dups()) > 0 }

func (m *model) names() []string {
	out := make([]string, len(m.rows))
	for i, r := range m.rows {
		out[i] = r.Name
	}
	return out
}

func (m *model) rectangular() bool {
	for _, r := range m.rows {
		if len(r.Seq) != len(m.rows[0].Seq) {
			return false
		}
	}
	return true
}

func showRows(rows []row) string {
	var sb strings.Builder
	for _, r := range rows {
		fmt.Fprintf(&sb, "%q=%q", r.Name, r.Seq)
		if r.Comment != "" {
			fmt.Fprintf(&sb, "(%q)", r.Comment)
		}
		sb.WriteByte(' ')
	}
	return sb.String()
}

func sameRows(a, b []row) bool {
	if len(a) != len(b) {
		return false
	}
	for i := range a {
		if a[i] != b[i] {
			return false
		}
	}
	return true
}

// ---- insertion under the three duplicate-name policies ---------------------------------------
//
// IgnoreIdentical doc: IGNORE_NONE does not ignore anything; IGNORE_NAME ignores sequences having
// the same name (keeps the first one whatever their sequence); IGNORE_SEQUENCE ignores sequences
// having the same name and the same sequence. AddSequenceChar doc: if the name already exists a 4
// digit index is added at the end (name_0001, name_0002, ...). Alignment: a sequence whose length
// differs from the alignment's is rejected with an error.

type addStatus int

const (
	addAdded addStatus = iota
	addIgnored
	addRejected
	addUnmodelled // several rows carry the name and they disagree on "same sequence"
)

// classifyAdd tells what inserting (name, seq) means. eitherErr: the documentation allows both an
// error and a silent ignore (same name under IGNORE_NAME but a wrong length).
func (m *model) classifyAdd(name, seq string) (st addStatus, eitherErr bool) {
	same, diff := 0, 0
	for _, r := range m.rows {
		if r.Name == name {
			if r.Seq == seq {
				same++
			} else {
				diff++
			}
		}
	}
	exists := same+diff > 0
	l := m.length()
	wrong := !m.bag && l >= 0 && len(seq) != l
	if exists && m.policy == align.IGNORE_NAME {
		return addIgnored, wrong
	}
	if exists && m.policy == align.IGNORE_SEQUENCE {
		if same > 0 && diff > 0 {
			return addUnmodelled, false
		}
		if same > 0 {
			return addIgnored, false
		}
	}
	if wrong {
		return addRejected, false
	}
	return addAdded, false
}

// doAdd appends the row under the first free name of the series name, name_0001, name_0002...
func (m *model) doAdd(name, seq, comment string) string {
	final := name
	for i := 1; m.has(final); i++ {
		final = fmt.Sprintf("%s_%04d", name, i)
	}
	m.rows = append(m.rows, row{final, seq, comment})
	return final
}

// ---- residues -------------------------------------------------------------------------------

func asciiUpper(s string) string {
	b := []byte(s)
	for i, c := range b {
		if c >= 'a' && c <= 'z' {
			b[i] = c - 32
		}
	}
	return string(b)
}

func asciiLower(s string) string {
	b := []byte(s)
	for i, c := range b {
		if c >= 'A' && c <= 'Z' {
			b[i] = c + 32
		}
	}
	return string(b)
}

// IUPAC complement (IUPAC-IUB 1984 nomenclature), case preserved; '-', '.', '*' fixed; U -> A
var compUpper = map[byte]byte{
	'A': 'T', 'T': 'A', 'U': 'A', 'G': 'C', 'C': 'G', 'Y': 'R', 'R': 'Y', 'S': 'S', 'W': 'W',
	'K': 'M', 'M': 'K', 'B': 'V', 'V': 'B', 'D': 'H', 'H': 'D', 'N': 'N',
}

func complementOf(c byte) (byte, bool) {
	if c == '-' || c == '.' || c == '*' {
		return c, true
	}
	if c >= 'a' && c <= 'z' {
		u, ok := compUpper[c-32]
		return u + 32, ok
	}
	u, ok := compUpper[c]
	return u, ok
}

func revComp(s string) (string, bool) {
	b := make([]byte, len(s))
	for i := 0; i < len(s); i++ {
		c, ok := complementOf(s[i])
		if !ok {
			return "", false
		}
		b[len(s)-1-i] = c
	}
	return string(b), true
}

// NCBI translation tables 1, 2 and 5 in the compact form (goalign codes 0, 1, 2)
const (
	ncbiBase1 = "TTTTTTTTTTTTTTTTCCCCCCCCCCCCCCCCAAAAAAAAAAAAAAAAGGGGGGGGGGGGGGGG"
	ncbiBase2 = "TTTTCCCCAAAAGGGGTTTTCCCCAAAAGGGGTTTTCCCCAAAAGGGGTTTTCCCCAAAAGGGG"
	ncbiBase3 = "TCAGTCAGTCAGTCAGTCAGTCAGTCAGTCAGTCAGTCAGTCAGTCAGTCAGTCAGTCAGTCAG"
)

var ncbiAAs = []string{
	"FFLLSSSSYY**CC*WLLLLPPPPHHQQRRRRIIIMTTTTNNKKSSRRVVVVAAAADDEEGGGG",
	"FFLLSSSSYY**CCWWLLLLPPPPHHQQRRRRIIMMTTTTNNKKSS**VVVVAAAADDEEGGGG",
	"FFLLSSSSYY**CCWWLLLLPPPPHHQQRRRRIIMMTTTTNNKKSSSSVVVVAAAADDEEGGGG",
}

const wild = 0 // a translated residue this check does not judge (C05 does)

// translatePattern translates from offset phase; codons made of A,C,G,T/U only are translated with
// the NCBI table, "---" gives '-', every other codon gives a wildcard (ambiguity codes and partial
// gaps belong to C05).
func translatePattern(s string, phase, code int) []byte {
	out := []byte{}
	for i := phase; i+2 < len(s); i += 3 {
		cod := strings.ReplaceAll(asciiUpper(s[i:i+3]), "U", "T")
		if cod == "---" {
			out = append(out, '-')
			continue
		}
		aa := byte(wild)
		for k := 0; k < 64; k++ {
			if cod[0] == ncbiBase1[k] && cod[1] == ncbiBase2[k] && cod[2] == ncbiBase3[k] {
				aa = ncbiAAs[code][k]
			}
		}
		out = append(out, aa)
	}
	return out
}

func matchesPattern(s string, pat []byte) bool {
	if len(s) != len(pat) {
		return false
	}
	for i := range pat {
		if pat[i] != wild && pat[i] != s[i] {
			return false
		}
	}
	return true
}

// couldBeNt: the residues that the nucleotide alphabet admits (IUPAC codes, U, O, X, gaps and
// specials); used only to know when a translated set is compatible with both alphabets
func couldBeNt(c byte) bool {
	return strings.IndexByte("ACBRG?-.*DKSHMNVXTWYUO", asciiUpper(string(c))[0]) >= 0
}

// ---- names ----------------------------------------------------------------------------------

// cleanName: doc of CleanNames + docs/commands/rename.md: spaces and tabs removed at both ends,
// every run of the special characters \s \t [ ] ( ) ; . , : | replaced by one '-'
func cleanName(s string) string {
	s = strings.Trim(s, " \t\n\r\f\v")
	var b strings.Builder
	in := false
	for i := 0; i < len(s); i++ {
		c := s[i]
		if strings.IndexByte(" \t\n\r\f\v[]();.,:|", c) >= 0 {
			if !in {
				b.WriteByte('-')
			}
			in = true
		} else {
			b.WriteByte(c)
			in = false
		}
	}
	return b.String()
}

type rxRule struct {
	re, repl string
}

// renaming rules for RenameRegexp (Go regular expressions, "$1" groups as docs/commands/rename.md)
var rxMenu = []rxRule{
	{`^s`, "t"}, {`\d+`, "N"}, {`(.)$`, "$1$1"}, {`_`, ""}, {`.*`, "same"}, {`^`, "p_"},
	{`[aeiou]`, ""}, {`(`, "x"}, {`Seq(\d+)`, "New$1"}, {`^(.)(.*)$`, "$2$1"}, {`_0001$`, ""}, {`x`, "x_0001"},
}

func rxApply(rule rxRule, name string) (string, bool) {
	r, err := regexp.Compile(rule.re)
	if err != nil {
		return "", false
	}
	return r.ReplaceAllString(name, rule.repl), true
}

// ---- column helpers -------------------------------------------------------------------------

func column(rows []row, j int) string {
	b := make([]byte, len(rows))
	for i, r := range rows {
		b[i] = r.Seq[j]
	}
	return string(b)
}

func keepColumns(rows []row, keep []bool) []row {
	out := make([]row, len(rows))
	for i, r := range rows {
		b := make([]byte, 0, len(r.Seq))
		for j := 0; j < len(r.Seq); j++ {
			if keep[j] {
				b = append(b, r.Seq[j])
			}
		}
		out[i] = row{r.Name, string(b), r.Comment}
	}
	return out
}

// cutoffs are multiples of 1/4 so that "count >= cutoff*total" is decided in integers; values
// outside [0,1] are documented to mean 0
var cutoffQuarters = []int{-2, 0, 1, 2, 3, 4, 6}

// reaches: the documented removal rule. total==0 with a positive cutoff (0 of 0) is left open by
// the documentation: zeroOfZero says which reading to apply.
func reaches(count, total, quarters int, zeroOfZero bool) bool {
	if quarters < 0 || quarters > 4 {
		quarters = 0
	}
	if quarters == 0 {
		return count > 0
	}
	if total == 0 {
		return zeroOfZero
	}
	return 4*count >= quarters*total
}

type charSel struct {
	chars                           string
	ignoreCase, ignoreGaps, ignoreN bool
	reverse                         bool
	aa                              bool
}

func (cs charSel) counts(cells string) (count, total int) {
	for i := 0; i < len(cells); i++ {
		c := cells[i]
		sel := strings.IndexByte(cs.chars, c) >= 0
		if !sel && cs.ignoreCase {
			sel = strings.IndexByte(asciiLower(cs.chars), asciiLower(string(c))[0]) >= 0
		}
		if cs.reverse {
			sel = !sel
		}
		if sel {
			count++
		}
		wildc := byte('N')
		if cs.aa {
			wildc = 'X'
		}
		if (cs.ignoreGaps && c == '-') || (cs.ignoreN && (c == wildc || c == wildc+32)) {
			continue
		}
		total++
	}
	return
}

// sortedNames: byte-wise lexicographic order, as "sorts the sequences by name" in a Go program
func sortedRows(rows []row) []row {
	out := append([]row(nil), rows...)
	sort.SliceStable(out, func(i, j int) bool { return out[i].Name < out[j].Name })
	return out
}

// ---- alphabet of the content ------------------------------------------------------------------
//
// DetectAlphabet doc: "Detects the alphabets compatible with the alignment: BOTH, NUCLEOTIDS,
// AMINOACIDS or UNKNOWN"; AutoAlphabet "detects and sets alphabet automatically for all the
// sequences" (BOTH is resolved to nucleotides, docs/commands/stats.md example). An alphabet is
// compatible with a set when EVERY residue of EVERY row belongs to it, so the answer is a function of
// the set of residues only: not of the row order, the column order or the case. Which characters
// belong to which alphabet is taken from the IUPAC-IUB nomenclature; characters on which the
// nomenclature and goalign's convention may differ are left open (every reading accepted).

type tri int

const (
	triNo tri = iota
	triYes
	triOpen
)

// residueClass: membership of one residue (case-insensitive) in the nucleotide and in the amino
// acid alphabet
func residueClass(c byte) (nt, aa tri) {
	if c >= 'a' && c <= 'z' {
		c -= 32
	}
	switch {
	case c == '-':
		return triYes, triYes // a gap is a gap in both
	case c == '.' || c == '?':
		return triOpen, triOpen // match / missing characters of some formats
	case c == '*':
		return triOpen, triYes // translation stop
	case strings.IndexByte("ACGT", c) >= 0:
		return triYes, triYes
	case strings.IndexByte("RYSWKMDHVN", c) >= 0:
		return triYes, triYes // IUPAC nucleotide codes that are also among the 20 amino acids
	case c == 'B':
		return triYes, triYes // not A / Asx
	case c == 'U':
		return triYes, triOpen // uracil; selenocysteine in recent amino acid tables only
	case strings.IndexByte("EFILPQ", c) >= 0:
		return triNo, triYes // amino acids that are no nucleotide code
	case c == 'Z':
		return triNo, triYes // Glx
	case c == 'X':
		return triOpen, triYes // any amino acid; used as a masked nucleotide by some tools
	case c == 'O' || c == 'J':
		return triOpen, triOpen // pyrrolysine, Leu/Ile: recent tables only
	}
	return triNo, triNo // digits, punctuation, other bytes
}

// alphabetReadings returns every (isnt, isaa) pair the content admits
func alphabetReadings(rows []row) (nts, aas []bool) {
	nt, aa := triYes, triYes
	for _, r := range rows {
		for i := 0; i < len(r.Seq); i++ {
			n, a := residueClass(r.Seq[i])
			if n == triNo || nt == triNo {
				nt = triNo
			} else if n == triOpen {
				nt = triOpen
			}
			if a == triNo || aa == triNo {
				aa = triNo
			} else if a == triOpen {
				aa = triOpen
			}
		}
	}
	exp := func(t tri) []bool {
		switch t {
		case triNo:
			return []bool{false}
		case triYes:
			return []bool{true}
		}
		return []bool{true, false}
	}
	return exp(nt), exp(aa)
}

func detectCode(isnt, isaa bool) int {
	switch {
	case isnt && isaa:
		return align.BOTH
	case isnt:
		return align.NUCLEOTIDS
	case isaa:
		return align.AMINOACIDS
	}
	return align.UNKNOWN
}

// acceptableDetect lists the values DetectAlphabet may return for the content
func acceptableDetect(rows []row) map[int]bool {
	out := map[int]bool{}
	nts, aas := alphabetReadings(rows)
	for _, n := range nts {
		for _, a := range aas {
			out[detectCode(n, a)] = true
		}
	}
	return out
}

// autoOf: the alphabet AutoAlphabet sets for a detected value
func autoOf(detected int) int {
	if detected == align.BOTH {
		return align.NUCLEOTIDS
	}
	return detected
}
