// C01 - comparison of the full observable state of the container with the model, through every
// access path of the public interface
package c01

import (
	"fmt"

	"github.com/evolbioinfo/goalign/align"
)

// snapshot reads the rows back by index
func snapshot(sb align.SeqBag) []row {
	n := sb.NbSequences()
	rows := make([]row, 0, n)
	for i := 0; i < n; i++ {
		name, _ := sb.GetSequenceNameById(i)
		s, _ := sb.GetSequenceById(i)
		c := ""
		if sq, ok := sb.Sequence(i); ok && sq != nil {
			c = sq.Comment()
		}
		rows = append(rows, row{name, s, c})
	}
	return rows
}

// collisionLookups counts the by-name comparisons made on a name shared by several rows (evidence)
var collisionLookups int

const absentProbe = "\x01no such name\x01"

// observe returns an error as soon as one access path disagrees with the model
func observe(sb align.SeqBag, m *model) error {
	n := sb.NbSequences()
	if n != len(m.rows) {
		return fmt.Errorf("NbSequences()=%d, model has %d rows\n got : %s\n want: %s", n, len(m.rows), showRows(snapshot(sb)), showRows(m.rows))
	}
	if sb.Alphabet() != m.alphabet {
		return fmt.Errorf("Alphabet()=%d, model %d", sb.Alphabet(), m.alphabet)
	}
	if !m.bag {
		al, ok := sb.(align.Alignment)
		if !ok {
			return fmt.Errorf("harness: model is an alignment but the object is not")
		}
		if !m.rectangular() {
			return fmt.Errorf("harness: the model of an alignment is not rectangular: %s", showRows(m.rows))
		}
		if al.Length() != m.length() {
			return fmt.Errorf("Length()=%d, model %d (rows: %s)", al.Length(), m.length(), showRows(snapshot(sb)))
		}
	}
	// ---- by index
	seqObjs := make([]align.Sequence, n)
	for i, r := range m.rows {
		name, ok := sb.GetSequenceNameById(i)
		if !ok || name != r.Name {
			return fmt.Errorf("GetSequenceNameById(%d)=%q,%v want %q\n got : %s\n want: %s", i, name, ok, r.Name, showRows(snapshot(sb)), showRows(m.rows))
		}
		s, ok := sb.GetSequenceById(i)
		if !ok || s != r.Seq {
			return fmt.Errorf("GetSequenceById(%d)=%q,%v want %q (row %q)", i, s, ok, r.Seq, r.Name)
		}
		ch, ok := sb.GetSequenceCharById(i)
		if !ok || string(ch) != r.Seq {
			return fmt.Errorf("GetSequenceCharById(%d)=%q,%v want %q", i, string(ch), ok, r.Seq)
		}
		sq, ok := sb.Sequence(i)
		if !ok || sq == nil {
			return fmt.Errorf("Sequence(%d) absent, model row %q", i, r.Name)
		}
		if sq.Name() != r.Name || sq.Sequence() != r.Seq || sq.Comment() != r.Comment || sq.Length() != len(r.Seq) {
			return fmt.Errorf("Sequence(%d) = (%q,%q,%q,len %d) want (%q,%q,%q)", i, sq.Name(), sq.Sequence(), sq.Comment(), sq.Length(), r.Name, r.Seq, r.Comment)
		}
		seqObjs[i] = sq
		if !m.bag && len(s) != m.length() {
			return fmt.Errorf("row %d has %d residues, Length()=%d", i, len(s), m.length())
		}
	}
	for _, i := range []int{-1, n, n + 3} {
		if _, ok := sb.GetSequenceNameById(i); ok {
			return fmt.Errorf("GetSequenceNameById(%d) present with %d rows", i, n)
		}
		if _, ok := sb.GetSequenceById(i); ok {
			return fmt.Errorf("GetSequenceById(%d) present with %d rows", i, n)
		}
		if _, ok := sb.GetSequenceCharById(i); ok {
			return fmt.Errorf("GetSequenceCharById(%d) present with %d rows", i, n)
		}
		if _, ok := sb.Sequence(i); ok {
			return fmt.Errorf("Sequence(%d) present with %d rows", i, n)
		}
	}
	// ---- by name: resolves to that row (to a row of that name if the caller created a collision)
	byName := map[string][]int{}
	for i, r := range m.rows {
		byName[r.Name] = append(byName[r.Name], i)
	}
	for _, r := range m.rows {
		idx := byName[r.Name]
		if idx[0] < 0 {
			continue // already checked
		}
		name := r.Name
		isOne := func(s string) bool {
			for _, i := range idx {
				if m.rows[i].Seq == s {
					return true
				}
			}
			return false
		}
		isObj := func(q align.Sequence) bool {
			for _, i := range idx {
				if seqObjs[i] == q {
					return true
				}
			}
			return false
		}
		s, ok := sb.GetSequence(name)
		if !ok || !isOne(s) {
			return fmt.Errorf("GetSequence(%q)=%q,%v but the row of that name holds %q (rows: %s)", name, s, ok, m.rows[idx[0]].Seq, showRows(snapshot(sb)))
		}
		ch, ok := sb.GetSequenceChar(name)
		if !ok || !isOne(string(ch)) {
			return fmt.Errorf("GetSequenceChar(%q)=%q,%v but the row of that name holds %q", name, string(ch), ok, m.rows[idx[0]].Seq)
		}
		q, ok := sb.GetSequenceByName(name)
		if !ok || q == nil || q.Name() != name || !isOne(q.Sequence()) {
			return fmt.Errorf("GetSequenceByName(%q) absent or a different row (ok=%v)", name, ok)
		}
		if !isObj(q) {
			return fmt.Errorf("GetSequenceByName(%q) returns an object that is none of the rows reachable by index", name)
		}
		q2, ok := sb.SequenceByName(name)
		if !ok || q2 == nil || q2.Name() != name || !isOne(q2.Sequence()) {
			return fmt.Errorf("SequenceByName(%q) absent or a different row (ok=%v)", name, ok)
		}
		if !isObj(q2) {
			return fmt.Errorf("SequenceByName(%q) returns an object that is none of the rows reachable by index", name)
		}
		id := sb.GetSequenceIdByName(name)
		found := false
		for _, i := range idx {
			if i == id {
				found = true
			}
		}
		if !found {
			return fmt.Errorf("GetSequenceIdByName(%q)=%d, model rows of that name %v", name, id, idx)
		}
		// every by-name access path reaches the SAME row, also when the caller made several rows
		// share the name ("lookup by name, lookup by index and iteration always agree")
		if q != q2 {
			return fmt.Errorf("GetSequenceByName(%q) and SequenceByName(%q) return different rows: %q / %q", name, name, q.Sequence(), q2.Sequence())
		}
		if seqObjs[id] != q {
			return fmt.Errorf("GetSequenceIdByName(%q)=%d (row %q=%q) but GetSequenceByName(%q) is another row of that name (%q); rows: %s", name, id, m.rows[id].Name, m.rows[id].Seq, name, q.Sequence(), showRows(snapshot(sb)))
		}
		if s != q.Sequence() || string(ch) != q.Sequence() {
			return fmt.Errorf("GetSequence(%q)=%q, GetSequenceChar=%q, GetSequenceByName gives %q: not the same row", name, s, string(ch), q.Sequence())
		}
		if len(ch) > 0 && &ch[0] != &q.SequenceChar()[0] {
			return fmt.Errorf("GetSequenceChar(%q) is not the residue array of the row GetSequenceByName(%q) returns", name, name)
		}
		if nm, ok := sb.GetSequenceNameById(id); !ok || nm != name {
			return fmt.Errorf("GetSequenceNameById(GetSequenceIdByName(%q)=%d) = %q,%v", name, id, nm, ok)
		}
		if len(idx) > 1 {
			collisionLookups++
		}
		byName[name] = []int{-1}
	}
	// ---- absent names: a fixed probe and every name that used to be present
	absent := []string{absentProbe}
	for _, g := range m.grave {
		if !m.has(g) {
			absent = append(absent, g)
		}
	}
	for _, name := range absent {
		if s, ok := sb.GetSequence(name); ok {
			return fmt.Errorf("GetSequence(%q)=%q but no row has that name (rows: %s)", name, s, showRows(snapshot(sb)))
		}
		if _, ok := sb.GetSequenceChar(name); ok {
			return fmt.Errorf("GetSequenceChar(%q) present but no row has that name", name)
		}
		if _, ok := sb.GetSequenceByName(name); ok {
			return fmt.Errorf("GetSequenceByName(%q) present but no row has that name", name)
		}
		if _, ok := sb.SequenceByName(name); ok {
			return fmt.Errorf("SequenceByName(%q) present but no row has that name", name)
		}
		if id := sb.GetSequenceIdByName(name); id >= 0 {
			return fmt.Errorf("GetSequenceIdByName(%q)=%d but no row has that name", name, id)
		}
	}
	// ---- iteration
	i := 0
	var ierr error
	sb.Iterate(func(name, s string) bool {
		if i >= n || name != m.rows[i].Name || s != m.rows[i].Seq {
			ierr = fmt.Errorf("Iterate step %d gives (%q,%q), model %s", i, name, s, showRows(m.rows))
			return true
		}
		i++
		return false
	})
	if ierr == nil && i != n {
		ierr = fmt.Errorf("Iterate visits %d rows of %d", i, n)
	}
	if ierr != nil {
		return ierr
	}
	i = 0
	sb.IterateChar(func(name string, s []uint8) bool {
		if i >= n || name != m.rows[i].Name || string(s) != m.rows[i].Seq {
			ierr = fmt.Errorf("IterateChar step %d gives (%q,%q), model %s", i, name, string(s), showRows(m.rows))
			return true
		}
		i++
		return false
	})
	if ierr == nil && i != n {
		ierr = fmt.Errorf("IterateChar visits %d rows of %d", i, n)
	}
	if ierr != nil {
		return ierr
	}
	i = 0
	sb.IterateAll(func(name string, s []uint8, c string) bool {
		if i >= n || name != m.rows[i].Name || string(s) != m.rows[i].Seq || c != m.rows[i].Comment {
			ierr = fmt.Errorf("IterateAll step %d gives (%q,%q,%q), model %s", i, name, string(s), c, showRows(m.rows))
			return true
		}
		i++
		return false
	})
	if ierr == nil && i != n {
		ierr = fmt.Errorf("IterateAll visits %d rows of %d", i, n)
	}
	if ierr != nil {
		return ierr
	}
	all := sb.Sequences()
	if len(all) != n {
		return fmt.Errorf("Sequences() has %d entries for %d rows", len(all), n)
	}
	for k, q := range all {
		if q != seqObjs[k] {
			return fmt.Errorf("Sequences()[%d] is not the row Sequence(%d) returns", k, k)
		}
	}
	k := 0
	for q := range sb.SequencesChan() {
		if k >= n || q != seqObjs[k] {
			return fmt.Errorf("SequencesChan() element %d is not row %d", k, k)
		}
		k++
	}
	if k != n {
		return fmt.Errorf("SequencesChan() delivers %d rows of %d", k, n)
	}
	return nil
}
