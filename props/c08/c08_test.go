// C08 - Distances depend only on column content, not on order, strand or threads
package c08

import (
	"errors"
	"fmt"
	"io"
	"log"
	"math"
	"os"
	"runtime"
	"strings"
	"sync/atomic"
	"testing"
	"time"

	"github.com/evolbioinfo/goalign/align"
	"github.com/evolbioinfo/goalign/distance/dna"
	"pgregory.net/rapid"
	"verif/internal/cli"
	"verif/internal/distrun"
	"verif/internal/gen"
	"verif/internal/pbt"
	"verif/internal/refdist"
)

func TestMain(m *testing.M) {
	log.SetOutput(io.Discard)
	pbt.Main(m, "C08")
}

var threadCounts = []int{1, 2, 3, 8, 16, 32}

// ---- comparison of two matrices under a relation ----------------------------------------------------

func sameBits(a, b float64) bool {
	return math.Float64bits(a) == math.Float64bits(b) || math.IsNaN(a) && math.IsNaN(b)
}

func bitwiseEqual(a, b [][]float64) (bool, string) {
	if len(a) != len(b) {
		return false, fmt.Sprintf("%d rows against %d", len(a), len(b))
	}
	for i := range a {
		if len(a[i]) != len(b[i]) {
			return false, fmt.Sprintf("row %d: %d entries against %d", i, len(a[i]), len(b[i]))
		}
		for j := range a[i] {
			if !sameBits(a[i][j], b[i][j]) {
				return false, fmt.Sprintf("entry [%d][%d]: %v (%#x) against %v (%#x)", i, j, a[i][j], math.Float64bits(a[i][j]), b[i][j], math.Float64bits(b[i][j]))
			}
		}
	}
	return true, ""
}

// related compares base (matrix of the original) with other (matrix of the transformed alignment):
// other[i][j] must equal scale*base[perm[i]][perm[j]] (perm nil = identity) within 1e-9 for the pairs
// that are well defined; undefined pairs must be undefined on both sides (both not a number, or both the
// substitute) when the whole matrix is well conditioned; ill-conditioned pairs are not compared
func related(base, other [][]float64, scale float64, perm []int, st [][]refdist.PairStatus, clean bool, extra [][]float64) (ill int, err error) {
	return relatedTol(base, other, scale, perm, st, clean, extra, refdist.LibTol)
}

func relatedTol(base, other [][]float64, scale float64, perm []int, st [][]refdist.PairStatus, clean bool, extra [][]float64, tol0 refdist.Tol) (ill int, err error) {
	n := len(base)
	if len(other) != n {
		return 0, fmt.Errorf("%d rows against %d", len(other), n)
	}
	for i := 0; i < n; i++ {
		for j := 0; j < n; j++ {
			pi, pj := i, j
			if perm != nil {
				pi, pj = perm[i], perm[j]
			}
			a, b := scale*base[pi][pj], other[i][j]
			if i == j {
				if b != 0 {
					return ill, fmt.Errorf("diagonal entry [%d][%d] = %v", i, j, b)
				}
				continue
			}
			nanA, nanB := math.IsNaN(a) || math.IsInf(a, 0), math.IsNaN(b) || math.IsInf(b, 0)
			tol := tol0.Wider(extra[pi][pj])
			if st[pi][pj] == refdist.AllUndefined {
				tol = tol0.Wider(extra[pi][pi]) // the substitute: conditioning of the maximum
			}
			switch st[pi][pj] {
			case refdist.AllDefined:
				if nanA || nanB || !tol.Close(a, b) {
					return ill, fmt.Errorf("entry [%d][%d] = %.15g, the original alignment gives %.15g at [%d][%d] (x%g)", i, j, b, base[pi][pj], pi, pj, scale)
				}
			case refdist.AllUndefined:
				if !clean {
					ill++
					continue
				}
				if nanA != nanB || !nanA && !tol.Close(a, b) {
					return ill, fmt.Errorf("undefined entry [%d][%d] = %v, the original alignment gives %v at [%d][%d]", i, j, b, base[pi][pj], pi, pj)
				}
			default:
				ill++
			}
		}
	}
	return ill, nil
}

func hasFiniteNonZero(m [][]float64) bool {
	for i := range m {
		for _, x := range m[i] {
			if x != 0 && !math.IsNaN(x) && !math.IsInf(x, 0) {
				return true
			}
		}
	}
	return false
}

func sameStrings(a, b []string) bool {
	if len(a) != len(b) {
		return false
	}
	for i := range a {
		if a[i] != b[i] {
			return false
		}
	}
	return true
}

// ---- metamorphic relations -------------------------------------------------------------------------------

type relCase struct {
	Rows     []string        `json:"rows"`
	Opt      refdist.Options `json:"opt"`
	Tier     int             `json:"tier"`
	ColPerm  []int           `json:"colperm"`
	RowPerm  []int           `json:"rowperm"`
	K        int             `json:"k"`
	Adjacent bool            `json:"adjacent"` // replicated columns next to each other, or k concatenated copies
	ViaAPI   bool            `json:"via_api"`  // transform with SelectSites / Concat / ReverseComplement instead of building the rows
	Threads  []int           `json:"threads"`  // thread count of each of the 7 calls
	// Shared: every matrix of the case is computed with ONE model object, as cmd/computedist.go does for
	// an input with several alignments and cmd/distboot.go for every replicate; Reverse: the original
	// is computed again AFTER each transformed alignment and that matrix is the one compared
	// (transformed -> original), otherwise original -> transformed
	Shared  bool `json:"shared"`
	Reverse bool `json:"reverse"`
	// Plan: the original alignment object is produced by a drawn chain of public operations ending on
	// Rows (internal/gen/provenance.go) instead of being freshly constructed
	Plan *gen.Plan `json:"plan"`
	// Extra: "" or the kind of characters outside the residues of C07's quantifier that Rows holds
	// (RNA: every T written U; some cells replaced by one of U * . ? X): the relations are evaluated on
	// every alignment the tree accepts - refused on both sides is a pass, accepted on one side only
	// or accepted with other values is a violation
	Extra string `json:"extra"`
}

// sanitized maps the extra characters to what they mean for the conditioning guard only (U = T; * . ? X
// are no nucleotides, like the gap): it decides which pairs are too ill-conditioned to be compared,
// never what a value should be
func sanitized(rows []string) []string {
	out := make([]string, len(rows))
	for i, r := range rows {
		b := []byte(r)
		for j, ch := range b {
			switch ch {
			case 'U':
				b[j] = 'T'
			case 'u':
				b[j] = 't'
			case '*', '.', '?', 'X', 'x':
				b[j] = '-'
			}
		}
		out[i] = string(b)
	}
	return out
}

func genRel(t *rapid.T) relCase {
	var c relCase
	if rapid.IntRange(0, 11).Draw(t, "many-sequences") == 7 {
		c.Rows, c.Tier = refdist.GenRows(t, 46, 80, 12, -1) // more than 1024 pairs
	} else {
		c.Rows, c.Tier = refdist.GenRows(t, 3, 10, 40, -1)
	}
	c.Opt = refdist.GenOptions(t, len(c.Rows), len(c.Rows[0]), false, true)
	c.ColPerm = gen.Perm(t, len(c.Rows[0]), "colperm")
	c.RowPerm = gen.Perm(t, len(c.Rows), "rowperm")
	c.K = rapid.IntRange(1, 4).Draw(t, "k")
	c.Adjacent = rapid.Bool().Draw(t, "adjacent")
	c.ViaAPI = rapid.Bool().Draw(t, "via-api")
	for i := 0; i < 7; i++ {
		c.Threads = append(c.Threads, rapid.SampledFrom(threadCounts).Draw(t, "threads"))
	}
	c.Shared = rapid.Bool().Draw(t, "shared-model")
	c.Reverse = rapid.Bool().Draw(t, "transformed-first")
	switch rapid.IntRange(0, 7).Draw(t, "extra-characters") {
	case 5:
		c.Extra = rapid.SampledFrom([]string{"rna", "rna-some-rows", "sprinkle"}).Draw(t, "extra-kind")
		ch := rapid.SampledFrom([]byte("UU*.?X")).Draw(t, "extra-char")
		for i := range c.Rows {
			b := []byte(c.Rows[i])
			some := rapid.Bool().Draw(t, "this-row")
			for j := range b {
				switch c.Extra {
				case "rna", "rna-some-rows":
					if c.Extra == "rna" || some {
						if b[j] == 'T' {
							b[j] = 'U'
						} else if b[j] == 't' {
							b[j] = 'u'
						}
					}
				default:
					if rapid.IntRange(0, 9).Draw(t, "sprinkle") == 4 {
						b[j] = ch
					}
				}
			}
			c.Rows[i] = string(b)
		}
		if c.Extra == "sprinkle" {
			c.Extra += ":" + string(ch)
		}
	case 2, 6:
		pl := gen.DrawPlan(t, distrun.Ali(c.Rows), "ACGT-", 3)
		c.Plan = &pl
	}
	return c
}

// computer returns the function that computes a matrix: with a fresh model per call, or with one
// model object for all calls
func computer(opt refdist.Options, shared bool) func(rows []string, o refdist.Options, threads int) ([][]float64, error) {
	if !shared {
		return matrixOf
	}
	m, err := distrun.Model(opt, false)
	return func(rows []string, o refdist.Options, threads int) ([][]float64, error) {
		if err != nil {
			return nil, err
		}
		return distrun.MatrixWith(gen.MustBuild(distrun.Ali(rows)), o, m, threads)
	}
}

func matrixOf(rows []string, opt refdist.Options, threads int) ([][]float64, error) {
	return distrun.Matrix(gen.MustBuild(distrun.Ali(rows)), opt, false, threads)
}

func rowsOf(al align.Alignment) []string {
	var rows []string
	for _, r := range gen.Snapshot(al) {
		rows = append(rows, r.Seq)
	}
	return rows
}

func checkRel(c relCase) (o pbt.Outcome, err error) {
	l := len(c.Rows[0])
	opt := c.Opt
	compute := computer(opt, c.Shared)
	var base [][]float64
	var e error
	if c.Plan != nil {
		if obj, usable := gen.BuildVia(distrun.Ali(c.Rows), *c.Plan); usable {
			base, e = distrun.Matrix(obj, opt, false, c.Threads[0])
			for _, k := range c.Plan.Kinds() {
				o.Class("provenance:%s", k)
			}
		} else {
			o.Class("provenance-unusable")
			base, e = compute(c.Rows, opt, c.Threads[0])
		}
	} else {
		base, e = compute(c.Rows, opt, c.Threads[0])
	}
	refused := e != nil
	if refused && c.Extra == "" {
		return o, fmt.Errorf("DistMatrix fails: %v", e)
	}
	if c.Extra != "" {
		o.Class("extra characters (%s): %s", c.Extra, map[bool]string{true: "refused", false: "accepted"}[refused])
	}
	if c.Shared {
		if c.Reverse {
			o.Class("one-model-object: transformed then original")
		} else {
			o.Class("one-model-object: original then transformed")
		}
	}
	st, clean, extra := refdist.StatusesTol(sanitized(c.Rows), opt)
	internal := (opt.Model == refdist.Raw || opt.Model == refdist.PDist) && opt.GapMut == refdist.GapInternal
	raw := opt.Model == refdist.Raw
	differs := false
	g := ""
	if opt.Gamma && refdist.Corrected(opt.Model) {
		g = "+gamma"
	}
	o.Class("model=%s%s", opt.Model, g)
	o.Class("tier=%d", c.Tier)
	if opt.Weights != nil {
		o.Class("weights")
	}
	if !clean {
		o.Class("has-ill-conditioned-pair")
	}
	if refdist.HasLower(c.Rows) {
		o.Class("lower-case residues")
	}
	if len(c.Rows) >= 46 {
		o.Class("46-80 sequences (> 1024 pairs)")
	}
	errSkip := fmt.Errorf("relation not applicable")

	// transformed alignment: rows built directly, or through the goalign API
	transformed := func(cols []int, revcomp bool) ([]string, error) {
		var want []string
		if revcomp && c.Extra != "" {
			want = nil // the harness has no complement for these characters: goalign's own, unverified
		} else if revcomp {
			want = refdist.RevComp(c.Rows)
		} else {
			want = refdist.SelectColumns(c.Rows, cols)
		}
		if !c.ViaAPI && want != nil {
			return want, nil
		}
		al := gen.MustBuild(distrun.Ali(c.Rows))
		var res align.Alignment = al
		if revcomp {
			if e := al.ReverseComplement(); e != nil {
				if c.Extra != "" {
					o.Class("extra characters: ReverseComplement refuses")
					return nil, errSkip
				}
				return nil, fmt.Errorf("ReverseComplement: %v", e)
			}
		} else {
			sub, e := al.SelectSites(cols)
			if e != nil {
				return nil, fmt.Errorf("SelectSites: %v", e)
			}
			res = sub
		}
		got := rowsOf(res)
		if want != nil && !sameStrings(got, want) {
			// a defect of the transformation is the business of C04/C06, not of this property
			return nil, fmt.Errorf("harness: the goalign transformation does not give the expected rows: %v want %v", got, want)
		}
		return got, nil
	}
	relation := func(name string, rows []string, ropt refdist.Options, scale float64, perm []int, threads int) error {
		m, e := compute(rows, ropt, threads)
		if c.Extra != "" {
			if name == "reverse-complement" && (e != nil || refused) {
				// U is not closed under goalign's complement (U -> A, A -> T): one side may hold a
				// refused character that the other does not; the relation speaks when both are accepted
				o.Class("relation:%s (a side refused)", name)
				return nil
			}
			if (e != nil) != refused {
				return fmt.Errorf("%s: alignment with characters outside A,C,G,T,IUPAC,'-' (%s): the original is %s but the transformed alignment is %s (%v)", name, c.Extra,
					map[bool]string{true: "refused", false: "accepted"}[refused], map[bool]string{true: "refused", false: "accepted"}[e != nil], e)
			}
			if refused {
				o.Class("relation:%s (refused on both sides)", name)
				return nil
			}
		}
		if e != nil {
			return fmt.Errorf("%s: DistMatrix fails: %v", name, e)
		}
		if c.Shared && c.Reverse {
			// the original again, now after the transformed alignment on the same model object
			after, e := compute(c.Rows, opt, c.Threads[0])
			if e != nil {
				return fmt.Errorf("%s: DistMatrix fails on the original after the transformed alignment: %v", name, e)
			}
			if ok, why := bitwiseEqual(base, after); !ok {
				return fmt.Errorf("%s: the same alignment, options and thread count on the same model object give another matrix after the transformed alignment was computed: %s", name, why)
			}
		}
		ill, e := related(base, m, scale, perm, st, clean, extra)
		o.Ill += ill
		if e != nil {
			return fmt.Errorf("%s: %v", name, e)
		}
		if !sameStrings(rows, c.Rows) {
			differs = true
		}
		o.Class("relation:%s", name)
		return nil
	}

	if !internal {
		// column permutation
		rows, e := transformed(c.ColPerm, false)
		if e != nil {
			return o, e
		}
		popt := opt
		popt.Weights = refdist.SelectWeights(opt.Weights, c.ColPerm)
		if e := relation("column-permutation", rows, popt, 1, nil, c.Threads[1]); e != nil {
			return o, e
		}
		// replication x k against the original, and against integer weights k
		cols := refdist.Replicate(l, c.K, c.Adjacent)
		rows, e = transformed(cols, false)
		if e != nil {
			return o, e
		}
		ropt := opt
		ropt.Weights = refdist.SelectWeights(opt.Weights, cols)
		scale := 1.0
		if raw {
			scale = float64(c.K)
		}
		if e := relation(fmt.Sprintf("replication-x%d", c.K), rows, ropt, scale, nil, c.Threads[2]); e != nil {
			return o, e
		}
		wopt := opt
		wopt.Weights = make([]float64, l)
		for j := range wopt.Weights {
			wopt.Weights[j] = float64(c.K)
			if opt.Weights != nil {
				wopt.Weights[j] *= opt.Weights[j]
			}
		}
		if e := relation(fmt.Sprintf("integer-weights-%d", c.K), c.Rows, wopt, scale, nil, c.Threads[3]); e != nil {
			return o, e
		}
		// reverse complement
		rows, e = transformed(nil, true)
		if e != nil && e != errSkip {
			return o, e
		}
		vopt := opt
		vopt.Weights = refdist.SelectWeights(opt.Weights, refdist.Reversed(l))
		if e == nil {
			if e := relation("reverse-complement", rows, vopt, 1, nil, c.Threads[4]); e != nil {
				return o, e
			}
		}
		if c.ViaAPI && e == nil && !refused {
			// history on ONE alignment object: matrix, ReverseComplement() in place, matrix again
			obj := gen.MustBuild(distrun.Ali(c.Rows))
			m0, e := distrun.Matrix(obj, opt, false, c.Threads[0])
			if e != nil {
				return o, fmt.Errorf("DistMatrix fails: %v", e)
			}
			if ok, why := bitwiseEqual(base, m0); !ok {
				return o, fmt.Errorf("another object with the same content gives another matrix: %s", why)
			}
			if e := obj.ReverseComplement(); e != nil {
				return o, fmt.Errorf("ReverseComplement: %v", e)
			}
			if !sameStrings(rowsOf(obj), rows) {
				return o, fmt.Errorf("harness: ReverseComplement in place does not give the expected rows")
			}
			m1, e := distrun.Matrix(obj, vopt, false, c.Threads[4])
			if e != nil {
				return o, fmt.Errorf("DistMatrix fails after the in-place reverse complement: %v", e)
			}
			ill, e := related(base, m1, 1, nil, st, clean, extra)
			o.Ill += ill
			if e != nil {
				return o, fmt.Errorf("reverse-complement in place on the object whose matrix was just computed: %v", e)
			}
			o.Class("relation:reverse-complement in place (same object)")
		}
	} else {
		o.Class("internal-gap-mode(column relations exempt)")
	}
	// unit weights against no weights
	if opt.Weights == nil {
		uopt := opt
		uopt.Weights = make([]float64, l)
		for j := range uopt.Weights {
			uopt.Weights[j] = 1
		}
		if e := relation("unit-weights", c.Rows, uopt, 1, nil, c.Threads[5]); e != nil {
			return o, e
		}
	}
	// row permutation: new row i is old row RowPerm[i]
	prow := make([]string, len(c.Rows))
	for i, p := range c.RowPerm {
		prow[i] = c.Rows[p]
	}
	if e := relation("row-permutation", prow, opt, 1, c.RowPerm, c.Threads[6]); e != nil {
		return o, e
	}
	o.NonTrivial = differs && !refused && hasFiniteNonZero(base)
	return o, nil
}

func TestRelations(t *testing.T) { pbt.Run(t, genRel, checkRel) }

// ---- thread counts: bitwise identical ------------------------------------------------------------------

type thrCase struct {
	Rows []string        `json:"rows"`
	Opt  refdist.Options `json:"opt"`
	Tier int             `json:"tier"`
	// Shared: one model object for all thread counts
	Shared bool `json:"shared"`
	// Plan: the alignment objects are produced by a drawn chain of public operations ending on Rows
	Plan *gen.Plan `json:"plan"`
}

func genThr(t *rapid.T) thrCase {
	var c thrCase
	switch rapid.IntRange(0, 11).Draw(t, "fanout") { // (rapid prefers small values: the rare class is not value 0)
	case 7: // more than 1024 pairs, short alignments
		c.Rows, c.Tier = refdist.GenRows(t, 46, 80, 12, -1)
	case 0, 1, 2:
		c.Rows, c.Tier = refdist.GenRows(t, 3, 40, 40, -1)
	default:
		c.Rows, c.Tier = refdist.GenRows(t, 3, 12, 40, -1)
	}
	c.Opt = refdist.GenOptions(t, len(c.Rows), len(c.Rows[0]), true, true)
	c.Shared = rapid.Bool().Draw(t, "shared-model")
	if rapid.IntRange(0, 3).Draw(t, "provenance") == 2 {
		pl := gen.DrawPlan(t, distrun.Ali(c.Rows), "ACGT-", 3)
		c.Plan = &pl
	}
	return c
}

func checkThr(c thrCase) (o pbt.Outcome, err error) {
	var first [][]float64
	compute := computer(c.Opt, c.Shared)
	if c.Plan != nil && !c.Shared {
		if _, usable := gen.BuildVia(distrun.Ali(c.Rows), *c.Plan); usable {
			compute = func(rows []string, o refdist.Options, threads int) ([][]float64, error) {
				obj, _ := gen.BuildVia(distrun.Ali(rows), *c.Plan)
				return distrun.Matrix(obj, o, false, threads)
			}
			o.Class("provenance: %d steps", len(c.Plan.Steps))
		} else {
			o.Class("provenance-unusable")
		}
	}
	if c.Shared {
		o.Class("one-model-object")
	}
	for k, th := range threadCounts {
		m, e := compute(c.Rows, c.Opt, th)
		if e != nil {
			return o, fmt.Errorf("DistMatrix with %d threads fails: %v", th, e)
		}
		if k == 0 {
			first = m
			continue
		}
		if ok, why := bitwiseEqual(first, m); !ok {
			return o, fmt.Errorf("the matrix computed with %d threads differs from the one computed with %d thread: %s", th, threadCounts[0], why)
		}
	}
	// twice with the same thread count: scheduling alone
	m, e := compute(c.Rows, c.Opt, 8)
	if e != nil {
		return o, fmt.Errorf("DistMatrix fails: %v", e)
	}
	if ok, why := bitwiseEqual(first, m); !ok {
		return o, fmt.Errorf("two runs with 8 threads differ: %s", why)
	}
	// and the matrix is the one of the estimators, entry by entry (oracle of C07)
	v, _, err := refdist.JudgeAny(first, c.Rows, c.Opt, refdist.Readings(c.Rows, c.Opt), refdist.JudgeOpt{Tol: refdist.LibTol})
	if err != nil {
		return o, err
	}
	o.Ill += v.Ill
	o.Ambiguous += v.Ambiguous
	n := len(c.Rows)
	pairs := 0
	for i := 0; i < n; i++ {
		for j := i + 1; j < n; j++ {
			if refdist.Computed(c.Opt.Ranges, i, j) {
				pairs++
			}
		}
	}
	undefined := false
	for i := range first {
		for _, x := range first[i] {
			if math.IsNaN(x) {
				undefined = true
			}
		}
	}
	o.NonTrivial = pairs >= 3 && hasFiniteNonZero(first)
	o.Class("model=%s", c.Opt.Model)
	switch {
	case n >= 46:
		o.Class("46-80 sequences (> 1024 pairs)")
	case n > 20:
		o.Class("rows>20")
	case n > 8:
		o.Class("rows 9-20")
	default:
		o.Class("rows<=8")
	}
	if undefined {
		o.Class("with-undefined-pairs")
	}
	if c.Opt.Ranges != nil {
		o.Class("ranges")
	}
	return o, nil
}

func TestThreads(t *testing.T) { pbt.Run(t, genThr, checkThr) }

// ---- fault injection: a model whose evaluation fails ----------------------------------------------------

var errInjected = errors.New("injected failure of the distance model")

// faulty wraps a real model; the k-th call of Distance (or of Sequence) fails, and every later one
// too if persist is set. It is safe for concurrent use.
type faulty struct {
	dna.DistModel
	inDistance bool
	k          int64
	persist    bool
	calls      int64
	failed     int64
	// meet > 1: a failing Distance call waits (bounded) until that many failing calls are in flight (one
	// per worker if enough pairs remain), so that several workers report their error at the same moment
	meet    int64
	arrived int64
}

func (f *faulty) hit() bool {
	n := atomic.AddInt64(&f.calls, 1)
	if n == f.k || f.persist && n > f.k {
		atomic.AddInt64(&f.failed, 1)
		return true
	}
	return false
}

func (f *faulty) Distance(s1, s2 []uint8, w []float64) (float64, error) {
	if f.inDistance && f.hit() {
		if f.meet > 1 {
			// a spinning barrier (bounded): all the waiting calls return within nanoseconds of each other
			atomic.AddInt64(&f.arrived, 1)
			for i := 0; i < 200000 && atomic.LoadInt64(&f.arrived) < f.meet; i++ {
				runtime.Gosched()
				if i%1000 == 999 {
					time.Sleep(10 * time.Microsecond)
				}
			}
		}
		return 0, errInjected
	}
	return f.DistModel.Distance(s1, s2, w)
}

func (f *faulty) Sequence(i int) ([]uint8, error) {
	if !f.inDistance && f.hit() {
		return nil, errInjected
	}
	return f.DistModel.Sequence(i)
}

type faultCase struct {
	Rows       []string        `json:"rows"`
	Opt        refdist.Options `json:"opt"`
	InDistance bool            `json:"in_distance"` // the failing method: Distance or Sequence
	Persist    bool            `json:"persist"`     // every call from the k-th on fails
	Together   bool            `json:"together"`    // with Persist and Distance: the failing calls wait until every worker holds one, the workers report at the same time
	// Ks: the call indices to fail at (negative: counted from the last call, -1 = the last one); empty =
	// every k in 1..#calls+1
	Ks []int `json:"ks"`
	// K and Threads are filled while the case runs (the side file then names the hanging call)
	K         int `json:"k"`
	Threads   int `json:"threads"`
	Remaining int `json:"remaining"` // calls from the k-th to the last
}

func genFault(t *rapid.T) faultCase {
	var c faultCase
	c.Rows, _ = refdist.GenRows(t, 2, 7, 12, -1)
	c.Opt = refdist.GenOptions(t, len(c.Rows), len(c.Rows[0]), true, true)
	c.InDistance = rapid.IntRange(0, 3).Draw(t, "in-distance") != 0
	c.Persist = rapid.Bool().Draw(t, "persist")
	c.Together = rapid.Bool().Draw(t, "together")
	return c
}

var faultThreads = []int{1, 2, 4, 16}

// runFault makes one guarded call; returns the matrix, the error and the number of injected failures
func runFault(test string, c faultCase) (m [][]float64, err error, failed int64) {
	real, e := distrun.Model(c.Opt, false)
	if e != nil {
		panic("harness: " + e.Error())
	}
	f := &faulty{DistModel: real, inDistance: c.InDistance, k: int64(c.K), persist: c.Persist}
	if c.Together && c.Persist && c.InDistance && c.Threads >= 2 && c.Remaining >= 2 {
		f.meet = int64(c.Threads)
		if c.Remaining < c.Threads {
			f.meet = int64(c.Remaining)
		}
	}
	al := gen.MustBuild(distrun.Ali(c.Rows))
	pbt.Guarded(test, c, pbt.WatchdogLimit(20*time.Second), func() {
		m, err = distrun.MatrixWith(al, c.Opt, f, c.Threads)
	})
	return m, err, atomic.LoadInt64(&f.failed)
}

func checkFaultIn(test string) func(c faultCase) (pbt.Outcome, error) {
	return func(c faultCase) (o pbt.Outcome, err error) {
		n := len(c.Rows)
		// number of calls of the failing method in a run without failure
		pairs, seqCalls := 0, 0
		if c.Opt.Ranges == nil {
			pairs = n * (n - 1) / 2
			seqCalls = n + pairs
		} else {
			r := c.Opt.Ranges
			for i := r[0]; i <= r[1]; i++ {
				seqCalls++
				for j := r[2]; j <= r[3]; j++ {
					if j != i {
						pairs++
						seqCalls++
					}
				}
			}
		}
		calls := seqCalls
		if c.InDistance {
			calls = pairs
		}
		ks := []int{}
		if c.K > 0 { // a replayed case names its k and thread count
			ks = []int{c.K}
		} else if len(c.Ks) > 0 {
			seen := map[int]bool{}
			for _, k := range c.Ks {
				if k < 0 {
					k = calls + 1 + k
				}
				if k >= 1 && k <= calls+1 && !seen[k] {
					seen[k] = true
					ks = append(ks, k)
				}
			}
		} else {
			for k := 1; k <= calls+1; k++ { // calls+1: never reached, the run must succeed
				ks = append(ks, k)
			}
		}
		ths := faultThreads
		if c.Threads > 0 {
			ths = []int{c.Threads}
		}
		clean, e := matrixOf(c.Rows, c.Opt, 1)
		if e != nil {
			return o, fmt.Errorf("DistMatrix fails without any injected failure: %v", e)
		}
		for _, k := range ks {
			for _, th := range ths {
				cc := c
				cc.K, cc.Threads, cc.Remaining = k, th, calls-k+1
				m, err, failed := runFault(test, cc)
				if k <= calls {
					if err == nil {
						return o, fmt.Errorf("call %d of %d of the model fails (threads=%d, %d failures injected) but DistMatrix returns no error", k, calls, th, failed)
					}
					if !errors.Is(err, errInjected) {
						return o, fmt.Errorf("call %d of the model fails (threads=%d) but DistMatrix returns another error: %v", k, th, err)
					}
					if failed == 0 {
						return o, fmt.Errorf("harness: error returned but no failure injected (k=%d)", k)
					}
				} else {
					if err != nil {
						return o, fmt.Errorf("no call of the model fails (k=%d > %d calls, threads=%d) but DistMatrix returns %v", k, calls, th, err)
					}
					if ok, why := bitwiseEqual(clean, m); !ok {
						return o, fmt.Errorf("the wrapped model that never fails gives another matrix (threads=%d): %s", th, why)
					}
				}
			}
		}
		o.NonTrivial = calls >= 1
		if c.InDistance {
			o.Class("fails-in-Distance")
		} else {
			o.Class("fails-in-Sequence")
		}
		if c.Persist {
			o.Class("persistent-failure")
			if c.Together && c.InDistance {
				o.Class("simultaneous-failures")
			}
		} else {
			o.Class("single-failure")
		}
		o.Class("calls=%d", bucket(calls))
		if c.Opt.Ranges != nil {
			o.Class("ranges")
		}
		return o, nil
	}
}

func bucket(n int) int {
	switch {
	case n <= 1:
		return n
	case n <= 3:
		return 3
	case n <= 10:
		return 10
	case n <= 28:
		return 28
	case n <= 100:
		return 100
	}
	return 1000
}

func TestFault(t *testing.T) { pbt.Run(t, genFault, checkFaultIn("TestFault")) }

// TestFaultLarge: 16-40 sequences, i.e. 120-780 pairs - more than the 100 pairs the channel between the
// producer and the workers holds - with the failure at an early call, around the 100th, somewhere, and
// at the last ones; 1, 2, 4 and 16 threads; single, persistent and simultaneous failures
func TestFaultLarge(t *testing.T) {
	pbt.Run(t, func(t *rapid.T) faultCase {
		var c faultCase
		c.Rows, _ = refdist.GenRows(t, 16, 40, 6, -1)
		c.Opt = refdist.GenOptions(t, len(c.Rows), len(c.Rows[0]), false, true)
		c.InDistance = rapid.IntRange(0, 3).Draw(t, "in-distance") != 0
		c.Persist = rapid.Bool().Draw(t, "persist")
		c.Together = rapid.Bool().Draw(t, "together")
		n := len(c.Rows)
		c.Ks = []int{1, rapid.IntRange(2, 12).Draw(t, "early"), rapid.IntRange(95, 106).Draw(t, "around-100"),
			rapid.IntRange(1, n*(n-1)/2).Draw(t, "anywhere"), -3, -2, -1}
		return c
	}, checkFaultIn("TestFaultLarge"))
}

// ---- the same under the race detector (registered with Race: true) -------------------------------------

type raceCase struct {
	Thr   thrCase   `json:"thr"`
	Fault faultCase `json:"fault"`
}

func TestRace(t *testing.T) {
	pbt.Run(t, func(t *rapid.T) raceCase {
		var c raceCase
		if rapid.IntRange(0, 5).Draw(t, "many-sequences") == 3 {
			c.Thr.Rows, c.Thr.Tier = refdist.GenRows(t, 46, 80, 12, -1) // more than 1024 pairs
		} else {
			c.Thr.Rows, c.Thr.Tier = refdist.GenRows(t, 3, 14, 20, -1)
		}
		c.Thr.Opt = refdist.GenOptions(t, len(c.Thr.Rows), len(c.Thr.Rows[0]), true, true)
		c.Thr.Shared = rapid.Bool().Draw(t, "shared-model")
		c.Fault = genFault(t)
		return c
	}, func(c raceCase) (o pbt.Outcome, err error) {
		o, err = checkThr(c.Thr)
		if err != nil {
			return o, err
		}
		o2, err := checkFaultIn("TestFault")(c.Fault) // a hanging call is confirmed through TestFault
		o.Classes = append(o.Classes, o2.Classes...)
		return o, err
	})
}

// ---- command line: identical bytes for every -t --------------------------------------------------------

type cliCase struct {
	Rows []string        `json:"rows"`
	Opt  refdist.Options `json:"opt"`
	Tier int             `json:"tier"`
	// Second: another alignment with its own number of rows, in the same phylip file (before or after
	// Rows); the ranges then have minima inside the smaller one and maxima possibly beyond it
	Second      []string   `json:"second"`
	SecondFirst bool       `json:"second_first"`
	Layout      cli.Layout `json:"layout"` // presentation of the FASTA input
}

func TestCLI(t *testing.T) {
	if cli.Binary() == "" {
		t.Skip("no goalign binary")
	}
	dir := cli.TempDir("c08cli")
	pbt.Run(t, func(t *rapid.T) cliCase {
		var c cliCase
		c.Rows, c.Tier = refdist.GenRows(t, 3, 24, 30, -1)
		c.Opt = refdist.GenOptions(t, len(c.Rows), len(c.Rows[0]), true, false)
		if !c.Opt.Gamma {
			c.Opt.Alpha = 0
		}
		c.Layout = cli.DrawLayout(t)
		if rapid.IntRange(0, 2).Draw(t, "two-alignments") == 0 {
			c.Second, _ = refdist.GenRows(t, 2, 12, 30, c.Tier)
			c.SecondFirst = rapid.Bool().Draw(t, "second-first")
			if c.Opt.Ranges != nil || rapid.Bool().Draw(t, "ranges-over-both") {
				small, large := len(c.Second), len(c.Rows)
				if small > large {
					small, large = large, small
				}
				a := rapid.IntRange(0, small-1).Draw(t, "r1min")
				b := rapid.IntRange(a, large+1).Draw(t, "r1max")
				cc := rapid.IntRange(0, small-1).Draw(t, "r2min")
				d := rapid.IntRange(cc, large+1).Draw(t, "r2max")
				c.Opt.Ranges = []int{a, b, cc, d}
			}
		}
		return c
	}, func(c cliCase) (o pbt.Outcome, err error) {
		inputs := [][]string{c.Rows}
		var in string
		extra := []string{}
		if c.Second == nil {
			in = cli.TempFile(dir, ".fa", cli.FastaLayout(distrun.Ali(c.Rows).Rows, c.Layout))
			if !c.Layout.Plain() {
				o.Class("fasta input in another layout")
			}
		} else {
			inputs = [][]string{c.Rows, c.Second}
			if c.SecondFirst {
				inputs = [][]string{c.Second, c.Rows}
			}
			text := ""
			for _, rows := range inputs {
				text += phylipText(gen.SimpleNames(len(rows)), rows)
			}
			in = cli.TempFile(dir, ".phy", text)
			extra = []string{"-p"}
		}
		defer os.Remove(in)
		var first string
		for k, th := range threadCounts {
			args := append(distrun.Args(c.Opt, in, th), extra...)
			r := cli.Run("", args...)
			if r.TimedOut {
				return o, fmt.Errorf("goalign %v did not finish", args)
			}
			if r.Exit != 0 {
				return o, fmt.Errorf("goalign %v: exit %d, stderr %q", args, r.Exit, r.Stderr)
			}
			if k == 0 {
				first = r.Stdout
				continue
			}
			if r.Stdout != first {
				return o, fmt.Errorf("goalign %v prints other bytes than with -t %d:\n%s\nagainst\n%s", args, threadCounts[0], r.Stdout, first)
			}
		}
		// and every printed matrix is the one of the estimators for its own alignment, the ranges clipped
		// to it (same oracle as C07, 1e-9)
		_, mats, perr := distrun.ParseMatrices(first)
		if perr != nil || len(mats) != len(inputs) {
			return o, fmt.Errorf("%d alignments in the input but the output is not as many matrices (%v)\n%s", len(inputs), perr, first)
		}
		for k, rows := range inputs {
			v, _, err := refdist.JudgeAny(mats[k], rows, c.Opt, refdist.Readings(rows, c.Opt), refdist.JudgeOpt{Tol: refdist.CLITol})
			if err != nil {
				return o, fmt.Errorf("goalign %v, alignment %d of %d\n%v", append(distrun.Args(c.Opt, in, 1), extra...), k+1, len(inputs), err)
			}
			o.Ill += v.Ill
			o.Ambiguous += v.Ambiguous
			o.NonTrivial = o.NonTrivial || len(rows) >= 3 && hasFiniteNonZero(mats[k])
		}
		o.Class("model=%s", c.Opt.Model)
		if len(c.Rows) > 12 {
			o.Class("rows>12")
		}
		if c.Second != nil {
			o.Class("two alignments of different sizes in one file")
			if c.Opt.Ranges != nil {
				o.Class("two alignments + ranges over both")
			}
		}
		if refdist.HasLower(c.Rows) {
			o.Class("lower-case residues")
		}
		return o, nil
	})
}

// ---- command line: the original and a transformed alignment in ONE phylip file ------------------------

type cli2Case struct {
	Rows     []string        `json:"rows"`
	Opt      refdist.Options `json:"opt"`
	Tier     int             `json:"tier"`
	Relation string          `json:"relation"`
	ColPerm  []int           `json:"colperm"`
	RowPerm  []int           `json:"rowperm"`
	K        int             `json:"k"`
	First    bool            `json:"transformed_first"` // the transformed alignment comes first in the file
	Threads  int             `json:"threads"`
}

func phylipText(names, rows []string) string {
	s := fmt.Sprintf("%d %d\n", len(rows), len(rows[0]))
	for i, r := range rows {
		s += names[i] + "  " + r + "\n"
	}
	return s
}

func TestCLITwoAlignments(t *testing.T) {
	if cli.Binary() == "" {
		t.Skip("no goalign binary")
	}
	dir := cli.TempDir("c08cli2")
	pbt.Run(t, func(t *rapid.T) cli2Case {
		var c cli2Case
		c.Rows, c.Tier = refdist.GenRows(t, 3, 10, 30, -1)
		c.Opt = refdist.GenOptions(t, len(c.Rows), len(c.Rows[0]), false, false)
		if !c.Opt.Gamma {
			c.Opt.Alpha = 0
		}
		rels := []string{"column-permutation", "replication", "reverse-complement", "row-permutation"}
		if (c.Opt.Model == refdist.Raw || c.Opt.Model == refdist.PDist) && c.Opt.GapMut == refdist.GapInternal {
			rels = []string{"row-permutation"} // the internal-gap mode is exempt from the column relations
		}
		c.Relation = rapid.SampledFrom(rels).Draw(t, "relation")
		c.ColPerm = gen.Perm(t, len(c.Rows[0]), "colperm")
		c.RowPerm = gen.Perm(t, len(c.Rows), "rowperm")
		c.K = rapid.IntRange(2, 4).Draw(t, "k")
		c.First = rapid.Bool().Draw(t, "transformed-first")
		c.Threads = rapid.SampledFrom(threadCounts).Draw(t, "threads")
		return c
	}, func(c cli2Case) (o pbt.Outcome, err error) {
		n := len(c.Rows)
		names := gen.SimpleNames(n)
		trows, tnames := c.Rows, names
		scale := 1.0
		var perm []int
		switch c.Relation {
		case "column-permutation":
			trows = refdist.SelectColumns(c.Rows, c.ColPerm)
		case "replication":
			trows = refdist.SelectColumns(c.Rows, refdist.Replicate(len(c.Rows[0]), c.K, true))
			if c.Opt.Model == refdist.Raw {
				scale = float64(c.K)
			}
		case "reverse-complement":
			trows = refdist.RevComp(c.Rows)
		case "row-permutation":
			perm = c.RowPerm
			trows, tnames = make([]string, n), make([]string, n)
			for i, p := range perm {
				trows[i], tnames[i] = c.Rows[p], names[p]
			}
		}
		text := phylipText(names, c.Rows) + phylipText(tnames, trows)
		if c.First {
			text = phylipText(tnames, trows) + phylipText(names, c.Rows)
		}
		in := cli.TempFile(dir, ".phy", text)
		defer os.Remove(in)
		args := append(distrun.Args(c.Opt, in, c.Threads), "-p")
		r := cli.Run("", args...)
		if r.TimedOut {
			return o, fmt.Errorf("goalign %v did not finish", args)
		}
		if r.Exit != 0 {
			return o, fmt.Errorf("goalign %v: exit %d, stderr %q", args, r.Exit, r.Stderr)
		}
		gotNames, mats, perr := distrun.ParseMatrices(r.Stdout)
		if perr != nil || len(mats) != 2 {
			return o, fmt.Errorf("goalign %v: two alignments in the file but the output is not two matrices (%v):\n%s", args, perr, r.Stdout)
		}
		orig, trans, tn := mats[0], mats[1], gotNames[1]
		if c.First {
			orig, trans, tn = mats[1], mats[0], gotNames[0]
		}
		if !sameStrings(tn, tnames) {
			return o, fmt.Errorf("goalign %v: the matrix of the transformed alignment has rows %v, want %v", args, tn, tnames)
		}
		st, clean, extra := refdist.StatusesTol(c.Rows, c.Opt)
		ill, e := relatedTol(orig, trans, scale, perm, st, clean, extra, refdist.CLITol)
		o.Ill += ill
		if e != nil {
			return o, fmt.Errorf("goalign %v (%s, transformed alignment first: %v): %v\n%s", args, c.Relation, c.First, e, r.Stdout)
		}
		o.NonTrivial = !sameStrings(trows, c.Rows) && hasFiniteNonZero(orig)
		o.Class("relation:%s", c.Relation)
		o.Class("model=%s", c.Opt.Model)
		if c.First {
			o.Class("transformed-first")
		} else {
			o.Class("original-first")
		}
		return o, nil
	})
}

// ---- command line: one alignment of a multi-alignment input cannot be computed ----------------------------

type cliFailCase struct {
	Alis    [][]string      `json:"alis"` // 2-4 alignments of one phylip file, all computable
	Opt     refdist.Options `json:"opt"`
	BadAt   int             `json:"bad_at"`   // the alignment that is made uncomputable
	BadKind string          `json:"bad_kind"` // how
	Threads int             `json:"threads"`
}

// TestCLIFailingAlignment: "the computation always returns - with the error if a model evaluation fails" at
// the level of the command: when one alignment of the input (first, middle or last) cannot be computed, the
// exit status reports it; the same file with that alignment intact gives status 0 and one matrix per alignment
func TestCLIFailingAlignment(t *testing.T) {
	if cli.Binary() == "" {
		t.Skip("no goalign binary")
	}
	dir := cli.TempDir("c08clifail")
	pbt.Run(t, func(t *rapid.T) cliFailCase {
		var c cliFailCase
		n := rapid.IntRange(2, 4).Draw(t, "alignments")
		tier := rapid.IntRange(0, 2).Draw(t, "tier")
		for k := 0; k < n; k++ {
			rows, _ := refdist.GenRows(t, 3, 8, 20, tier)
			c.Alis = append(c.Alis, rows)
		}
		c.Opt = refdist.GenOptions(t, 3, len(c.Alis[0][0]), false, false)
		if !c.Opt.Gamma {
			c.Opt.Alpha = 0
		}
		c.BadAt = rapid.IntRange(0, n-1).Draw(t, "bad-at")
		c.BadKind = rapid.SampledFrom([]string{"rna-U", "question-mark", "protein", "fewer-rows-than-the-range-minimum"}).Draw(t, "bad-kind")
		if c.BadKind == "fewer-rows-than-the-range-minimum" {
			c.Opt.Ranges = []int{2, 7, 0, 7} // every alignment has >= 3 rows; the bad one gets 2
		}
		c.Threads = rapid.SampledFrom([]int{1, 2, 4}).Draw(t, "threads")
		return c
	}, func(c cliFailCase) (o pbt.Outcome, err error) {
		file := func(alis [][]string) string {
			text := ""
			for _, rows := range alis {
				text += phylipText(gen.SimpleNames(len(rows)), rows)
			}
			return cli.TempFile(dir, ".phy", text)
		}
		bad := make([][]string, len(c.Alis))
		copy(bad, c.Alis)
		b := append([]string{}, c.Alis[c.BadAt]...)
		switch c.BadKind {
		case "rna-U": // a character no nucleotide model encodes ("no index for character")
			b[0] = "U" + b[0][1:]
		case "question-mark":
			b[len(b)-1] = b[len(b)-1][:len(b[0])-1] + "?"
		case "protein": // E, Q, L: not a nucleotide alignment
			b[0] = "E" + b[0][1:]
			b[1] = b[1][:len(b[1])-1] + "Q"
		case "fewer-rows-than-the-range-minimum":
			b = b[:2]
		}
		bad[c.BadAt] = b
		good, broken := file(c.Alis), file(bad)
		defer os.Remove(good)
		defer os.Remove(broken)
		// control: every alignment intact
		args := append(distrun.Args(c.Opt, good, c.Threads), "-p")
		r := cli.Run("", args...)
		if r.TimedOut || r.Exit != 0 {
			return o, fmt.Errorf("goalign %v on %d computable alignments: exit %d (timed out %v), stderr %q", args, len(c.Alis), r.Exit, r.TimedOut, r.Stderr)
		}
		if _, mats, perr := distrun.ParseMatrices(r.Stdout); perr != nil || len(mats) != len(c.Alis) {
			return o, fmt.Errorf("goalign %v: %d alignments but the output is not as many matrices (%v)\n%s", args, len(c.Alis), perr, r.Stdout)
		}
		// one alignment cannot be computed
		args = append(distrun.Args(c.Opt, broken, c.Threads), "-p")
		r = cli.Run("", args...)
		if r.TimedOut {
			return o, fmt.Errorf("goalign %v did not return", args)
		}
		if r.Exit == 0 {
			return o, fmt.Errorf("goalign %v: alignment %d of %d cannot be computed (%s) but the exit status is 0; stdout:\n%s\nstderr: %q", args, c.BadAt+1, len(c.Alis), c.BadKind, r.Stdout, r.Stderr)
		}
		if strings.TrimSpace(r.Stderr) == "" {
			return o, fmt.Errorf("goalign %v: exit %d without any message", args, r.Exit)
		}
		o.NonTrivial = true
		o.Class("uncomputable alignment: %s", c.BadKind)
		switch {
		case c.BadAt == 0:
			o.Class("position: first")
		case c.BadAt == len(c.Alis)-1:
			o.Class("position: last")
		default:
			o.Class("position: middle")
		}
		return o, nil
	})
}

// ---- command line: bootstrap distance matrices (cmd/distboot.go), one model object for every replicate -----

type bootCase struct {
	Rows    []string        `json:"rows"`
	Opt     refdist.Options `json:"opt"`
	N       int             `json:"n"`
	Seed    int             `json:"seed"`
	Half    bool            `json:"half"` // -f 0.5: partial bootstrap
	ToFile  bool            `json:"to_file"`
	Layout  cli.Layout      `json:"layout"`
	Threads []int           `json:"threads"`
}

// TestCLIDistBoot: goalign build distboot -m <model> -n <k> --seed <s> [-r] [--alpha a] [-f 0.5] [-o file] -t <T>
// prints k well formed matrices (the rows of the alignment, symmetric, zero diagonal, no negative entry) and
// prints the same bytes for every -t: the bootstrap sample depends on the seed only, the matrix of a sample
// must not depend on the thread count, and the model object is the same for all replicates
func TestCLIDistBoot(t *testing.T) {
	if cli.Binary() == "" {
		t.Skip("no goalign binary")
	}
	dir := cli.TempDir("c08boot")
	pbt.Run(t, func(t *rapid.T) bootCase {
		var c bootCase
		c.Rows, _ = refdist.GenRows(t, 3, 12, 30, -1)
		c.Opt = refdist.GenOptions(t, len(c.Rows), len(c.Rows[0]), false, false)
		if c.Opt.Model == refdist.Raw {
			c.Opt.Model = refdist.PDist // the models the command documents
		}
		c.Opt.GapMut, c.Opt.RmAmbiguous = 0, false // no such flags here
		if !c.Opt.Gamma {
			c.Opt.Alpha = 0
		}
		c.N = rapid.IntRange(1, 4).Draw(t, "replicates")
		c.Seed = rapid.IntRange(0, 1000).Draw(t, "seed")
		c.Half = rapid.IntRange(0, 3).Draw(t, "half") == 2
		c.ToFile = rapid.Bool().Draw(t, "to-file")
		c.Layout = cli.DrawLayout(t)
		c.Threads = []int{1, rapid.SampledFrom([]int{2, 3, 4}).Draw(t, "threads"), rapid.SampledFrom([]int{8, 16, 32}).Draw(t, "many-threads")}
		return c
	}, func(c bootCase) (o pbt.Outcome, err error) {
		ali := distrun.Ali(c.Rows)
		in := cli.TempFile(dir, ".fa", cli.FastaLayout(ali.Rows, c.Layout))
		defer os.Remove(in)
		var first string
		for k, th := range c.Threads {
			args := []string{"build", "distboot", "-i", in, "-m", c.Opt.Model, "-n", fmt.Sprint(c.N), "--seed", fmt.Sprint(c.Seed), "-t", fmt.Sprint(th)}
			if c.Opt.RmGaps {
				args = append(args, "-r")
			}
			if c.Opt.Gamma {
				args = append(args, "--alpha", fmt.Sprint(c.Opt.Alpha))
			}
			if c.Half {
				args = append(args, "-f", "0.5")
			}
			out := ""
			if c.ToFile {
				out = in + ".boot"
				args = append(args, "-o", out)
				if k == 1 {
					cli.StaleFile(out, 300) // an existing output file is replaced
				}
			}
			r := cli.Run("", args...)
			if r.TimedOut || r.Exit != 0 {
				return o, fmt.Errorf("goalign %v: exit %d (timed out %v), stderr %q", args, r.Exit, r.TimedOut, r.Stderr)
			}
			text := r.Stdout
			if c.ToFile {
				b, e := os.ReadFile(out)
				os.Remove(out)
				if e != nil {
					return o, fmt.Errorf("goalign %v: output file not written: %v", args, e)
				}
				text = string(b)
			}
			if k == 0 {
				first = text
				names, mats, perr := distrun.ParseMatrices(text)
				if perr != nil || len(mats) != c.N {
					return o, fmt.Errorf("goalign %v: -n %d but the output is not %d matrices (%v):\n%s", args, c.N, c.N, perr, text)
				}
				for m := range mats {
					if len(mats[m]) != len(c.Rows) {
						return o, fmt.Errorf("goalign %v: replicate %d has %d rows for %d sequences", args, m+1, len(mats[m]), len(c.Rows))
					}
					for i := range mats[m] {
						if names[m][i] != ali.Rows[i].Name {
							return o, fmt.Errorf("goalign %v: replicate %d row %d is named %q", args, m+1, i, names[m][i])
						}
						for j := range mats[m][i] {
							a, b := mats[m][i][j], mats[m][j][i]
							if i == j && a != 0 || !sameBits(a, b) || a < 0 {
								return o, fmt.Errorf("goalign %v: replicate %d entries [%d][%d] = %v, [%d][%d] = %v", args, m+1, i, j, a, j, i, b)
							}
						}
					}
					o.NonTrivial = o.NonTrivial || hasFiniteNonZero(mats[m])
				}
				continue
			}
			if text != first {
				return o, fmt.Errorf("goalign %v prints other bytes than with -t %d (same --seed):\n%s\nagainst\n%s", args, c.Threads[0], text, first)
			}
		}
		o.Class("model=%s", c.Opt.Model)
		if c.Opt.RmGaps {
			o.Class("rm-gaps")
		}
		if c.Half {
			o.Class("partial bootstrap")
		}
		if c.ToFile {
			o.Class("output-file")
		}
		return o, nil
	})
}
