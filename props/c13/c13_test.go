// C13 - De-duplication and site compression lose nothing but redundancy
package c13

import (
	"fmt"
	"hash/fnv"
	"io"
	"log"
	"os"
	"sort"
	"strconv"
	"strings"
	"testing"

	"github.com/evolbioinfo/goalign/align"
	"pgregory.net/rapid"
	"verif/internal/cli"
	"verif/internal/gen"
	"verif/internal/pbt"
)

func TestMain(m *testing.M) {
	log.SetOutput(io.Discard)
	pbt.Main(m, "C13")
}

// ---- reference model of de-duplication -----------------------------------------------------------

// wildcard of an alphabet: the character that --n-as-gap / nAsGap treats as a gap ("X/N (depending
// on alphabet)")
func wildcard(alphabet string) byte {
	if alphabet == "aa" {
		return 'X'
	}
	return 'N'
}

// keyWith: the comparison key of a sequence when the characters of wild count as gaps
func keyWith(seq string, wild string) string {
	if wild == "" {
		return seq
	}
	b := []byte(seq)
	for i, c := range b {
		if strings.IndexByte(wild, c) >= 0 {
			b[i] = '-'
		}
	}
	return string(b)
}

// Container modes. "nt" / "aa": built with that alphabet. "unknown": built with align.UNKNOWN and
// never auto-detected. "both-ctor": NewAlign(align.BOTH). "auto": built with align.UNKNOWN, then
// AutoAlphabet() on the residues.
//
// definiteAlphabet: which alphabet a mode fixes beyond doubt, "" when it does not. Auto-detection is
// beyond doubt only when the residues contain a letter that exists in one alphabet alone and every
// other letter fits that alphabet.
func definiteAlphabet(mode string, rows []gen.Row) string {
	switch mode {
	case "nt", "aa":
		return mode
	case "auto":
		all := ""
		for _, r := range rows {
			all += strings.ToUpper(r.Seq)
		}
		in := func(set string) bool {
			for i := 0; i < len(all); i++ {
				if strings.IndexByte(set, all[i]) < 0 {
					return false
				}
			}
			return true
		}
		if strings.ContainsAny(all, "QEILFPZ") && in("ARNDCQEGHILKMFPSTWYVBZX-") {
			return "aa"
		}
		if strings.Contains(all, "U") && in("ACGTURYSWKMBDHVN-") {
			return "nt"
		}
	}
	return ""
}

// readingsFor: the sets of characters that nAsGap may treat as gaps, the preferred reading first.
// With a definite alphabet: its upper case wildcard ("X/N (depending on alphabet)"); the lower case
// wildcard as well is a second, open reading. Without one (the doc comment of Deduplicate says
// "considers N characters / X characters as identical to GAPs" and nothing about an unknown
// alphabet): no wildcard, N, X or both, each with or without lower case. In every reading a
// difference in any other residue keeps two sequences apart and kept rows keep their residues.
func readingsFor(mode string, rows []gen.Row, nAsGap bool) (readings []string, open bool) {
	if !nAsGap {
		return []string{""}, false
	}
	switch definiteAlphabet(mode, rows) {
	case "nt":
		return []string{"N", "Nn"}, false
	case "aa":
		return []string{"X", "Xx"}, false
	}
	return []string{"", "N", "X", "NX", "Nn", "Xx", "NXnx"}, true
}

type dedupModel struct {
	kept   []gen.Row
	groups [][]string // in order of the kept rows, members in input order
}

func refDedup(rows []gen.Row, key func(string) string) dedupModel {
	var m dedupModel
	idx := map[string]int{}
	for _, r := range rows {
		k := key(r.Seq)
		if i, ok := idx[k]; ok {
			m.groups[i] = append(m.groups[i], r.Name)
			continue
		}
		idx[k] = len(m.kept)
		m.kept = append(m.kept, r)
		m.groups = append(m.groups, []string{r.Name})
	}
	return m
}

func sameGroups(a, b [][]string) bool {
	if len(a) != len(b) {
		return false
	}
	for i := range a {
		if strings.Join(a[i], "\x00") != strings.Join(b[i], "\x00") {
			return false
		}
	}
	return true
}

// groupsUpToOrder: same partition, same leaders; only the order of the groups or of the members
// behind the leader differs (the statement fixes neither)
func groupsUpToOrder(got, want [][]string) bool {
	if len(got) != len(want) {
		return false
	}
	norm := func(g [][]string) []string {
		var out []string
		for _, x := range g {
			if len(x) == 0 {
				return nil
			}
			rest := append([]string{}, x[1:]...)
			sort.Strings(rest)
			out = append(out, x[0]+"\x01"+strings.Join(rest, "\x00"))
		}
		sort.Strings(out)
		return out
	}
	a, b := norm(got), norm(want)
	if a == nil || len(a) != len(b) {
		return false
	}
	for i := range a {
		if a[i] != b[i] {
			return false
		}
	}
	return true
}

// sameKept: the rows left are the model's kept rows. When every input name is distinct: same
// names, same residues, same order. When rows of the input share a name (possible after a renaming
// in place) the residues are judged by position; a kept row whose name is already borne by an
// earlier kept row may have been given another name (the container renames on collision)
func sameKept(o *pbt.Outcome, input, got, want []gen.Row) bool {
	if gen.SameRows(got, want) {
		return true
	}
	seen := map[string]bool{}
	shared := false
	for _, r := range input {
		shared = shared || seen[r.Name]
		seen[r.Name] = true
	}
	if !shared || len(got) != len(want) {
		return false
	}
	used := map[string]bool{}
	renamed := false
	for i := range want {
		if got[i].Seq != want[i].Seq {
			return false
		}
		switch {
		case got[i].Name == want[i].Name && !used[got[i].Name]:
		case used[want[i].Name] && !used[got[i].Name] && strings.HasPrefix(got[i].Name, want[i].Name):
			renamed = true
		default:
			return false
		}
		used[got[i].Name] = true
	}
	if renamed {
		o.Ambiguous++
		o.Class("kept-row-renamed-on-name-collision(accepted)")
	}
	return true
}

// judgeDedup compares an observed result (rows left in the container, groups) with the model under
// each admitted reading of the wildcard
func judgeDedup(o *pbt.Outcome, rows []gen.Row, wilds []string, gotRows []gen.Row, gotGroups [][]string) error {
	var readings []dedupModel
	for _, w := range wilds {
		w := w
		readings = append(readings, refDedup(rows, func(s string) string { return keyWith(s, w) }))
	}
	var firstErr error
	for ri, m := range readings {
		var err error
		switch {
		case !sameKept(o, rows, gotRows, m.kept):
			err = fmt.Errorf("rows kept: %s\n want (first occurrence of each distinct sequence, original order): %s", gen.Show(gotRows), gen.Show(m.kept))
		case gotGroups == nil: // only the rows are observable
		case sameGroups(gotGroups, m.groups):
		case groupsUpToOrder(gotGroups, m.groups):
			o.Ambiguous++
			o.Class("group-order-differs(accepted)")
		default:
			if len(m.groups) > 20 && len(gotGroups) == len(m.groups) {
				for gi := range m.groups {
					if strings.Join(gotGroups[gi], ",") != strings.Join(m.groups[gi], ",") {
						err = fmt.Errorf("%d groups reported; group %d is %v, want %v", len(gotGroups), gi, gotGroups[gi], m.groups[gi])
						break
					}
				}
			}
			if err == nil {
				err = fmt.Errorf("groups reported: %v\n want: %v", gotGroups, m.groups)
			}
		}
		if err == nil {
			if ri > 0 && !(gen.SameRows(m.kept, readings[0].kept) && sameGroups(m.groups, readings[0].groups)) {
				o.Ambiguous++
				o.Class("open-reading-of-n-as-gap(accepted):wildcards=%q", wilds[ri])
			}
			return nil
		}
		if firstErr == nil {
			firstErr = err
		}
	}
	if len(wilds) > 1 {
		return fmt.Errorf("%v\n (no admitted reading of the wildcard %q matches)", firstErr, wilds)
	}
	return firstErr
}

// ---- de-duplication through the library ------------------------------------------------------------

type dedupCase struct {
	Ali    gen.Ali `json:"ali"` // Ali.Alphabet: the alphabet the rows were drawn from ("nt" / "aa")
	Bag    bool    `json:"bag"`
	NAsGap bool    `json:"nasgap"`
	// Mode: how the container gets its alphabet (see definiteAlphabet); "" = Ali.Alphabet
	Mode string `json:"mode"`
	// Big: a large case in compact form (Ali.Rows is then empty and filled from it by the check)
	Big *bigRows `json:"big,omitempty"`
	// Plan: the alignment is obtained through this chain of public operations (gen.BuildVia)
	Plan *gen.Plan `json:"plan,omitempty"`
	// ViaRename: the names of Ali.Rows (some of them borne by several rows) are given by an in-place
	// Rename of a container built with the unique names t0, t1, ...
	ViaRename bool `json:"viarename,omitempty"`
}

// manyDistinct: N pairwise distinct strings of length L over Chars (string k spells k in base
// |Chars|, most significant digit first, after the multiplication by Mul modulo |Chars|^L which
// scatters them), interleaved with duplicates: Dups[i] = {p, q} puts a copy of string q right behind
// string p (q <= p). Few numbers describe hundreds of rows / columns
type manyDistinct struct {
	Chars string   `json:"chars"`
	L     int      `json:"l"`
	N     int      `json:"n"`
	Mul   int      `json:"mul"`
	Dups  [][2]int `json:"dups"`
}

func (m *manyDistinct) spell(k int) string {
	space := 1
	for i := 0; i < m.L; i++ {
		space *= len(m.Chars)
	}
	v := (k * m.Mul) % space
	b := make([]byte, m.L)
	for i := m.L - 1; i >= 0; i-- {
		b[i] = m.Chars[v%len(m.Chars)]
		v /= len(m.Chars)
	}
	return string(b)
}

func (m *manyDistinct) list() []string {
	var out []string
	for k := 0; k < m.N; k++ {
		out = append(out, m.spell(k))
		for _, d := range m.Dups {
			if d[0] == k {
				out = append(out, m.spell(d[1]))
			}
		}
	}
	return out
}

// genManyDistinct: N around the usual growth points of slices and tables (100, 128, 200, 256, 400,
// 512, 1024 when the space allows), duplicates of early, middle and late members placed early,
// in the middle and - mostly - late
func genManyDistinct(t *rapid.T, chars string, l int, sizes []int) *manyDistinct {
	m := &manyDistinct{Chars: chars, L: l}
	space := 1
	for i := 0; i < l; i++ {
		space *= len(chars)
	}
	m.N = rapid.SampledFrom(sizes).Draw(t, "manyN")
	if m.N > space {
		m.N = space
	}
	// a multiplier coprime with the size of the space keeps the strings distinct
	for _, c := range []int{rapid.SampledFrom([]int{1, 7, 11, 13, 17, 29, 31, 37, 41, 43}).Draw(t, "manymul"), 1} {
		if gcd(c, space) == 1 {
			m.Mul = c
			break
		}
	}
	m.Dups = [][2]int{}
	for k := rapid.IntRange(1, 8).Draw(t, "manydups"); k > 0; k-- {
		p := m.N - 1 - rapid.IntRange(0, m.N-1).Draw(t, "manydupbehind") // biased to the end
		if rapid.IntRange(0, 3).Draw(t, "manydupanywhere") == 0 {
			p = rapid.IntRange(0, m.N-1).Draw(t, "manydupat")
		}
		q := rapid.IntRange(0, p).Draw(t, "manydupof") // biased to the early members
		m.Dups = append(m.Dups, [2]int{p, q})
	}
	return m
}

var manySizes = []int{99, 100, 101, 102, 127, 128, 129, 199, 200, 201, 256, 257, 400, 401, 513}

// bigRows: many rows drawn from a small pool. Row i holds Pool[Idx[i]] and is named
// s<(i*NameMul) mod n> (NameMul coprime with n: distinct names, not in sorted order)
type bigRows struct {
	Pool    []string `json:"pool,omitempty"`
	Idx     []int    `json:"idx,omitempty"`
	NameMul int      `json:"namemul"`
	// Many: instead of Pool/Idx, more than ~100 distinct rows with a few duplicates
	Many *manyDistinct `json:"many,omitempty"`
}

func (b *bigRows) rows() []gen.Row {
	var seqs []string
	if b.Many != nil {
		seqs = b.Many.list()
	} else {
		for _, k := range b.Idx {
			seqs = append(seqs, b.Pool[k])
		}
	}
	n := len(seqs)
	mul := b.NameMul
	if mul == 0 || gcd(mul, n) != 1 {
		mul = 1
	}
	rows := make([]gen.Row, n)
	for i, sq := range seqs {
		rows[i] = gen.Row{Name: fmt.Sprintf("s%03d", (i*mul)%n), Seq: sq}
	}
	return rows
}

func gcd(a, b int) int {
	for b != 0 {
		a, b = b, a%b
	}
	return a
}

// genBigRows: n rows over a pool of 2..8 short sequences; pool member k becomes available only
// from row ~k*n/(2*np) on, so that first occurrences are scattered over the first half
func genBigRows(t *rapid.T, alphabet string, bag bool, sizes []int) *bigRows {
	w := string(wildcard(alphabet))
	chars := "AC" + w + "-"
	np := rapid.IntRange(2, 8).Draw(t, "bigpool")
	l := rapid.IntRange(1, 4).Draw(t, "bigL")
	b := &bigRows{}
	for k := 0; k < np; k++ {
		lk := l
		if bag {
			lk = rapid.IntRange(1, 4).Draw(t, "bigLk")
		}
		b.Pool = append(b.Pool, gen.SeqN(t, chars, lk))
	}
	n := rapid.SampledFrom(sizes).Draw(t, "bigrows")
	for i := 0; i < n; i++ {
		max := (2 * i * np) / n
		if max > np-1 {
			max = np - 1
		}
		b.Idx = append(b.Idx, rapid.IntRange(0, max).Draw(t, "bigidx"))
	}
	muls := []int{7, 11, 13, 17, 19, 23, 29, 31, 37, 1}
	start := rapid.IntRange(0, len(muls)-1).Draw(t, "bigname")
	for k := range muls {
		if m := muls[(start+k)%len(muls)]; gcd(m, n) == 1 {
			b.NameMul = m
			break
		}
	}
	return b
}

var bigRowCounts = []int{13, 13, 14, 16, 17, 20, 25, 33, 50, 64, 100, 200}

func (c dedupCase) mode() string {
	if c.Mode == "" {
		return c.Ali.Alphabet
	}
	return c.Mode
}

// foreignSuffixes: appended to every row so that auto-detection finds letters of neither alphabet
// (J), of both exclusive kinds (U with E, O with Q), or - the last two - of one kind only
var foreignSuffixes = []string{"J", "UE", "QO", "Ju", "U", "E"}

// genRows draws rows from a small pool of base sequences, with variants that differ only by the
// wildcard vs gap, by case, by one residue, or (sequence sets) by being a prefix of another row
func genRows(t *rapid.T, alphabet string, bag bool, maxRows, maxLen int) []gen.Row {
	letters := "AC"
	switch rapid.IntRange(0, 3).Draw(t, "letters") {
	case 0:
		letters = "ACGT"
	case 1:
		letters = "A"
	}
	w := wildcard(alphabet)
	other := byte('X')
	if alphabet == "aa" {
		other = 'N'
		if rapid.Bool().Draw(t, "aaletters") {
			letters = "EQ" + letters
		}
	}
	n := rapid.IntRange(1, maxRows).Draw(t, "rows")
	l := rapid.IntRange(1, maxLen).Draw(t, "L")
	npool := rapid.IntRange(1, 4).Draw(t, "pool")
	pool := make([]string, npool)
	for i := range pool {
		// base sequences carry gaps and wildcards themselves
		pool[i] = gen.SeqN(t, letters+letters+"-"+string(w), l)
	}
	names := gen.Perm(t, n, "names")
	rows := make([]gen.Row, n)
	for i := range rows {
		s := []byte(pool[rapid.IntRange(0, npool-1).Draw(t, "p")])
		switch rapid.IntRange(0, 11).Draw(t, "variant") {
		case 0, 1: // wildcard <-> gap at some positions
			k := rapid.IntRange(1, 3).Draw(t, "k")
			for ; k > 0; k-- {
				p := rapid.IntRange(0, len(s)-1).Draw(t, "pos")
				switch s[p] {
				case w:
					s[p] = '-'
				case '-':
					s[p] = w
				default:
					s[p] = []byte{w, '-'}[rapid.IntRange(0, 1).Draw(t, "which")]
				}
			}
		case 2: // the other alphabet's wildcard, never a gap
			s[rapid.IntRange(0, len(s)-1).Draw(t, "pos")] = other
		case 3: // lower case wildcard
			s[rapid.IntRange(0, len(s)-1).Draw(t, "pos")] = w + 32
		case 4: // a residue in lower case: a different sequence
			p := rapid.IntRange(0, len(s)-1).Draw(t, "pos")
			if s[p] >= 'A' && s[p] <= 'Z' {
				s[p] += 32
			}
		case 5: // one substitution
			s[rapid.IntRange(0, len(s)-1).Draw(t, "pos")] = letters[rapid.IntRange(0, len(letters)-1).Draw(t, "c")]
		case 6:
			if bag { // a proper prefix, or an extension
				if rapid.Bool().Draw(t, "shorter") && len(s) > 1 {
					s = s[:rapid.IntRange(1, len(s)-1).Draw(t, "cut")]
				} else {
					s = append(s, gen.SeqN(t, letters+"-"+string(w), rapid.IntRange(1, 3).Draw(t, "ext"))...)
				}
			}
		}
		rows[i] = gen.Row{Name: fmt.Sprintf("s%d", names[i]), Seq: string(s)}
	}
	return rows
}

// oddNames: names are arbitrary strings. A share of the cases renames up to three rows into a
// variant of a row's name - a blank behind it (what the FASTA reader keeps of ">s2 "), blanks in
// front (library only), upper case - so that names equal up to blanks or case coexist
func oddNames(t *rapid.T, rows []gen.Row, leading bool) {
	if len(rows) == 0 || rapid.IntRange(0, 3).Draw(t, "oddnames") != 0 {
		return
	}
	for k := rapid.IntRange(1, 3).Draw(t, "nodd"); k > 0; k-- {
		i := rapid.IntRange(0, len(rows)-1).Draw(t, "oddrow")
		base := rows[rapid.IntRange(0, len(rows)-1).Draw(t, "oddof")].Name
		v := rapid.IntRange(0, 13).Draw(t, "oddkind")
		if !leading && v == 1 {
			v = 0
		}
		// 5..13: characters that matter to printf-style, shell-style and escape handling
		name := []string{base + " ", " " + base, strings.ToUpper(strings.TrimSpace(base)), base + "  ", strings.TrimSpace(base) + " ",
			base + "%2F1", "95%" + base, base + "%", base + "\\", "$" + base, base + "{}", base + "*?", "~" + base, base + "%d%s\\n"}[v]
		clash := false
		for j := range rows {
			clash = clash || (j != i && rows[j].Name == name)
		}
		if !clash {
			rows[i].Name = name
		}
	}
}

func hasOddNames(rows []gen.Row) bool {
	for _, r := range rows {
		if strings.TrimSpace(r.Name) != r.Name || strings.ToLower(r.Name) != r.Name || strings.ContainsAny(r.Name, "%\\${}*?~") {
			return true
		}
	}
	return false
}

func genDedup(t *rapid.T) dedupCase {
	var c dedupCase
	c.Bag = rapid.Bool().Draw(t, "bag")
	c.NAsGap = rapid.Bool().Draw(t, "nasgap")
	c.Ali.Alphabet = rapid.SampledFrom([]string{"nt", "aa"}).Draw(t, "alphabet")
	if rapid.SampledFrom([]int{0, 0, 0, 0, 0, 0, 0, 0, 0, 0, 0, 0, 0, 0, 0, 0, 0, 0, 0, 0, 0, 0, 0, 1}).Draw(t, "big") == 1 {
		// low-rate class: 13..200 rows
		c.Big = genBigRows(t, c.Ali.Alphabet, c.Bag, bigRowCounts)
		if rapid.IntRange(0, 2).Draw(t, "many") == 0 {
			// ... or 99..520 pairwise distinct rows with a few duplicates, mostly late ones of early rows
			chars := "ACGT"
			if rapid.Bool().Draw(t, "manywild") {
				chars = "AC" + string(wildcard(c.Ali.Alphabet)) + "-T"
			}
			c.Big = &bigRows{Many: genManyDistinct(t, chars, 5, manySizes), NameMul: rapid.SampledFrom([]int{1, 7, 11, 13}).Draw(t, "manyname")}
		}
		c.Mode = rapid.SampledFrom([]string{"", "", "unknown", "auto"}).Draw(t, "mode")
		return c
	}
	c.Ali.Rows = genRows(t, c.Ali.Alphabet, c.Bag, 10, 12)
	oddNames(t, c.Ali.Rows, true)
	if len(c.Ali.Rows) >= 2 && rapid.IntRange(0, 7).Draw(t, "sharednames") == 0 {
		// names edited in place (a many-to-one Rename): several rows bear the same name
		for k := rapid.IntRange(1, 3).Draw(t, "nshared"); k > 0; k-- {
			i := rapid.IntRange(0, len(c.Ali.Rows)-1).Draw(t, "sharedrow")
			c.Ali.Rows[i].Name = c.Ali.Rows[rapid.IntRange(0, len(c.Ali.Rows)-1).Draw(t, "sharedwith")].Name
		}
		c.ViaRename = true
		c.Mode = rapid.SampledFrom([]string{"", "", "unknown", "auto"}).Draw(t, "mode")
		return c
	}
	if !c.Bag && rapid.Bool().Draw(t, "provenance") {
		// an alignment (of the alphabet its rows were drawn from) that was cloned, renamed, cut,
		// cleaned, concatenated, re-parsed ... before
		p := gen.DrawPlan(t, c.Ali, "ACGT-NX", 3)
		c.Plan = &p
		return c
	}
	c.Mode = rapid.SampledFrom([]string{"", "", "", "unknown", "unknown", "both-ctor", "auto", "auto", "auto"}).Draw(t, "mode")
	if c.Mode == "both-ctor" && c.Bag {
		c.Mode = "unknown" // NewSeqBag refuses align.BOTH by exiting
	}
	if c.Mode == "auto" && rapid.IntRange(0, 3).Draw(t, "foreign") != 0 {
		suffix := rapid.SampledFrom(foreignSuffixes).Draw(t, "suffix")
		for i := range c.Ali.Rows {
			c.Ali.Rows[i].Seq += suffix
		}
	}
	return c
}

// provenance of the last container built (classes only)
var lastProvenance string

func buildBag(c dedupCase) align.SeqBag {
	lastProvenance = ""
	if c.ViaRename {
		tmp := c
		tmp.ViaRename, tmp.Plan = false, nil
		tmp.Ali.Rows = append([]gen.Row{}, c.Ali.Rows...)
		names := map[string]string{}
		for i := range tmp.Ali.Rows {
			tmp.Ali.Rows[i].Name = fmt.Sprintf("t%d", i)
			names[tmp.Ali.Rows[i].Name] = c.Ali.Rows[i].Name
		}
		sb := buildBag(tmp)
		sb.Rename(names)
		return sb
	}
	if c.Plan != nil && !c.Bag && (c.mode() == "nt" || c.mode() == "aa") {
		a := c.Ali
		a.Alphabet = c.mode()
		lastProvenance = "provenance-unusable"
		want := align.NUCLEOTIDS
		if a.Alphabet == "aa" {
			want = align.AMINOACIDS
		}
		if al, usable := gen.BuildVia(a, *c.Plan); usable && al.Alphabet() == want && gen.SameRows(gen.Snapshot(al), a.Rows) {
			lastProvenance = "provenance:yes"
			return al
		}
	}
	a := c.Ali
	switch c.mode() {
	case "nt", "aa":
		a.Alphabet = c.mode()
	case "auto":
		a.Alphabet = "auto"
	case "both-ctor":
		al := align.NewAlign(align.BOTH)
		for _, r := range a.Rows {
			if err := al.AddSequence(r.Name, r.Seq, ""); err != nil {
				panic("harness: " + err.Error())
			}
		}
		return al
	default: // "unknown": align.UNKNOWN, no detection
		a.Alphabet = "unknown"
	}
	if c.Bag {
		return gen.BuildBag(a)
	}
	return gen.MustBuild(a)
}

func alphabetName(code int) string {
	switch code {
	case align.NUCLEOTIDS:
		return "NUCLEOTIDS"
	case align.AMINOACIDS:
		return "AMINOACIDS"
	case align.BOTH:
		return "BOTH"
	case align.UNKNOWN:
		return "UNKNOWN"
	}
	return fmt.Sprint(code)
}

func readDistinct(rows []gen.Row) map[string]bool {
	d := map[string]bool{}
	for _, r := range rows {
		d[r.Seq] = true
	}
	return d
}

func classifyDedup(o *pbt.Outcome, rows []gen.Row, nAsGap bool, wild string) {
	plain := refDedup(rows, func(s string) string { return s })
	m := refDedup(rows, func(s string) string { return keyWith(s, wild) })
	o.NonTrivial = len(m.kept) < len(rows) && len(m.kept) >= 2
	switch {
	case len(rows) == 1:
		o.Class("structure=single-row")
	case len(m.kept) == 1:
		o.Class("structure=all-identical")
	case len(m.kept) == len(rows):
		o.Class("structure=all-distinct")
	default:
		o.Class("structure=mixed")
	}
	if nAsGap && len(m.kept) < len(plain.kept) {
		o.Class("n-as-gap-merges-more")
	}
	if nAsGap && len(m.kept) < len(rows) {
		// a kept row that is not the gap-normalised form: original residues must survive
		for _, r := range m.kept {
			if keyWith(r.Seq, wild) != r.Seq {
				o.Class("kept-row-carries-wildcard")
				break
			}
		}
	}
	for i := range m.groups {
		if len(m.groups[i]) > 1 && m.groups[i][0] != m.kept[i].Name {
			panic("harness: model group not led by its kept row")
		}
	}
	// non adjacent duplicates, duplicate of a row that is not the first one
	last := map[string]int{}
	for i, r := range rows {
		k := keyWith(r.Seq, wild)
		if j, ok := last[k]; ok && i-j > 1 {
			o.Class("duplicates-not-adjacent")
		}
		last[k] = i
	}
	for i := range rows {
		for j := range rows {
			if i != j && len(rows[i].Seq) < len(rows[j].Seq) && strings.HasPrefix(rows[j].Seq, rows[i].Seq) {
				o.Class("row-is-prefix-of-another")
				return
			}
		}
	}
}

func checkDedup(c dedupCase) (o pbt.Outcome, err error) {
	if c.Big != nil {
		c.Ali.Rows = c.Big.rows()
	}
	sb := buildBag(c)
	prov := lastProvenance
	rows := c.Ali.Rows
	if !gen.SameRows(gen.Snapshot(sb), rows) {
		return o, fmt.Errorf("harness: container does not hold the generated rows")
	}
	groups, e := sb.Deduplicate(c.NAsGap)
	if e != nil {
		return o, fmt.Errorf("Deduplicate fails: %v", e)
	}
	got := gen.Snapshot(sb)
	containerAlphabet := alphabetName(sb.Alphabet())
	wilds, open := readingsFor(c.mode(), rows, c.NAsGap)
	if groups == nil {
		groups = [][]string{}
	}
	if err = judgeDedup(&o, rows, wilds, got, groups); err != nil {
		return o, fmt.Errorf("%v\n (container alphabet %s, mode %s, nAsGap %v)", err, containerAlphabet, c.mode(), c.NAsGap)
	}
	// the container is consistent with what is left: by name, counts, length
	if sb.NbSequences() != len(got) {
		return o, fmt.Errorf("NbSequences() = %d, %d rows readable", sb.NbSequences(), len(got))
	}
	keptNames := map[string]string{}
	for _, r := range got {
		keptNames[r.Name] = r.Seq
	}
	nameCount := map[string]int{}
	for _, r := range rows {
		nameCount[r.Name]++
	}
	sharedNames := len(nameCount) < len(rows)
	for _, r := range rows {
		if sharedNames {
			break // which row a name designates after a collision is not this property's business
		}
		s, ok := sb.GetSequence(r.Name)
		want, kept := keptNames[r.Name]
		if ok != kept || (kept && s != want) {
			return o, fmt.Errorf("GetSequence(%q) = %q,%v after de-duplication; kept=%v", r.Name, s, ok, kept)
		}
	}
	for _, r := range got { // every row left is reachable under the name it now bears
		if s, ok := sb.GetSequence(r.Name); !ok || s != r.Seq {
			return o, fmt.Errorf("GetSequence(%q) = %q,%v after de-duplication, the row read by index holds %q", r.Name, s, ok, r.Seq)
		}
	}
	if al, ok := sb.(align.Alignment); ok && al.Length() != len(rows[0].Seq) {
		return o, fmt.Errorf("Length() = %d after de-duplication of an alignment of length %d", al.Length(), len(rows[0].Seq))
	}
	// idempotent: a second call reports singletons and changes nothing
	groups2, e2 := sb.Deduplicate(c.NAsGap)
	if e2 != nil {
		return o, fmt.Errorf("second Deduplicate fails: %v", e2)
	}
	if !gen.SameRows(gen.Snapshot(sb), got) {
		return o, fmt.Errorf("second Deduplicate changes the rows: %s -> %s", gen.Show(got), gen.Show(gen.Snapshot(sb)))
	}
	if len(groups2) != len(got) {
		return o, fmt.Errorf("second Deduplicate reports %d groups for %d rows: %v", len(groups2), len(got), groups2)
	}
	seen := map[string]bool{}
	for _, g := range groups2 {
		if len(g) != 1 || seen[g[0]] {
			return o, fmt.Errorf("second Deduplicate does not report singletons: %v", groups2)
		}
		if _, ok := keptNames[g[0]]; !ok {
			return o, fmt.Errorf("second Deduplicate reports the unknown name %q", g[0])
		}
		seen[g[0]] = true
	}
	classifyDedup(&o, rows, c.NAsGap, wilds[0])
	o.Class("bag=%v", c.Bag)
	o.Class("nasgap=%v,mode=%s", c.NAsGap, c.mode())
	o.Class("nasgap=%v,container-alphabet=%s", c.NAsGap, containerAlphabet)
	if open {
		o.Class("wildcard-open(bag=%v)", c.Bag)
	}
	if prov != "" {
		o.Class(prov)
		if prov == "provenance:yes" {
			for _, k := range c.Plan.Kinds() {
				o.Class("provenance-step:%s", k)
			}
		}
	}
	if hasOddNames(rows) {
		o.Class("names-with-blanks-or-upper-case,bag=%v", c.Bag)
	}
	if sharedNames {
		o.Class("rows-sharing-a-name(after Rename),bag=%v", c.Bag)
		bySeq := map[string]map[string]bool{}
		for _, r := range rows {
			if bySeq[r.Name] == nil {
				bySeq[r.Name] = map[string]bool{}
			}
			bySeq[r.Name][r.Seq] = true
		}
		for _, m := range bySeq {
			if len(m) > 1 {
				o.Class("different-sequences-sharing-a-name")
				break
			}
		}
	}
	if len(readDistinct(rows)) > 100 {
		o.Class("large:distinct rows>100")
	}
	switch {
	case len(rows) >= 100:
		o.Class("large:rows>=100,bag=%v", c.Bag)
	case len(rows) > 12:
		o.Class("large:rows 13..99,bag=%v", c.Bag)
	}
	return o, nil
}

func TestDedup(t *testing.T) { pbt.Run(t, genDedup, checkDedup) }

// every alignment of up to 4 rows x 2 columns (3 rows x 3 columns) over {A,N,-}, both settings
func TestDedupExhaustive(t *testing.T) {
	letters := "AN-"
	type shape struct{ n, l int }
	shapes := []shape{{1, 1}, {2, 1}, {3, 1}, {4, 1}, {1, 2}, {2, 2}, {3, 2}, {4, 2}, {2, 3}, {3, 3}}
	if pbt.Thorough() {
		shapes = append(shapes, shape{5, 2}, shape{4, 3}, shape{3, 4})
	}
	pbt.Enumerate(t, "Deduplicate(false/true) on every alignment over {A,N,-} of the listed small shapes (up to 4x2 and 3x3; thorough: 5x2, 4x3, 3x4), held in a nucleotide alignment, an alignment and a sequence set of unknown alphabet, NewAlign(BOTH) and an auto-detected alignment", func(yield func(dedupCase) bool) {
		for _, sh := range shapes {
			cells := sh.n * sh.l
			total := 1
			for i := 0; i < cells; i++ {
				total *= len(letters)
			}
			for code := 0; code < total; code++ {
				x := code
				rows := make([]gen.Row, sh.n)
				for i := range rows {
					b := make([]byte, sh.l)
					for j := range b {
						b[j] = letters[x%len(letters)]
						x /= len(letters)
					}
					rows[i] = gen.Row{Name: fmt.Sprintf("r%d", (i+1)%sh.n), Seq: string(b)}
				}
				for _, nag := range []bool{false, true} {
					for _, v := range []struct {
						mode string
						bag  bool
					}{{"nt", false}, {"unknown", false}, {"unknown", true}, {"both-ctor", false}, {"auto", false}} {
						if !yield(dedupCase{Ali: gen.Ali{Rows: rows, Alphabet: "nt"}, NAsGap: nag, Mode: v.mode, Bag: v.bag}) {
							return
						}
					}
				}
			}
		}
	}, func(c dedupCase) (o pbt.Outcome, err error) {
		o, err = checkDedup(c)
		if o.NonTrivial {
			var sb strings.Builder
			for _, r := range c.Ali.Rows {
				sb.WriteString(r.Seq + "/")
			}
			o.Key = fmt.Sprintf("%s%v%s%v", sb.String(), c.NAsGap, c.Mode, c.Bag)
		}
		return
	})
}

// ---- site compression -------------------------------------------------------------------------------

type compressCase struct {
	Ali gen.Ali `json:"ali"`
	// Big: a long alignment in compact form (Ali.Rows is then empty and filled from it by the check)
	Big *bigCols `json:"big,omitempty"`
	// Plan: the alignment is obtained through this chain of public operations (gen.BuildVia)
	Plan *gen.Plan `json:"plan,omitempty"`
}

// bigCols: a long alignment. Column j holds the pattern Pool[Cycle[j mod len(Cycle)]], except the
// columns Over[k][0], which hold Pool[Over[k][1]]; rows are named r0, r1, ...
type bigCols struct {
	Pool  []string `json:"pool,omitempty"`
	Cycle []int    `json:"cycle,omitempty"`
	L     int      `json:"l,omitempty"`
	Over  [][2]int `json:"over,omitempty"`
	// Many: instead of the above, hundreds of pairwise distinct columns with a few repeated ones
	Many *manyDistinct `json:"many,omitempty"`
}

func (b *bigCols) ali() gen.Ali {
	var patterns []string
	if b.Many != nil {
		patterns = b.Many.list()
	} else {
		cols := make([]int, b.L)
		for j := range cols {
			cols[j] = b.Cycle[j%len(b.Cycle)]
		}
		for _, ov := range b.Over {
			cols[ov[0]] = ov[1]
		}
		for _, k := range cols {
			patterns = append(patterns, b.Pool[k])
		}
	}
	n := len(patterns[0])
	a := gen.Ali{Alphabet: "nt"}
	for i := 0; i < n; i++ {
		row := make([]byte, len(patterns))
		for j, p := range patterns {
			row[j] = p[i]
		}
		a.Rows = append(a.Rows, gen.Row{Name: fmt.Sprintf("r%d", i), Seq: string(row)})
	}
	return a
}

// genBigCols: 2..6 rows, a pool of 2..8 patterns (some derived from others by one change), a cycle
// of 1..40 pattern indices so that every stretch of a few hundred sites holds several patterns, a
// few single-site overrides near the positions 0, 1023/1024/1025, 2047/2048 and L-1 (patterns that
// occur in one stretch only), and lengths at and around multiples of 1024
func genBigCols(t *rapid.T, lengths []int, maxLen int) *bigCols {
	chars := rapid.SampledFrom([]string{"AC", "ACGT", "AC-N"}).Draw(t, "bigchars")
	n := rapid.IntRange(2, 6).Draw(t, "bigrows")
	np := rapid.IntRange(2, 8).Draw(t, "bigpool")
	b := &bigCols{}
	for len(b.Pool) < np {
		if len(b.Pool) == 0 || rapid.Bool().Draw(t, "bigfresh") {
			b.Pool = append(b.Pool, gen.SeqN(t, chars, n))
			continue
		}
		p := []byte(b.Pool[rapid.IntRange(0, len(b.Pool)-1).Draw(t, "bigfrom")])
		p[rapid.IntRange(0, n-1).Draw(t, "bigpos")] = chars[rapid.IntRange(0, len(chars)-1).Draw(t, "bigc")]
		b.Pool = append(b.Pool, string(p))
	}
	inCycle := rapid.IntRange(1, np).Draw(t, "bigincycle")
	lc := rapid.IntRange(1, 40).Draw(t, "bigcycle")
	for k := 0; k < lc; k++ {
		b.Cycle = append(b.Cycle, rapid.IntRange(0, inCycle-1).Draw(t, "bigcyc"))
	}
	b.L = rapid.SampledFrom(lengths).Draw(t, "bigL")
	if b.L == 0 {
		b.L = rapid.IntRange(1025, maxLen).Draw(t, "bigLfree")
	}
	b.Over = [][2]int{}
	for k := rapid.IntRange(0, 6).Draw(t, "bigover"); k > 0; k-- {
		pos := rapid.SampledFrom([]int{0, 1, 1022, 1023, 1024, 1025, 2047, 2048, 2049, b.L - 2, b.L - 1, -1}).Draw(t, "bigoverpos")
		if pos < 0 || pos >= b.L {
			pos = rapid.IntRange(0, b.L-1).Draw(t, "bigoverfree")
		}
		b.Over = append(b.Over, [2]int{pos, rapid.IntRange(0, np-1).Draw(t, "bigoverpat")})
	}
	return b
}

var bigColLengths = []int{1023, 1024, 1025, 2047, 2048, 2049, 3072, 3073, 4096, 5000, 0, 0, 0}

// showRows: gen.Show with long rows cut
func showRows(rows []gen.Row) string {
	if len(rows) == 0 || len(rows[0].Seq) <= 120 {
		return gen.Show(rows)
	}
	var sb strings.Builder
	for _, r := range rows {
		fmt.Fprintf(&sb, "%s=%s...(%d) ", r.Name, r.Seq[:60], len(r.Seq))
	}
	return sb.String()
}

func columnsOf(rows []gen.Row) []string {
	if len(rows) == 0 {
		return nil
	}
	cols := make([]string, len(rows[0].Seq))
	for j := range cols {
		cols[j] = gen.Column(rows, j)
	}
	return cols
}

func colHash(col string) uint64 {
	h := fnv.New32a()
	h.Write([]byte(col))
	return uint64(h.Sum32())
}

// genPatterns: columns drawn with repetition from a pool of 1..5 patterns; new pool members are
// often copies of an earlier one changed at the last / first / a drawn row, so that patterns share
// long prefixes (or nothing)
func genPatterns(t *rapid.T, chars string, maxRows, maxLen int) gen.Ali {
	n := rapid.IntRange(1, maxRows).Draw(t, "rows")
	l := rapid.IntRange(1, maxLen).Draw(t, "L")
	np := rapid.IntRange(1, 5).Draw(t, "npatterns")
	pool := make([]string, 0, np)
	for len(pool) < np {
		if len(pool) == 0 || rapid.IntRange(0, 2).Draw(t, "fresh") == 0 {
			pool = append(pool, gen.SeqN(t, chars, n))
			continue
		}
		b := []byte(pool[rapid.IntRange(0, len(pool)-1).Draw(t, "from")])
		pos := n - 1
		switch rapid.IntRange(0, 3).Draw(t, "where") {
		case 0:
			pos = 0
		case 1:
			pos = rapid.IntRange(0, n-1).Draw(t, "pos")
		}
		b[pos] = chars[rapid.IntRange(0, len(chars)-1).Draw(t, "c")]
		if rapid.IntRange(0, 3).Draw(t, "tail") == 0 { // everything behind pos changes too
			for k := pos; k < n; k++ {
				b[k] = chars[rapid.IntRange(0, len(chars)-1).Draw(t, "c")]
			}
		}
		pool = append(pool, string(b))
	}
	cols := make([]string, l)
	for j := range cols {
		if rapid.IntRange(0, 5).Draw(t, "freshcol") == 0 {
			cols[j] = gen.SeqN(t, chars, n)
		} else {
			cols[j] = pool[rapid.IntRange(0, np-1).Draw(t, "p")]
		}
	}
	a := gen.Ali{Alphabet: "nt"}
	names := gen.Perm(t, n, "names")
	for i := 0; i < n; i++ {
		b := make([]byte, l)
		for j := range cols {
			b[j] = cols[j][i]
		}
		a.Rows = append(a.Rows, gen.Row{Name: fmt.Sprintf("s%d", names[i]), Seq: string(b)})
	}
	return a
}

func genCompress(t *rapid.T) compressCase {
	if rapid.SampledFrom([]int{0, 0, 0, 0, 0, 0, 0, 0, 0, 0, 0, 0, 0, 0, 0, 0, 0, 0, 0, 0, 0, 0, 0, 0, 0, 0, 0, 0, 0, 0, 0, 0, 0, 0, 0, 0, 0, 0, 0, 1}).Draw(t, "big") == 1 {
		// low-rate class: 1 023..5 000 sites over a small pool of patterns ...
		if rapid.IntRange(0, 2).Draw(t, "many") != 0 {
			return compressCase{Big: genBigCols(t, bigColLengths, 5000)}
		}
		// ... or 99..1 100 pairwise distinct patterns (4-6 rows) with a few repeated ones
		return compressCase{Big: &bigCols{Many: genManyDistinct(t, "ACGT", rapid.IntRange(4, 6).Draw(t, "manyrows"), append([]int{1023, 1024, 1025, 1100}, manySizes...))}}
	}
	chars := "AC"
	alphabet := "nt"
	switch rapid.IntRange(0, 4).Draw(t, "chars") {
	case 0:
		chars = "ACGT-N"
	case 1:
		chars = "A-"
	case 2:
		chars = "ARNDCQEGHILKMFPSTWYV-X*"
		alphabet = "aa"
	case 3:
		chars = "ACac"
	}
	a := genPatterns(t, chars, 8, 14)
	a.Alphabet = alphabet
	oddNames(t, a.Rows, true)
	c := compressCase{Ali: a}
	if rapid.IntRange(0, 2).Draw(t, "provenance") == 0 {
		p := gen.DrawPlan(t, a, chars+"-", 3)
		c.Plan = &p
	}
	return c
}

// judgeCompress: weights and compressed rows against the original rows
func judgeCompress(orig []gen.Row, got []gen.Row, weights []int) error {
	if len(got) != len(orig) {
		return fmt.Errorf("%d rows after compression, %d before", len(got), len(orig))
	}
	for i := range got {
		if got[i].Name != orig[i].Name {
			return fmt.Errorf("row %d is named %q after compression, %q before", i, got[i].Name, orig[i].Name)
		}
		if len(got[i].Seq) != len(weights) {
			return fmt.Errorf("row %q has %d columns but there are %d weights", got[i].Name, len(got[i].Seq), len(weights))
		}
	}
	L := len(orig[0].Seq)
	want := map[string]int{}
	var wantStat uint64
	for _, c := range columnsOf(orig) {
		want[c]++
		wantStat += colHash(c)
	}
	sum := 0
	var gotStat uint64
	seen := map[string]int{}
	for i, c := range columnsOf(got) {
		if j, dup := seen[c]; dup {
			return fmt.Errorf("compressed columns %d and %d are the same pattern %q", j, i, c)
		}
		seen[c] = i
		if weights[i] < 1 {
			return fmt.Errorf("weight %d of pattern %q is %d", i, c, weights[i])
		}
		if want[c] != weights[i] {
			return fmt.Errorf("pattern %q (column %d) has weight %d but occurs %d times in the original", c, i, weights[i], want[c])
		}
		sum += weights[i]
		gotStat += uint64(weights[i]) * colHash(c)
	}
	if sum != L {
		return fmt.Errorf("weights sum to %d, original length %d", sum, L)
	}
	if len(seen) != len(want) {
		return fmt.Errorf("%d patterns after compression, %d distinct columns in the original", len(seen), len(want))
	}
	if gotStat != wantStat {
		return fmt.Errorf("column-additive statistic %d after compression, %d before", gotStat, wantStat)
	}
	return nil
}

func readDistinctCols(rows []gen.Row) map[string]bool {
	d := map[string]bool{}
	for _, c := range columnsOf(rows) {
		d[c] = true
	}
	return d
}

func classifyCompress(o *pbt.Outcome, rows []gen.Row) {
	cols := columnsOf(rows)
	distinct := map[string]bool{}
	for _, c := range cols {
		distinct[c] = true
	}
	o.NonTrivial = len(distinct) < len(cols) && len(distinct) >= 2
	switch {
	case len(cols) == 1:
		o.Class("structure=single-column")
	case len(distinct) == 1:
		o.Class("structure=all-identical")
	case len(distinct) == len(cols):
		o.Class("structure=all-distinct")
	default:
		o.Class("structure=mixed")
	}
	if len(rows) == 1 {
		o.Class("single-row")
	}
	// longest common prefix between two distinct patterns
	var ds []string
	for c := range distinct {
		ds = append(ds, c)
	}
	sort.Strings(ds)
	best := -1
	for i := 1; i < len(ds); i++ {
		k := 0
		for k < len(ds[i]) && ds[i][k] == ds[i-1][k] {
			k++
		}
		if k > best {
			best = k
		}
	}
	switch {
	case best < 0:
	case best == 0:
		o.Class("patterns-share-no-prefix")
	case len(rows) > 1 && best == len(rows)-1:
		o.Class("patterns-differ-in-last-row-only")
	default:
		o.Class("patterns-share-a-prefix")
	}
	// is the sorted order of the patterns different from their order of first appearance
	var first []string
	seen := map[string]bool{}
	for _, c := range cols {
		if !seen[c] {
			seen[c] = true
			first = append(first, c)
		}
	}
	if !sort.StringsAreSorted(first) {
		o.Class("first-appearance-order-differs-from-sorted-order")
	}
	w := map[string]int{}
	for _, c := range cols {
		w[c]++
	}
	ws := map[int]bool{}
	for _, v := range w {
		ws[v] = true
	}
	if len(ws) > 1 {
		o.Class("unequal-weights")
	}
}

func checkCompress(c compressCase) (o pbt.Outcome, err error) {
	if c.Big != nil {
		c.Ali = c.Big.ali()
	}
	al := gen.MustBuild(c.Ali)
	prov := ""
	if c.Plan != nil {
		prov = "provenance-unusable"
		if via, usable := gen.BuildVia(c.Ali, *c.Plan); usable && gen.SameRows(gen.Snapshot(via), c.Ali.Rows) {
			al, prov = via, "provenance:yes"
		}
	}
	rows := c.Ali.Rows
	if !gen.SameRows(gen.Snapshot(al), rows) {
		return o, fmt.Errorf("harness: container does not hold the generated rows")
	}
	weights := al.Compress()
	got := gen.Snapshot(al)
	if al.Length() != len(weights) {
		return o, fmt.Errorf("Length() = %d after compression, %d weights", al.Length(), len(weights))
	}
	if err = judgeCompress(rows, got, weights); err != nil {
		if len(weights) > 40 {
			weights = weights[:40]
		}
		return o, fmt.Errorf("%v\n before: %s\n after : %s weights %v", err, showRows(rows), showRows(got), weights)
	}
	for _, r := range got {
		if s, ok := al.GetSequence(r.Name); !ok || s != r.Seq {
			return o, fmt.Errorf("GetSequence(%q) = %q,%v after compression, by index %q", r.Name, s, ok, r.Seq)
		}
	}
	// the statement applied to the result: every pattern once, weight 1
	w2 := al.Compress()
	got2 := gen.Snapshot(al)
	if err = judgeCompress(got, got2, w2); err != nil {
		return o, fmt.Errorf("second compression: %v\n before: %s\n after : %s weights %v", err, gen.Show(got), gen.Show(got2), w2)
	}
	classifyCompress(&o, rows)
	o.Class("alphabet=%s", c.Ali.Alphabet)
	if prov != "" {
		o.Class(prov)
		if prov == "provenance:yes" {
			for _, k := range c.Plan.Kinds() {
				o.Class("provenance-step:%s", k)
			}
		}
	}
	if hasOddNames(rows) {
		o.Class("names-with-blanks-or-upper-case")
	}
	if nd := len(readDistinctCols(rows)); nd > 100 {
		o.Class("large:distinct patterns>100")
		if nd > 1024 {
			o.Class("large:distinct patterns>1024")
		}
	}
	if L := len(rows[0].Seq); L > 1024 {
		o.Class("large:sites>1024")
		if L%1024 <= 1 {
			o.Class("large:sites at a multiple of 1024 (+0/+1)")
		}
	} else if L >= 1023 {
		o.Class("large:sites 1023..1024")
	}
	return o, nil
}

func TestCompress(t *testing.T) { pbt.Run(t, genCompress, checkCompress) }

// every alignment over {A,C} with up to 3 rows x 4 columns (thorough: 3 x 5, 4 x 4)
func TestCompressExhaustive(t *testing.T) {
	type shape struct{ n, l int }
	shapes := []shape{{1, 1}, {1, 2}, {1, 3}, {1, 4}, {2, 1}, {2, 2}, {2, 3}, {2, 4}, {3, 1}, {3, 2}, {3, 3}, {3, 4}}
	if pbt.Thorough() {
		shapes = append(shapes, shape{3, 5}, shape{4, 4}, shape{2, 6})
	}
	letters := "AC"
	pbt.Enumerate(t, "Compress() on every alignment over {A,C} of up to 3 rows x 4 columns (thorough: also 3x5, 4x4, 2x6)", func(yield func(compressCase) bool) {
		for _, sh := range shapes {
			cells := sh.n * sh.l
			for code := 0; code < 1<<cells; code++ {
				rows := make([]gen.Row, sh.n)
				x := code
				for i := range rows {
					b := make([]byte, sh.l)
					for j := range b {
						b[j] = letters[x&1]
						x >>= 1
					}
					rows[i] = gen.Row{Name: fmt.Sprintf("r%d", i), Seq: string(b)}
				}
				if !yield(compressCase{Ali: gen.Ali{Rows: rows, Alphabet: "nt"}}) {
					return
				}
			}
		}
	}, func(c compressCase) (o pbt.Outcome, err error) {
		o, err = checkCompress(c)
		if o.NonTrivial {
			var sb strings.Builder
			for _, r := range c.Ali.Rows {
				sb.WriteString(r.Seq + "/")
			}
			o.Key = sb.String()
		}
		return
	})
}

// ---- command line tier ---------------------------------------------------------------------------------

type cliCase struct {
	Cmd       string    `json:"cmd"` // "dedup" or "compress"
	Rows      []gen.Row `json:"rows"`
	Alphabet  string    `json:"alphabet"`  // what the rows were drawn from
	Unaligned bool      `json:"unaligned"` // dedup --unaligned
	NAsGap    bool      `json:"nasgap"`    // dedup --n-as-gap
	AlphaFlag string    `json:"alphaflag"` // value of --alphabet: "" (not given), "auto", "nt" or "aa"
	WithLog   bool      `json:"withlog"`   // -l / --weight-out given
	ToFile    bool      `json:"tofile"`    // -o given
	Ragged    bool      `json:"ragged"`    // aligned input whose last row is one residue short: must be refused
	// large inputs in compact form (Rows is then empty and filled by the check)
	BigD *bigRows `json:"bigdedup,omitempty"`
	BigC *bigCols `json:"bigcompress,omitempty"`
	// Extra: further alignments behind Rows; the input is then one relaxed Phylip file (-p)
	Extra   [][]gen.Row `json:"extra,omitempty"`
	OneLine bool        `json:"oneline"` // --one-line
	NoBlock bool        `json:"noblock"` // --no-block
	// Layout: presentation of a FASTA input (wrapped lines, blocks, CRLF, ...)
	Layout cli.Layout `json:"layout"`
	// OutState / LogState: what is at the path given to -o / to -l or --weight-out before the run:
	// 0 an empty file, 1 nothing, 2 a longer file left by an earlier run
	OutState int `json:"outstate"`
	LogState int `json:"logstate"`
}

func TestCLI(t *testing.T) {
	if cli.Binary() == "" {
		t.Skip("no goalign binary")
	}
	dir := cli.TempDir("c13cli")
	pbt.Run(t, func(t *rapid.T) cliCase {
		var c cliCase
		c.Cmd = rapid.SampledFrom([]string{"dedup", "dedup", "compress"}).Draw(t, "cmd")
		c.Alphabet = rapid.SampledFrom([]string{"nt", "aa"}).Draw(t, "alphabet")
		c.WithLog = rapid.IntRange(0, 4).Draw(t, "withlog") != 0
		c.ToFile = rapid.Bool().Draw(t, "tofile")
		c.Layout = cli.DrawLayout(t)
		c.OutState = rapid.SampledFrom([]int{0, 1, 2, 2}).Draw(t, "outstate")
		c.LogState = rapid.SampledFrom([]int{0, 1, 2, 2}).Draw(t, "logstate")
		if rapid.SampledFrom([]int{0, 0, 0, 0, 0, 0, 0, 0, 0, 0, 0, 1}).Draw(t, "big") == 1 {
			// low-rate class: more than 12 rows / more than 1024 sites, alphabet given explicitly
			c.AlphaFlag = c.Alphabet
			if c.Cmd == "dedup" {
				c.Unaligned = rapid.Bool().Draw(t, "unaligned")
				c.NAsGap = rapid.Bool().Draw(t, "nasgap")
				if c.Unaligned {
					c.AlphaFlag = ""
					c.Alphabet = "nt" // detection of {A,C,N,-} is open: judged under every reading
				}
				c.BigD = genBigRows(t, c.Alphabet, c.Unaligned, []int{13, 14, 17, 20, 33, 60})
				if rapid.IntRange(0, 3).Draw(t, "many") == 0 {
					c.BigD = &bigRows{Many: genManyDistinct(t, "ACGT", 5, []int{100, 101, 129, 201}), NameMul: 7}
				}
			} else {
				c.Alphabet, c.AlphaFlag = "nt", "nt"
				c.BigC = genBigCols(t, []int{1023, 1024, 1025, 2048, 2049, 0}, 2100)
				if rapid.IntRange(0, 3).Draw(t, "many") == 0 {
					c.BigC = &bigCols{Many: genManyDistinct(t, "ACGT", 5, []int{100, 101, 129, 257, 1023})}
				}
			}
			return c
		}
		if rapid.SampledFrom([]int{0, 0, 0, 0, 0, 1}).Draw(t, "multi") == 1 {
			// one Phylip file holding 2-3 alignments of different shapes; both commands loop over them
			c.AlphaFlag = c.Alphabet
			c.OneLine = rapid.Bool().Draw(t, "oneline")
			c.NoBlock = rapid.Bool().Draw(t, "noblock")
			c.NAsGap = c.Cmd == "dedup" && rapid.Bool().Draw(t, "nasgap")
			one := func() []gen.Row {
				if c.Cmd == "dedup" {
					rows := genRows(t, c.Alphabet, false, 6, 12)
					if rapid.IntRange(0, 5).Draw(t, "long") == 0 { // beyond the Phylip line width
						pad := gen.SeqN(t, "AC", rapid.SampledFrom([]int{49, 50, 51, 60, 61, 125}).Draw(t, "pad"))
						for i := range rows {
							rows[i].Seq += pad
						}
					}
					return rows
				}
				chars := "AC"
				if c.Alphabet == "aa" {
					chars = "EQ-X"
				}
				return genPatterns(t, chars, 5, rapid.SampledFrom([]int{3, 14, 14, 70, 130}).Draw(t, "maxlen")).Rows
			}
			c.Rows = one()
			for k := rapid.IntRange(1, 2).Draw(t, "extra"); k > 0; k-- {
				c.Extra = append(c.Extra, one())
			}
			if rapid.IntRange(0, 7).Draw(t, "ragged") == 0 {
				// one of the alignments of the file - the first, a middle or the last one - is not
				// rectangular (its last row is one residue short): the command must report it
				all := append([][]gen.Row{c.Rows}, c.Extra...)
				rows := all[rapid.IntRange(0, len(all)-1).Draw(t, "raggedat")]
				if last := &rows[len(rows)-1]; len(rows) >= 2 && len(last.Seq) >= 2 {
					last.Seq = last.Seq[:len(last.Seq)-1]
					c.Ragged = true
				}
			}
			return c
		}
		if c.Cmd == "dedup" {
			c.Unaligned = rapid.Bool().Draw(t, "unaligned")
			c.NAsGap = rapid.Bool().Draw(t, "nasgap")
			c.Rows = genRows(t, c.Alphabet, c.Unaligned, 8, 12)
			// lengths around the FASTA writer's line width
			if !c.Unaligned && rapid.IntRange(0, 7).Draw(t, "long") == 0 {
				pad := gen.SeqN(t, "AC", rapid.SampledFrom([]int{59, 60, 61, 79, 80, 81, 150}).Draw(t, "pad"))
				for i := range c.Rows {
					c.Rows[i].Seq += pad
				}
			}
			// --alphabet is read for alignments only; without it (or with "auto") the alphabet is detected
			// from the residues
			if c.Unaligned {
				c.AlphaFlag = rapid.SampledFrom([]string{"", "", "auto"}).Draw(t, "alphaflag")
			} else {
				c.AlphaFlag = rapid.SampledFrom([]string{c.Alphabet, c.Alphabet, c.Alphabet, "", "auto"}).Draw(t, "alphaflag")
			}
			if c.AlphaFlag == "" || c.AlphaFlag == "auto" {
				suffix := ""
				switch rapid.IntRange(0, 2).Draw(t, "detected") {
				case 0: // letters of neither alphabet, or of both exclusive kinds: the alphabet stays unknown
					suffix = rapid.SampledFrom(foreignSuffixes).Draw(t, "suffix")
				case 1: // a letter that only one alphabet contains: detection is not in question
					suffix = map[string]string{"aa": "E", "nt": "U"}[c.Alphabet]
				}
				for i := range c.Rows {
					c.Rows[i].Seq += suffix
				}
			}
		} else {
			chars := "AC"
			if c.Alphabet == "aa" {
				chars = "EQ-X"
			} else if rapid.Bool().Draw(t, "morechars") {
				chars = "ACGT-N"
			}
			a := genPatterns(t, chars, 6, rapid.SampledFrom([]int{4, 14, 14, 14, 90}).Draw(t, "maxlen"))
			c.Rows = a.Rows
			if rapid.Bool().Draw(t, "givealpha") {
				c.AlphaFlag = c.Alphabet
			}
		}
		oddNames(t, c.Rows, false) // the FASTA reader drops blanks in front of a name and keeps those behind it
		if !c.Unaligned && len(c.Rows) >= 2 && len(c.Rows[len(c.Rows)-1].Seq) >= 2 && rapid.IntRange(0, 14).Draw(t, "ragged") == 0 {
			c.Ragged = true
			last := &c.Rows[len(c.Rows)-1]
			last.Seq = last.Seq[:len(last.Seq)-1]
		}
		return c
	}, func(c cliCase) (pbt.Outcome, error) { return checkCLI(dir, c) })
}

// checkCLI: one execution of goalign dedup / compress, judged alignment by alignment
func checkCLI(dir string, c cliCase) (o pbt.Outcome, err error) {
	{
		if c.BigD != nil {
			c.Rows = c.BigD.rows()
			o.Class("large:dedup rows>12")
		}
		if c.BigC != nil {
			c.Rows = c.BigC.ali().Rows
			o.Class("large:compress sites>=1023")
		}
		alis := append([][]gen.Row{c.Rows}, c.Extra...)
		multi := len(c.Extra) > 0
		input := cli.FastaLayout(c.Rows, c.Layout)
		if multi {
			input = phylipText(alis)
		}
		in := cli.TempFile(dir, ".in", input)
		logf := cli.TempFile(dir, ".log", "")
		outf := cli.TempFile(dir, ".out", "")
		defer func() { os.Remove(in); os.Remove(logf); os.Remove(outf) }()
		for _, f := range []struct {
			path  string
			state int
		}{{outf, c.OutState}, {logf, c.LogState}} {
			switch f.state {
			case 1:
				os.Remove(f.path)
			case 2:
				cli.StaleFile(f.path, 120)
			}
		}
		args := []string{c.Cmd, "-i", in}
		if multi {
			args = append(args, "-p")
			if c.OneLine {
				args = append(args, "--one-line")
			}
			if c.NoBlock {
				args = append(args, "--no-block")
			}
		}
		if c.Cmd == "dedup" {
			if c.Unaligned {
				args = append(args, "--unaligned")
			}
			if c.NAsGap {
				args = append(args, "--n-as-gap")
			}
			if c.WithLog {
				args = append(args, "-l", logf)
			}
		} else if c.WithLog {
			args = append(args, "--weight-out", logf)
		}
		if c.AlphaFlag != "" {
			args = append(args, "--alphabet", c.AlphaFlag)
		}
		if c.ToFile {
			args = append(args, "-o", outf)
		}
		r := cli.Run("", args...)
		if r.TimedOut {
			return o, fmt.Errorf("goalign %v does not return", args)
		}
		if c.Ragged {
			if r.Exit == 0 {
				return o, fmt.Errorf("goalign %v: rows of different lengths accepted with status 0\n input: %q", args, trunc(input, 600))
			}
			o.Class("refused:ragged-alignment,multi=%v", multi)
			return o, nil
		}
		if r.Exit != 0 {
			return o, fmt.Errorf("goalign %v: exit %d, stderr %q\n input: %q", args, r.Exit, r.Stderr, trunc(input, 600))
		}
		out := r.Stdout
		if c.ToFile {
			b, _ := os.ReadFile(outf)
			out = string(b)
			if strings.TrimSpace(r.Stdout) != "" {
				return o, fmt.Errorf("goalign %v: -o given but standard output is not empty: %q", args, r.Stdout)
			}
		}
		// one output block per input alignment
		var blocks [][]gen.Row
		if multi {
			var perr error
			if blocks, perr = parsePhylipMulti(out); perr != nil {
				return o, fmt.Errorf("goalign %v: unreadable Phylip output: %v\n output: %q", args, perr, trunc(out, 600))
			}
		} else {
			got, perr := cli.ParseFasta(out)
			if perr != nil {
				return o, fmt.Errorf("goalign %v: unreadable output: %v", args, perr)
			}
			blocks = [][]gen.Row{got}
		}
		if len(blocks) != len(alis) {
			return o, fmt.Errorf("goalign %v: %d alignments written for %d alignments read\n output: %q", args, len(blocks), len(alis), trunc(out, 600))
		}
		// the log / weight file: lines, every one of them ended by a newline
		lb, _ := os.ReadFile(logf)
		var lines []string
		if len(lb) > 0 {
			if lb[len(lb)-1] != '\n' {
				return o, fmt.Errorf("goalign %v: the last line of the log/weight file is not ended by a newline: %q", args, trunc(string(lb), 300))
			}
			lines = strings.Split(string(lb[:len(lb)-1]), "\n")
		}
		if !c.WithLog && len(lines) > 0 && c.LogState != 2 {
			return o, fmt.Errorf("harness: log file written without being asked for")
		}
		if !c.WithLog {
			lines = nil
		}
		// each alignment's share of the lines: as many as it has rows (dedup) / columns (compress) left
		if c.WithLog {
			want := 0
			for _, b := range blocks {
				if c.Cmd == "dedup" {
					want += len(b)
				} else if len(b) > 0 {
					want += len(b[0].Seq)
				}
			}
			if want != len(lines) {
				what := "rows kept"
				if c.Cmd == "compress" {
					what = "compressed columns"
				}
				return o, fmt.Errorf("goalign %v: %d lines in the log/weight file for %d %s in %d alignment(s): %q", args, len(lines), want, what, len(blocks), trunc(string(lb), 300))
			}
		}
		// multi-alignment dedup inputs whose alphabet is detected per alignment: what each alignment is
		// (nt, aa, or not definite), so that the evidence shows which successions were explored
		mixed := ""
		if multi && c.Cmd == "dedup" && c.AlphaFlag != "nt" && c.AlphaFlag != "aa" {
			undefinedBefore, kinds := false, []string{}
			for _, rows := range alis {
				d := definiteAlphabet("auto", rows)
				if d == "" {
					d = "open"
					undefinedBefore = true
				} else if c.NAsGap && undefinedBefore &&
					len(refDedup(rows, func(s string) string { return keyWith(s, string(wildcard(d))) }).kept) < len(refDedup(rows, func(s string) string { return s }).kept) {
					o.Class("multi-mixed:duplicates-up-to-wildcard-in-a-definite-alignment-behind-one-of-no-definite-alphabet")
				}
				kinds = append(kinds, d)
			}
			mixed = " [alphabets of the file's alignments: " + strings.Join(kinds, ",") + "]"
			sort.Strings(kinds)
			o.Class("multi-mixed:n=%d,nasgap=%v", len(alis), c.NAsGap)
			o.Class("multi-mixed:alphabets(sorted)=%s", strings.Join(kinds, ","))
		}
		next := 0
		for k, rows := range alis {
			got := blocks[k]
			var mine []string
			if c.WithLog {
				n := len(got)
				if c.Cmd == "compress" && len(got) > 0 {
					n = len(got[0].Seq)
				}
				mine = lines[next : next+n]
				next += n
			}
			where := ""
			if multi {
				where = fmt.Sprintf(" (alignment %d of %d)%s", k+1, len(alis), mixed)
			}
			if c.Cmd == "dedup" {
				var groups [][]string // nil: only the rows are observable
				if c.WithLog {
					groups = [][]string{}
					for _, l := range mine {
						groups = append(groups, strings.Split(l, ","))
					}
				}
				mode := "auto"
				if c.AlphaFlag == "nt" || c.AlphaFlag == "aa" {
					mode = c.AlphaFlag
				}
				wilds, open := readingsFor(mode, rows, c.NAsGap)
				if err = judgeDedup(&o, rows, wilds, got, groups); err != nil {
					return o, fmt.Errorf("goalign %v%s: %v\n input: %s", args, where, err, showRows(rows))
				}
				if k == 0 {
					classifyDedup(&o, rows, c.NAsGap, wilds[0])
					o.Class("dedup:nasgap=%v,alphabet-flag=%q", c.NAsGap, c.AlphaFlag)
					if open {
						o.Class("wildcard-open(unaligned=%v)", c.Unaligned)
					}
					o.Class("dedup:unaligned=%v,nasgap=%v", c.Unaligned, c.NAsGap)
				}
			} else {
				var weights []int
				if c.WithLog {
					for _, l := range mine {
						w, aerr := strconv.Atoi(l)
						if aerr != nil || w < 1 || strconv.Itoa(w) != l {
							return o, fmt.Errorf("goalign %v%s: weight file line %q is not a positive integer", args, where, l)
						}
						weights = append(weights, w)
					}
				} else {
					// without the weight file: the set of patterns, each once, names and order
					cnt := map[string]int{}
					for _, col := range columnsOf(rows) {
						cnt[col]++
					}
					if len(got) != len(rows) {
						return o, fmt.Errorf("goalign %v%s: %d rows written for %d", args, where, len(got), len(rows))
					}
					for _, col := range columnsOf(got) {
						weights = append(weights, cnt[col])
					}
				}
				if err = judgeCompress(rows, got, weights); err != nil {
					return o, fmt.Errorf("goalign %v%s: %v\n input: %s\n output: %s weights %v", args, where, err, showRows(rows), showRows(got), weights)
				}
				if k == 0 {
					classifyCompress(&o, rows)
					o.Class("compress")
				}
			}
		}
		if multi {
			o.Class("multi-alignment-phylip:%s,n=%d,log=%v", c.Cmd, len(alis), c.WithLog)
		}
		o.Class("log=%v,tofile=%v", c.WithLog, c.ToFile)
		if !c.Layout.Plain() {
			o.Class("input-layout:not-plain")
			if c.Layout.Blocks > 0 {
				o.Class("input-layout:blocks")
			}
		}
		if c.ToFile {
			o.Class("out-file-state=%d", c.OutState)
		}
		if c.WithLog {
			o.Class("log-file-state=%d", c.LogState)
		}
		if hasOddNames(c.Rows) {
			o.Class("names-with-trailing-blank-or-upper-case")
		}
		return o, nil
	}
}

func trunc(s string, n int) string {
	if len(s) > n {
		return s[:n] + "..."
	}
	return s
}

// phylipText: sequential, one line per row, one alignment after the other
func phylipText(alis [][]gen.Row) string {
	var sb strings.Builder
	for _, rows := range alis {
		fmt.Fprintf(&sb, " %d %d\n", len(rows), len(rows[0].Seq))
		for _, r := range rows {
			sb.WriteString(r.Name + "  " + r.Seq + "\n")
		}
	}
	return sb.String()
}

// parsePhylipMulti: an independent, minimal reader of relaxed Phylip holding several alignments,
// sequential or interleaved, with or without blanks inside the residues: a header "n L", n lines
// "name residues...", then residue lines given to the rows in turn until every row has L residues
func parsePhylipMulti(s string) ([][]gen.Row, error) {
	var out [][]gen.Row
	var lines []string
	for _, l := range strings.Split(s, "\n") {
		if strings.TrimSpace(l) != "" {
			lines = append(lines, l)
		}
	}
	i := 0
	for i < len(lines) {
		h := strings.Fields(lines[i])
		if len(h) != 2 {
			return nil, fmt.Errorf("header expected, got %q", lines[i])
		}
		n, e1 := strconv.Atoi(h[0])
		l, e2 := strconv.Atoi(h[1])
		if e1 != nil || e2 != nil || n < 1 || l < 1 {
			return nil, fmt.Errorf("header expected, got %q", lines[i])
		}
		i++
		rows := make([]gen.Row, n)
		for k := 0; k < n; k++ {
			if i >= len(lines) {
				return nil, fmt.Errorf("%d rows announced, %d found", n, k)
			}
			f := strings.Fields(lines[i])
			rows[k] = gen.Row{Name: f[0], Seq: strings.Join(f[1:], "")}
			i++
		}
		for k := 0; len(rows[n-1].Seq) < l; k++ {
			if i >= len(lines) {
				return nil, fmt.Errorf("row %q has %d residues of %d", rows[n-1].Name, len(rows[n-1].Seq), l)
			}
			rows[k%n].Seq += strings.Join(strings.Fields(lines[i]), "")
			i++
		}
		for _, r := range rows {
			if len(r.Seq) != l {
				return nil, fmt.Errorf("row %q has %d residues, header says %d", r.Name, len(r.Seq), l)
			}
		}
		out = append(out, rows)
	}
	return out, nil
}

// TestCLIMixed: goalign dedup on one relaxed Phylip file holding 2-4 alignments that differ in
// alphabet (nucleotide, protein, or one that detection cannot settle: residues common to both, or a
// residue outside both), in size and in whether they hold duplicates up to N/X versus gap, the
// alphabet being detected per alignment (--alphabet absent or auto), under every option combination.
// Every output alignment and its share of the group log is judged by the oracle that judges the
// alignment when it is given alone: what came before it in the file must not matter.
func TestCLIMixed(t *testing.T) {
	if cli.Binary() == "" {
		t.Skip("no goalign binary")
	}
	dir := cli.TempDir("c13mix")
	pbt.Run(t, func(t *rapid.T) cliCase {
		c := cliCase{Cmd: "dedup"}
		c.NAsGap = rapid.IntRange(0, 3).Draw(t, "nasgap") != 0
		c.WithLog = rapid.IntRange(0, 3).Draw(t, "withlog") != 0
		c.ToFile = rapid.Bool().Draw(t, "tofile")
		c.OutState = rapid.SampledFrom([]int{0, 1, 2, 2}).Draw(t, "outstate")
		c.LogState = rapid.SampledFrom([]int{0, 1, 2, 2}).Draw(t, "logstate")
		c.OneLine = rapid.Bool().Draw(t, "oneline")
		c.NoBlock = rapid.Bool().Draw(t, "noblock")
		c.AlphaFlag = rapid.SampledFrom([]string{"", "auto"}).Draw(t, "alphaflag")
		one := func() []gen.Row {
			alphabet := rapid.SampledFrom([]string{"nt", "aa"}).Draw(t, "alphabet")
			rows := genRows(t, alphabet, false, 6, 10)
			suffix := ""
			switch rapid.IntRange(0, 5).Draw(t, "detected") {
			case 0: // residues that may fit both alphabets: detection is open
			case 1, 2: // a residue outside both alphabets, or residues exclusive to each: no alphabet fits
				suffix = rapid.SampledFrom(foreignSuffixes).Draw(t, "suffix")
			default: // a residue that only this alphabet has
				suffix = map[string]string{"aa": "E", "nt": "U"}[alphabet]
			}
			if rapid.IntRange(0, 9).Draw(t, "long") == 0 { // beyond the Phylip line width
				suffix += gen.SeqN(t, "AC", rapid.SampledFrom([]int{49, 50, 51, 61, 125}).Draw(t, "pad"))
			}
			for i := range rows {
				rows[i].Seq += suffix
			}
			return rows
		}
		c.Alphabet = "mixed"
		c.Rows = one()
		for k := rapid.IntRange(1, 3).Draw(t, "extra"); k > 0; k-- {
			c.Extra = append(c.Extra, one())
		}
		return c
	}, func(c cliCase) (pbt.Outcome, error) { return checkCLI(dir, c) })
}
