module verif

go 1.23

toolchain go1.23.5

require (
	github.com/evolbioinfo/goalign v0.0.0
	github.com/ulikunitz/xz v0.5.10
	gonum.org/v1/gonum v0.9.3
	pgregory.net/rapid v1.3.0
)

require (
	github.com/abiosoft/ishell v2.0.0+incompatible // indirect
	github.com/abiosoft/readline v0.0.0-20180607040430-155bce2042db // indirect
	github.com/armon/go-radix v1.0.0 // indirect
	github.com/cpuguy83/go-md2man/v2 v2.0.2 // indirect
	github.com/fatih/color v1.7.0 // indirect
	github.com/flynn-archive/go-shlex v0.0.0-20150515145356-3f9db97f8568 // indirect
	github.com/fredericlemoine/cobrashell v0.0.0-20180921081141-49c72f93426c // indirect
	github.com/inconshreveable/mousetrap v1.0.1 // indirect
	github.com/mattn/go-colorable v0.0.9 // indirect
	github.com/mattn/go-isatty v0.0.3 // indirect
	github.com/russross/blackfriday/v2 v2.1.0 // indirect
	github.com/shurcooL/sanitized_anchor_name v1.0.0 // indirect
	github.com/spf13/cobra v1.5.0 // indirect
	github.com/spf13/pflag v1.0.5 // indirect
	golang.org/x/exp v0.0.0-20200224162631-6cc2880d07d6 // indirect
	golang.org/x/sys v0.8.0 // indirect
	gopkg.in/yaml.v2 v2.4.0 // indirect
)

replace github.com/evolbioinfo/goalign => /repo
