#!/usr/bin/env python3
"""Mutation analysis of one property's check: single-token mutants of the code the property is
anchored in (functions and tables named in properties.jsonl; whole file when none is named and the
file is small), sampled with a fixed seed. A mutant that does not compile is "stillborn", one that
the pinned test suite rejects is "suite" (of no interest here), the others are given to the
property's quick check: "killed" (exit 1 with a VIOLATION line), "survived" (exit 0) or
"inconclusive". Survivors are kept as patches for triage (equivalent mutant, outside the statement,
or a gap of the check).
  tools/mutscan.py <ID> [--n 30] [--seed 1] [--workers 2] [--out mutscan]
Scratch copies live under /tmp and are removed at the end; /repo is never touched."""
import argparse, json, os, random, re, shutil, subprocess, sys, tempfile, threading, time, queue
ap = argparse.ArgumentParser()
ap.add_argument("id"); ap.add_argument("--n", type=int, default=30); ap.add_argument("--seed", type=int, default=1)
ap.add_argument("--workers", type=int, default=2); ap.add_argument("--out", default="mutscan")
ap.add_argument("--whole-max", type=int, default=700)
ap.add_argument("--files", default="", help="comma separated files (relative to the repository) to mutate as a whole instead of the anchors")
A = ap.parse_args()
V = os.path.dirname(os.path.dirname(os.path.abspath(__file__)))
env = dict(os.environ, GOFLAGS="-mod=mod", GOPROXY="off", GOSUMDB="off", GOTOOLCHAIN="local")
def run(cmd, cwd=None, timeout=None, extra=None):
    e = dict(env); e.update(extra or {})
    try:
        r = subprocess.run(cmd, shell=True, cwd=cwd, env=e, stdout=subprocess.PIPE, stderr=subprocess.STDOUT, text=True, timeout=timeout)
        return r.returncode, r.stdout
    except subprocess.TimeoutExpired as ex:
        return -9, "timeout"
prop = [json.loads(l) for l in open(os.path.join(V, "properties.jsonl")) if json.loads(l)["id"] == A.id][0]
idents = set(re.findall(r"[A-Za-z_][A-Za-z0-9_]*", json.dumps(prop["anchors"])))
def decls(path):
    src = open(path).read()
    names = set(re.findall(r"(?m)^func (?:\([^)]*\) )?([A-Za-z_][A-Za-z0-9_]*)\(", src))
    names |= set(re.findall(r"(?m)^(?:var|const) ([A-Za-z_][A-Za-z0-9_]*)", src))
    return names, src.count("\n")
sites = []
anchor_files = prop["anchors"]["files"]
if A.files:
    anchor_files = [f.strip() for f in A.files.split(",") if f.strip()]
    idents = set()
    A.whole_max = 10**9
for f in anchor_files:
    path = "/repo/" + f
    if not f.endswith(".go") or f.endswith("_test.go") or not os.path.exists(path): continue
    names, nlines = decls(path)
    m = sorted(names & idents)
    if not m and nlines > A.whole_max: continue
    rc, out = run(f"{V}/bin/mutate -file {path} -funcs '{','.join(m)}' -list")
    for line in out.splitlines():
        p = line.split("\t")
        if len(p) == 3: sites.append((f, ",".join(m), int(p[0]), int(p[1]), p[2]))
rnd = random.Random(A.seed)
sample = rnd.sample(sites, min(A.n, len(sites)))
outdir = os.path.join(V, A.out, A.id); os.makedirs(outdir, exist_ok=True)
for old in os.listdir(outdir): os.remove(os.path.join(outdir, old))
q = queue.Queue()
for k, s in enumerate(sample): q.put((k, s))
results = []; lock = threading.Lock()
def worker(w):
    W = tempfile.mkdtemp(prefix=f"mutscan-{A.id}-")
    try:
        run(f"rsync -a --exclude .git /repo/ {W}/repo/")
        while True:
            try: k, (f, funcs, idx, line, desc) = q.get_nowait()
            except queue.Empty: return
            target = f"{W}/repo/{f}"; orig = f"/repo/{f}"
            t0 = time.time()
            rc, out = run(f"{V}/bin/mutate -file {orig} -funcs '{funcs}' -apply {idx} -out {target}")
            status, detail = None, ""
            if rc != 0: status, detail = "stillborn", out[-200:]
            if status is None:
                rc, out = run("go build ./...", cwd=f"{W}/repo", timeout=600)
                if rc != 0: status = "stillborn"
            if status is None:
                rc, out = run("go test -vet=off -count=1 -timeout 120s ./...", cwd=f"{W}/repo", timeout=900)
                if rc != 0: status = "suite"
            if status is None:
                rc, out = run(f"{V}/bin/check {A.id} --tier quick --noevidence", cwd=V, timeout=2400, extra={"VERIF_REPO": f"{W}/repo", "VERIF_SEED": "1"})
                if rc == 1 and "VIOLATION property=" in out:
                    status = "killed"; m = re.search(r"(?m)^---- (.*)$", out); detail = (m.group(1) if m else "")[:120]
                elif rc == 0: status = "survived"
                else: status = "inconclusive"; detail = out[-300:]
            if status == "survived":
                rc2, diff = run(f"diff -u {orig} {target}")
                diff = diff.replace(f"{W}/repo/", "b/").replace("/repo/", "a/", 1)
                open(os.path.join(outdir, f"survivor-{k:03d}.patch"), "w").write(diff)
            shutil.copyfile(orig, target)
            rec = dict(k=k, file=f, line=line, mutation=desc, status=status, detail=detail, seconds=round(time.time() - t0, 1))
            with lock:
                results.append(rec)
                print(f"{A.id} #{k:03d} {f}:{line} [{desc}] -> {status} {detail[:100]}", flush=True)
    finally:
        shutil.rmtree(W, ignore_errors=True)
ths = [threading.Thread(target=worker, args=(w,)) for w in range(A.workers)]
for t in ths: t.start()
for t in ths: t.join()
results.sort(key=lambda r: r["k"])
count = {}
for r in results: count[r["status"]] = count.get(r["status"], 0) + 1
judged = count.get("killed", 0) + count.get("survived", 0)
summary = dict(property=A.id, seed=A.seed, sites=len(sites), sampled=len(sample), counts=count,
               mutation_score=(round(count.get("killed", 0) / judged, 3) if judged else None), mutants=results)
json.dump(summary, open(os.path.join(V, A.out, f"{A.id}.json"), "w"), indent=1)
print(f"{A.id}: {len(sites)} sites, {len(sample)} sampled, {count}, score {summary['mutation_score']}")
