#!/usr/bin/env python3
"""Runs upstream's own command-line suite (test.sh, 185 sections, not part of the pinned test suite),
section by section, with two binaries: the one of the pinned snapshot commit and the one of the
current /repo HEAD (with every fix: commit), and reports the sections whose outcome differs.
  tools/testsh_compare.py [snapshot commit, default: first commit of /repo]
Scratch worktrees and binaries live under a temporary directory that is removed at the end."""
import os, re, subprocess, sys, tempfile, shutil
env = dict(os.environ, GOFLAGS="-mod=mod", GOPROXY="off", GOSUMDB="off", GOTOOLCHAIN="local")
def sh(cmd, **kw):
    return subprocess.run(cmd, shell=True, env=env, stdout=subprocess.PIPE, stderr=subprocess.STDOUT, text=True, **kw)
snap = sys.argv[1] if len(sys.argv) > 1 else sh("git -C /repo rev-list --max-parents=0 HEAD").stdout.strip()
W = tempfile.mkdtemp(prefix="testsh-")
try:
    bins = {}
    for label, rev in (("snapshot", snap), ("head", "HEAD")):
        wt = os.path.join(W, label)
        r = sh(f"git -C /repo worktree add --detach {wt} {rev}")
        if r.returncode: sys.exit("cannot create worktree: " + r.stdout)
        r = sh("go build -o goalign .", cwd=wt)
        if r.returncode: sys.exit("build failed: " + r.stdout)
        bins[label] = wt
    text = open(os.path.join(bins["head"], "test.sh")).read()
    parts = re.split(r'(?m)^(?=echo "->)', text)
    header, sections = parts[0], parts[1:]
    results = {}
    for label, wt in bins.items():
        res = []
        for i, sec in enumerate(sections):
            # every section runs in the worktree (tests/data is referenced relatively), fail-fast as upstream
            script = os.path.join(W, f"sec.sh")
            open(script, "w").write(header + sec)
            try:
                r = sh(f"bash {script}", cwd=wt, timeout=600)
                res.append((r.returncode, r.stdout))
            except subprocess.TimeoutExpired:
                res.append((-1, "timeout"))
        results[label] = res
    ndiff = 0
    fails = {k: sum(1 for rc, _ in v if rc != 0) for k, v in results.items()}
    for i, sec in enumerate(sections):
        a, b = results["snapshot"][i], results["head"][i]
        name = sec.splitlines()[0]
        # (tar warns when a member written a few milliseconds ago looks "in the future")
        norm = lambda s: re.sub(r"(?m)^tar: .* in the future\n?", "", re.sub(r"\d{4}/\d\d/\d\d \d\d:\d\d:\d\d", "<time>", re.sub(r"/tmp/testsh-[^/]+/(snapshot|head)", "<wt>", s)))
        if a[0] != b[0] or norm(a[1]) != norm(b[1]):
            ndiff += 1
            print(f"DIFFERS section {i+1} {name}: snapshot rc={a[0]} head rc={b[0]}")
            print("  snapshot:", norm(a[1])[-400:].replace("\n", " | "))
            print("  head    :", norm(b[1])[-400:].replace("\n", " | "))
    print(f"{len(sections)} sections; failing with the snapshot binary: {fails['snapshot']}, with the HEAD binary: {fails['head']}; sections whose outcome or output differs: {ndiff}")
finally:
    for label in ("snapshot", "head"):
        sh(f"git -C /repo worktree remove --force {os.path.join(W, label)}")
    sh("git -C /repo worktree prune")
    shutil.rmtree(W, ignore_errors=True)
