#!/usr/bin/env python3
# keep_seeded.py <src dir> <dest id> <property> <"result line of tools/seeded.sh">
# copies a confirmed seeded change to /verif/seeded/<dest id>/ and records what was run
import json, os, shutil, sys
src, dest, prop, result = sys.argv[1:5]
d = os.path.join(os.path.dirname(os.path.abspath(__file__)), '..', 'seeded', dest)
os.makedirs(d, exist_ok=True)
for f in os.listdir(src):
    if f.endswith('.go') or f in ('patch.diff',):
        shutil.copy(os.path.join(src, f), os.path.join(d, f))
m = json.load(open(os.path.join(src, 'meta.json')))
m['property'] = prop
m['confirmed_by'] = 'tools/seeded.sh: scratch worktree of /repo HEAD; demo passes unchanged; patch applies, go build ./... ok, go test ./... ok (without the demo), demo fails'
m['check_run'] = 'VERIF_REPO=<patched worktree> bin/check %s --tier quick --noevidence' % prop
m['check_result'] = result
json.dump(m, open(os.path.join(d, 'meta.json'), 'w'), indent=1)
print('kept', d)
