#!/bin/sh
# Development aid: run `go test` of one property package against a given copy of the repository.
#   tools/gotest.sh <repo dir> <package dir, e.g. props/c06> [go test arguments...]
# A goalign binary of that tree is built too and passed as VERIF_GOALIGN. An evidence fragment is
# written to $VERIF_FRAG if set. Nothing is written to /verif or to the repository.
set -e
REPO="$1"; PKG="$2"; shift 2
cd "$(dirname "$0")/.."
export GOPROXY=off GOSUMDB=off GOTOOLCHAIN=local
W=$(mktemp -d)
trap 'rm -rf "$W"' EXIT
sed "s#=> /repo#=> $REPO#" go.mod > "$W/go.mod"; cp go.sum "$W/go.sum"
export GOFLAGS="-mod=mod -modfile=$W/go.mod"
go build -o "$W/goalign" github.com/evolbioinfo/goalign
go test -c -vet=off -o "$W/prop.test" "./$PKG"
cd "$PKG"
VERIF_GOALIGN="$W/goalign" VERIF_REPO_DIR="$REPO" TMPDIR="$W" VERIF_REGRESS_DIR="/verif/regress/$(basename $PKG)" "$W/prop.test" -rapid.nofailfile "$@"
