// Command mutate enumerates and applies single-token mutations of a Go source file (classic
// mutation analysis: relational and arithmetic operator swaps, boundary shifts of integer
// literals, negated conditions, swapped boolean connectives, deleted statements, shifted character
// literals), restricted to named functions or package-level declarations when asked.
//
//	mutate -file f.go [-funcs A,B,...] -list            prints "index<TAB>line<TAB>description"
//	mutate -file f.go [-funcs A,B,...] -apply k -out g.go   writes the file with mutation k applied
//
// It knows nothing of the properties; tools/mutscan.py drives it.
package main

import (
	"bytes"
	"flag"
	"fmt"
	"go/ast"
	"go/format"
	"go/parser"
	"go/token"
	"os"
	"strconv"
	"strings"
)

type site struct {
	line  int
	desc  string
	apply func()
}

var swaps = map[token.Token][]token.Token{
	token.LSS: {token.LEQ}, token.LEQ: {token.LSS}, token.GTR: {token.GEQ}, token.GEQ: {token.GTR},
	token.EQL: {token.NEQ}, token.NEQ: {token.EQL}, token.LAND: {token.LOR}, token.LOR: {token.LAND},
	token.ADD: {token.SUB}, token.SUB: {token.ADD}, token.MUL: {token.QUO}, token.QUO: {token.MUL},
	token.REM: {token.QUO},
}

func main() {
	file := flag.String("file", "", "source file")
	funcs := flag.String("funcs", "", "comma separated function / declaration names (empty = whole file)")
	list := flag.Bool("list", false, "list the mutation sites")
	apply := flag.Int("apply", -1, "index of the mutation to apply")
	out := flag.String("out", "", "output file (with -apply)")
	flag.Parse()
	fset := token.NewFileSet()
	f, err := parser.ParseFile(fset, *file, nil, parser.ParseComments)
	if err != nil {
		fmt.Fprintln(os.Stderr, err)
		os.Exit(2)
	}
	want := map[string]bool{}
	for _, n := range strings.Split(*funcs, ",") {
		if n = strings.TrimSpace(n); n != "" {
			want[n] = true
		}
	}
	var sites []site
	add := func(pos token.Pos, desc string, fn func()) {
		sites = append(sites, site{fset.Position(pos).Line, desc, fn})
	}
	visit := func(root ast.Node) {
		var parents []ast.Node
		ast.Inspect(root, func(n ast.Node) bool {
			if n == nil {
				parents = parents[:len(parents)-1]
				return true
			}
			defer func() { parents = append(parents, n) }()
			switch x := n.(type) {
			case *ast.BinaryExpr:
				// string concatenation is left alone
				if x.Op == token.ADD {
					if l, ok := x.X.(*ast.BasicLit); ok && l.Kind == token.STRING {
						return true
					}
					if l, ok := x.Y.(*ast.BasicLit); ok && l.Kind == token.STRING {
						return true
					}
				}
				for _, to := range swaps[x.Op] {
					from, to := x.Op, to
					add(x.OpPos, fmt.Sprintf("%s -> %s", from, to), func() { x.Op = to })
				}
			case *ast.IncDecStmt:
				from := x.Tok
				to := token.DEC
				if from == token.DEC {
					to = token.INC
				}
				// loop counters of for statements are left alone (endless loops only)
				if len(parents) > 0 {
					if fs, ok := parents[len(parents)-1].(*ast.ForStmt); ok && fs.Post == n {
						return true
					}
				}
				add(x.TokPos, fmt.Sprintf("%s -> %s", from, to), func() { x.Tok = to })
			case *ast.AssignStmt:
				switch x.Tok {
				case token.ADD_ASSIGN:
					add(x.TokPos, "+= -> -=", func() { x.Tok = token.SUB_ASSIGN })
					add(x.TokPos, "+= -> =", func() { x.Tok = token.ASSIGN })
				case token.SUB_ASSIGN:
					add(x.TokPos, "-= -> +=", func() { x.Tok = token.ADD_ASSIGN })
				}
			case *ast.BasicLit:
				switch x.Kind {
				case token.INT:
					v, err := strconv.ParseInt(x.Value, 0, 64)
					if err != nil {
						return true
					}
					old := x.Value
					add(x.ValuePos, fmt.Sprintf("%s -> %d", old, v+1), func() { x.Value = strconv.FormatInt(v+1, 10) })
					if v > 0 {
						add(x.ValuePos, fmt.Sprintf("%s -> %d", old, v-1), func() { x.Value = strconv.FormatInt(v-1, 10) })
					}
				case token.FLOAT:
					v, err := strconv.ParseFloat(x.Value, 64)
					if err != nil || v == 0 {
						return true
					}
					old := x.Value
					add(x.ValuePos, fmt.Sprintf("%s -> %s*1.01", old, old), func() { x.Value = strconv.FormatFloat(v*1.01, 'g', -1, 64) })
				case token.CHAR:
					r, _, _, err := strconv.UnquoteChar(strings.Trim(x.Value, "'"), '\'')
					if err != nil || r < 'A' || r > 'z' {
						return true
					}
					old := x.Value
					nr := r + 1
					if nr == '[' || nr == '{' {
						nr = r - 1
					}
					add(x.ValuePos, fmt.Sprintf("%s -> %q", old, nr), func() { x.Value = strconv.QuoteRune(nr) })
				}
			case *ast.IfStmt:
				add(x.Cond.Pos(), "if c -> if !(c)", func() { x.Cond = &ast.UnaryExpr{Op: token.NOT, X: &ast.ParenExpr{X: x.Cond}} })
			case *ast.ForStmt:
				if x.Cond != nil {
					// a loop that runs one time less / not at all is covered by the operator swaps
				}
			case *ast.BlockStmt:
				for i, st := range x.List {
					i, st := i, st
					switch s := st.(type) {
					case *ast.ExprStmt:
						if _, ok := s.X.(*ast.CallExpr); ok {
							add(s.Pos(), "delete call statement", func() { x.List[i] = &ast.EmptyStmt{Semicolon: s.Pos()} })
						}
					case *ast.AssignStmt:
						if s.Tok == token.ASSIGN {
							add(s.Pos(), "delete assignment", func() { x.List[i] = &ast.EmptyStmt{Semicolon: s.Pos()} })
						}
					case *ast.BranchStmt:
						if s.Tok == token.BREAK && s.Label == nil {
							add(s.Pos(), "break -> continue", func() { s.Tok = token.CONTINUE })
						} else if s.Tok == token.CONTINUE && s.Label == nil {
							add(s.Pos(), "continue -> break", func() { s.Tok = token.BREAK })
						}
					case *ast.ReturnStmt:
						_ = s
					}
				}
			}
			return true
		})
	}
	for _, d := range f.Decls {
		switch x := d.(type) {
		case *ast.FuncDecl:
			if len(want) == 0 || want[x.Name.Name] {
				if x.Body != nil {
					visit(x.Body)
				}
			}
		case *ast.GenDecl:
			if x.Tok != token.VAR && x.Tok != token.CONST {
				continue
			}
			for _, sp := range x.Specs {
				vs, ok := sp.(*ast.ValueSpec)
				if !ok {
					continue
				}
				for _, nm := range vs.Names {
					if len(want) == 0 || want[nm.Name] {
						visit(vs)
						break
					}
				}
			}
		}
	}
	if *list {
		for i, s := range sites {
			fmt.Printf("%d\t%d\t%s\n", i, s.line, s.desc)
		}
		return
	}
	if *apply < 0 || *apply >= len(sites) {
		fmt.Fprintf(os.Stderr, "no mutation %d (0..%d)\n", *apply, len(sites)-1)
		os.Exit(2)
	}
	sites[*apply].apply()
	var buf bytes.Buffer
	if err := format.Node(&buf, fset, f); err != nil {
		fmt.Fprintln(os.Stderr, err)
		os.Exit(2)
	}
	if err := os.WriteFile(*out, buf.Bytes(), 0o644); err != nil {
		fmt.Fprintln(os.Stderr, err)
		os.Exit(2)
	}
	fmt.Printf("%d\t%d\t%s\n", *apply, sites[*apply].line, sites[*apply].desc)
}
