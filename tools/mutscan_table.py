#!/usr/bin/env python3
"""Writes mutscan/RESULTS.md: per property, the outcome of the sampled mutation analysis
(tools/mutscan.py, every sample found under mutscan/ and mutscan-s2/) and the classes given to
the survivors in mutscan/<ID>.triage.md (E equivalent, O outside the statement, G gap closed)."""
import json, os, re, glob
V = os.path.dirname(os.path.dirname(os.path.abspath(__file__)))
rows = []
tot = dict(sampled=0, stillborn=0, suite=0, killed=0, survived=0, inconclusive=0, E=0, O=0, G=0)
for i in range(1, 21):
    pid = f"C{i:02d}"
    c = dict(sampled=0, stillborn=0, suite=0, killed=0, survived=0, inconclusive=0); sites = 0
    for d in ("mutscan", "mutscan-s2", "mutscan-cmd"):
        f = os.path.join(V, d, pid + ".json")
        if not os.path.exists(f): continue
        j = json.load(open(f)); sites = sites or j["sites"]; c["sampled"] += j["sampled"]
        for k, v in j["counts"].items(): c[k] = c.get(k, 0) + v
    cls = dict(E=0, O=0, G=0)
    t = os.path.join(V, "mutscan", pid + ".triage.md")
    if os.path.exists(t):
        # the last line of a triage file: "SUMMARY survivors=N E=a O=b G=c" (all samples together)
        for line in open(t):
            m = re.match(r"^SUMMARY\b.*?E=(\d+)\s+O=(\d+)\s+G=(\d+)", line.strip())
            if m: cls = dict(E=int(m.group(1)), O=int(m.group(2)), G=int(m.group(3)))
    judged = c["killed"] + c["survived"]
    eff = c["killed"] + cls["G"]
    den = judged - cls["E"] - cls["O"]
    rows.append(f"| {pid} | {sites} | {c['sampled']} | {c['stillborn']} | {c['suite']} | {c['killed']} | {c['survived']} | {cls['E']} | {cls['O']} | {cls['G']} | {c.get('inconclusive',0)} |")
    for k in tot:
        tot[k] += c.get(k, 0) if k in c else cls[k]
out = ["# Sampled single-token mutation analysis", "",
       "`tools/mutscan.py` on the functions and tables named in each property's anchors (`mutscan/`: seed 1, 40 per property; `mutscan-s2/`: seed 2, 50–60 for eighteen properties) and on the command files of seven properties (`mutscan-cmd/`: seed 3, 40–80).",
       "stillborn = does not compile; suite = rejected by the pinned test suite; killed / survived = verdict of the property's quick check (seed 1);",
       "E / O / G = class given to a survivor in `mutscan/<ID>.triage.md` (equivalent / observable but outside the statement / gap, closed by a general extension and now killed);",
       "the classes also count survivors of a neighbouring property's sample that its builder passed on, so E+O+G can exceed the survived column. sites = mutation sites in the anchors.", "",
       "| property | sites | sampled | stillborn | suite | killed | survived | E | O | G | inconclusive |", "|---|---|---|---|---|---|---|---|---|---|---|"] + rows
out.append(f"| all | | {tot['sampled']} | {tot['stillborn']} | {tot['suite']} | {tot['killed']} | {tot['survived']} | {tot['E']} | {tot['O']} | {tot['G']} | {tot['inconclusive']} |")
open(os.path.join(V, "mutscan", "RESULTS.md"), "w").write("\n".join(out) + "\n")
print("\n".join(out[-24:]))
