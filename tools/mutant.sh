#!/bin/sh
# Sensitivity run: apply one patch to a scratch copy of the repository, make sure it still builds and
# passes the pinned test suite, then run one property's check against the copy.
#   tools/mutant.sh <patch file> <property id> [quick|thorough] [-R]
# -R applies the patch in reverse (used to undo a "fix:" commit). Prints one summary line:
#   MUTANT <patch> <id>: CAUGHT|MISSED|INCONCLUSIVE|NOT-A-MUTANT (...)
# The scratch copy lives outside /repo and /verif and is removed at the end.
PATCH=$(readlink -f "$1"); ID="$2"; TIER="${3:-quick}"; REV="$4"
cd "$(dirname "$0")/.."
export GOFLAGS=-mod=mod GOPROXY=off GOSUMDB=off GOTOOLCHAIN=local
W=$(mktemp -d /tmp/mut-XXXXXX)
trap 'rm -rf "$W"' EXIT
rsync -a --exclude .git /repo/ "$W/repo/"
if ! (cd "$W/repo" && patch -p1 $REV --no-backup-if-mismatch -s < "$PATCH"); then
  echo "MUTANT $(basename $PATCH) $ID: NOT-A-MUTANT (patch does not apply)"; exit 3
fi
if ! (cd "$W/repo" && go build ./... ) >"$W/build.log" 2>&1; then
  echo "MUTANT $(basename $PATCH) $ID: NOT-A-MUTANT (does not compile)"; tail -5 "$W/build.log"; exit 3
fi
if ! (cd "$W/repo" && go test -vet=off -count=1 ./... ) >"$W/test.log" 2>&1; then
  echo "MUTANT $(basename $PATCH) $ID: NOT-A-MUTANT (caught by the pinned test suite)"; grep -E "^(--- FAIL|FAIL)" "$W/test.log" | head -5; exit 3
fi
T0=$(date +%s)
VERIF_REPO="$W/repo" VERIF_MUTANT_RUN=1 bin/check "$ID" --tier "$TIER" --noevidence >"$W/check.log" 2>&1
RC=$?
T1=$(date +%s)
case $RC in
 1) echo "MUTANT $(basename $PATCH) $ID: CAUGHT in $((T1-T0))s: $(grep -m1 -A2 '^---- ' "$W/check.log" | tr '\n' ' ' | cut -c1-300)";;
 0) echo "MUTANT $(basename $PATCH) $ID: MISSED ($((T1-T0))s)";;
 *) echo "MUTANT $(basename $PATCH) $ID: INCONCLUSIVE rc=$RC"; tail -15 "$W/check.log";;
esac
exit $RC
