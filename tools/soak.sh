#!/bin/sh
# Soak run: every property's quick check at several seeds (and optionally thorough once), from the
# directory it is started in (works in a `vp run` snapshot: builds its own driver, writes evidence
# and replays under the snapshot). Prints one line per run; a non-zero exit is shown in full.
#   tools/soak.sh "<seeds>" [thorough [<seed of the thorough runs>]]
# Exit status: 0 when every run returned 0, 1 otherwise.
cd "$(dirname "$0")/.."
export GOFLAGS=-mod=mod GOPROXY=off GOSUMDB=off GOTOOLCHAIN=local VERIF_DIR="$(pwd)"
sh ./setup.sh >/dev/null 2>&1
SEEDS="${1:-6 7 8 9 10}"
TS="${3:-1}"
bad=0
for s in $SEEDS; do
  for id in C01 C02 C03 C04 C05 C06 C07 C08 C09 C10 C11 C12 C13 C14 C15 C16 C17 C18 C19 C20; do
    out=$(VERIF_SEED=$s bin/check $id --tier quick 2>&1); rc=$?
    echo "seed=$s $id rc=$rc $(echo "$out" | tail -1)"
    if [ $rc -ne 0 ]; then bad=1; echo "$out" | head -60; fi
  done
done
if [ "$2" = thorough ]; then
  for id in C01 C02 C03 C04 C05 C06 C07 C08 C09 C10 C11 C12 C13 C14 C15 C16 C17 C18 C19 C20; do
    t0=$(date +%s); out=$(VERIF_SEED=$TS bin/check $id --tier thorough 2>&1); rc=$?; t1=$(date +%s)
    echo "thorough $id rc=$rc $((t1-t0))s $(echo "$out" | grep -m1 'thorough seed')"
    if [ $rc -ne 0 ]; then bad=1; echo "$out" | head -80; fi
  done
fi
exit $bad
