#!/bin/sh
# Confirms one seeded change and runs a property check against it.
#   tools/seeded.sh <dir with patch.diff, demo_test.go, meta.json> <property id> [quick|thorough]
# 1. scratch git worktree of /repo (outside /repo and /verif); the demonstration passes there;
# 2. the patch applies, the tree builds, the pinned test suite passes, the demonstration FAILS;
# 3. bin/check <id> against the patched worktree (VERIF_REPO, --noevidence): CAUGHT / MISSED.
# Prints one line "SEEDED <dir> <id>: confirmed=yes|no(<why>) check=CAUGHT|MISSED|INCONCLUSIVE (..)".
# The worktree and its build output are removed at the end.
D=$(readlink -f "$1"); ID="$2"; TIER="${3:-quick}"
cd "$(dirname "$0")/.."
export GOFLAGS=-mod=mod GOPROXY=off GOSUMDB=off GOTOOLCHAIN=local
W=$(mktemp -d /tmp/seedrun-XXXXXX)
cleanup() { git -C /repo worktree remove --force "$W/wt" >/dev/null 2>&1; rm -rf "$W"; git -C /repo worktree prune; }
trap cleanup EXIT
git -C /repo worktree add --detach "$W/wt" HEAD >/dev/null 2>&1 || { echo "SEEDED $1 $ID: cannot create worktree"; exit 3; }
DEST=$(python3 -c "import json,sys; print(json.load(open('$D/meta.json')).get('demo_file_dest',''))")
CMD=$(python3 -c "import json,sys,re; print(re.split(r'\\s{2,}\\(', json.load(open('$D/meta.json')).get('demo_cmd',''))[0])")
DEMO=$(ls "$D"/demo*_test.go "$D"/*_test.go 2>/dev/null | head -1)
[ -n "$DEST" ] && [ -n "$DEMO" ] && mkdir -p "$(dirname "$W/wt/$DEST")" && cp "$DEMO" "$W/wt/$DEST"
conf=yes
if [ -n "$CMD" ]; then
  (cd "$W/wt" && sh -c "$CMD") >"$W/demo0.log" 2>&1 || conf="no(demo fails on the unchanged tree)"
fi
if ! git -C "$W/wt" apply "$D/patch.diff" 2>"$W/apply.log"; then
  echo "SEEDED $1 $ID: confirmed=no(patch does not apply to HEAD: $(head -1 $W/apply.log))"; exit 3
fi
(cd "$W/wt" && go build ./...) >"$W/build.log" 2>&1 || conf="no(does not compile)"
if [ "$conf" = yes ] && [ -n "$CMD" ]; then
  (cd "$W/wt" && sh -c "$CMD") >"$W/demo1.log" 2>&1 && conf="no(demo passes with the change)"
fi
# the pinned suite without the demonstration file
[ -n "$DEST" ] && rm -f "$W/wt/$DEST"
(cd "$W/wt" && go test -vet=off -count=1 ./...) >"$W/test.log" 2>&1 || conf="no(existing tests fail: $(grep -m1 -E '^(--- FAIL|FAIL)' $W/test.log))"
T0=$(date +%s)
VERIF_REPO="$W/wt" bin/check "$ID" --tier "$TIER" --noevidence >"$W/check.log" 2>&1
RC=$?
T1=$(date +%s)
case $RC in
 1) res="CAUGHT in $((T1-T0))s: $(grep -m1 -A1 '^---- ' "$W/check.log" | tr '\n' ' ' | cut -c1-260)";;
 0) res="MISSED ($((T1-T0))s)";;
 *) res="INCONCLUSIVE rc=$RC: $(tail -3 "$W/check.log" | tr '\n' ' ' | cut -c1-200)";;
esac
echo "SEEDED $1 $ID: confirmed=$conf check=$res"
