#!/usr/bin/env python3
# Writes seeded/RESULTS.md from seeded/*/meta.json (one row per kept seeded change)
import json, glob, os, re
root = os.path.join(os.path.dirname(os.path.abspath(__file__)), '..')
rows = []
for d in sorted(glob.glob(os.path.join(root, 'seeded', 'C*'))):
    if not os.path.isdir(d):
        continue
    m = json.load(open(os.path.join(d, 'meta.json')))
    rows.append((os.path.basename(d), m.get('property', ''), m.get('summary', ''), m.get('needs', ''), m.get('check_result', ''), m.get('final_status', '')))
def short(s, n):
    s = re.sub(r'\s+', ' ', s).replace('|', '/')
    return s if len(s) <= n else s[:n - 1] + '…'
out = ['# Seeded changes (from independent sub-agents) and what the checks did with them', '',
       'Each directory holds `patch.diff` (against /repo HEAD at the time), the demonstration test and `meta.json`.',
       'Every change was confirmed by `tools/seeded.sh` (scratch worktree: demo passes unchanged; patch applies, builds, pinned suite green, demo fails)',
       'and then run against the quick tier of its property (`VERIF_REPO=<patched worktree> bin/check <id> --tier quick --noevidence`).',
       'Last column: the full regression run of every kept patch against the final quick checks (`tools/mutant.sh seeded/<id>/patch.diff <ID>`).', '',
       '| id | what was changed | needs | result when kept | on the final tree |', '|---|---|---|---|---|']
miss = 0
for r in rows:
    if r[4].startswith('MISSED') or r[4].startswith('INCONCLUSIVE'):
        miss += 1
    out.append('| %s | %s | %s | %s | %s |' % (r[0], short(r[2], 260), short(r[3], 200), short(r[4], 260), short(r[5], 200)))
out += ['', '%d changes kept; %d of them were missed (or inconclusive) by the first version of the check and are caught after strengthening.' % (len(rows), miss)]
open(os.path.join(root, 'seeded', 'RESULTS.md'), 'w').write('\n'.join(out) + '\n')
print(len(rows), 'rows,', miss, 'first missed')
